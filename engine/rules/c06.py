"""C06 - PlantUML diagrams parse to exactly their components, aliases and arrows.

The parsing pipeline behind the public entry point `PumlParser.parse` is analysed by an abstract interpreter (rules/c06_absint.py:
shapes + provenance of regex-group captures + constant propagation); helpers are found by role (reachable from `parse`), never by name.

  C06.R1  the language of the reconstructed regular expressions contains every documented declaration / dependency form, the named
          groups bind name, alias, dependor and dependee to the intended substrings (oracle: the property's documented subset and
          docs/features/plantuml.md), the text bound on the tail side of an arrow ends up as key and the text bound on the head side
          as element of the value sets of `ParsedDependencies.dependencies`; component-name groups admit '.', '_' and digits
  C06.R2  every store into a dependor-keyed dict accumulates, never overwrites (two arrows of one component; alias and name
          resolve to the same key)
  C06.R3  aliases are resolved on both sides (keys and values of the returned relation can come out of the alias -> name map);
          the returned component set contains declared names, dependors and dependees
  C06.R4  a file without start/end tags is rejected with PumlParsingError; with tags exactly the text between them is scanned
          (decided by folding the tag slicing - regex or str.find/partition/... - on a table of file contents)
  C06.R5  a declaration with an alias and an alias-free declaration of the same component stay distinct until the alias map is
          built (the declaration pattern also matches a bracketed name at the end of an arrow line): records in sets / dict keys
          compare on the alias too; and however the declarations are collected (dict name -> alias, list + set of seen names,
          ...), at least one place that records the alias while the matches are read runs although the name was mentioned
          before (no first-mention-wins: setdefault, `if name not in ...`) and is not overwritten with None by a later mention
  C06.R6  parse is history-free: no location that outlives a call of `parse` (attribute of the parser object, class-level or
          module-level variable, memoised object, mutable default) is read before this call has re-initialised it on every path
          while the call tree of `parse` writes input-dependent or accumulated content into it (rules/c06_state.py: a flow-sensitive
          walk over the call tree of the public entry point; lazily built constants, tables keyed by the complete input, write-only
          statistics and configuration written outside the call tree are no history)
"""

from __future__ import annotations

import ast
import re
import re._constants as C

from core import guards as G
from core.loader import AnalysisError, ClassInfo, Repo, enclosing_stmt, norm
from core.regex_lang import Regex, cross_validate
from core.report import Result

from . import c06_absint as A
from . import c06_state as S
from .common import conds

PARSER_CLASS = "pytestarch.diagram_extension.diagram_parser.PumlParser"
RESULT_CLASS = "pytestarch.diagram_extension.parsed_dependencies.ParsedDependencies"
ERROR_CLASS = "pytestarch.diagram_extension.exceptions.PumlParsingError"

NAMES = ["A", "a_1", "mod2", "src.a.b"]
ALIAS = "AL"
ARROWS = [("-->", "r"), ("->", "r"), ("<--", "l"), ("<-", "l"), ("-uses->", "r"), ("<-uses-", "l")]

BODY = "\n[A] --> [B]\n[C] as c\nc -> A\n"
TAGGED = f"some text\n[X] --> [Y]\n@startuml{BODY}@enduml\ntrailing\n[P] --> [Q]\n"
# further accepted layouts: (what, file content); the text between the tags is BODY in all of them
ACCEPTED_MORE = [
    ("a diagram followed by text that mentions @startuml", f"intro\n@startuml{BODY}@enduml\nsee the @startuml reference\n[P] --> [Q]\n"),
    # (what, content, text between the tags when it is not BODY)
    ("a single line break between the tags (an empty diagram)", "intro\n@startuml\n@enduml\n", "\n"),
]
REJECTED = [
    ("no tags at all", "just text\n[A] --> [B]\n"),
    ("only a start tag", "@startuml\n[A] --> [B]\n"),
    ("only an end tag", "[A] --> [B]\n@enduml\n"),
    ("an empty file", ""),
    ("the end tag before the start tag", "@enduml\n[A] --> [B]\n@startuml\n"),
    ("a start tag without end tag after a text that mentions @enduml", "intro: diagrams end with @enduml\n@startuml\n[A] --> [B]\n"),
    ("nothing between adjacent tags", "@startuml@enduml"),
    ("nothing between adjacent tags after some text", "intro\n@startuml@enduml\n"),
]


# --------------------------------------------------------------------------------------------------------------- helpers
def find_class(repo: Repo, dotted: str) -> ClassInfo:
    fq = repo._canonical(dotted)
    ci = repo.classes.get(fq)
    if ci is None:
        raise AnalysisError(f"public anchor class {dotted} not found")
    return ci


def interpret(repo: Repo, parser: ClassInfo, content: A.AV | None) -> tuple[A.Interp, A.AV, bool]:
    fi = repo.lookup_method(parser, "parse")
    if fi is None or fi.is_abstract:
        raise AnalysisError(f"{parser.fq}.parse not found")
    interp = A.Interp(repo, content)
    boot = A.Frame(None, parser.module, ("boot",))
    try:
        self_av = interp.construct(parser, [], {}, boot, parser.node)
    except A._Dead:
        raise AnalysisError(f"constructor of {parser.name} always raises") from None
    path = A.ref(A.Opaque(("path",), "path"))
    v, completed = interp.run(fi, [self_av, path])
    return interp, v, completed


def atoms_of(av: A.AV) -> frozenset:
    return av.prov


def elem_atoms(interp: A.Interp, av: A.AV) -> tuple[frozenset, bool]:
    """(atoms of the elements of the collections in `av`, shape fully recognised)."""
    out: set = set()
    ok = bool(av.refs) and not av.top
    for n in av.refs:
        if isinstance(n, A.Seq):
            out |= n.elem.prov
            if n.elem.refs:
                ok = False
        elif isinstance(n, A.View) and n.kind == "keys":
            out |= n.d.k.prov
        else:
            ok = False
            out |= interp.flat_prov(A.ref(n))
    return frozenset(out), ok


def short(atom) -> str:
    atom = A.base_atom(atom)
    return f"group `{atom[2]}`" if atom and atom[0] == "g" else str(atom)


def bases(atoms) -> set:
    return {A.base_atom(a) for a in atoms}


def looked_up(atoms) -> set:
    """Atoms that were read out of a mapping with computed keys (`aliases[x]`, `aliases.get(x, x)`, `.values()`)."""
    return {a[1] for a in atoms if a and a[0] == "v"}


def has_unknown(atoms) -> bool:
    return any(a and A.base_atom(a)[0] == "?" for a in atoms)


def _class_has(items, ch: str) -> bool:
    negate = hit = False
    for op, av in items:
        if op is C.NEGATE:
            negate = True
        elif op is C.LITERAL:
            hit = hit or ord(ch) == av
        elif op is C.RANGE:
            hit = hit or av[0] <= ord(ch) <= av[1]
        elif op is C.CATEGORY:
            hit = hit or Regex._category(av, ch)
    return hit != negate


def admits(tree, gname: str, ch: str, dotall: bool = False) -> bool:
    """Does some character position inside the named group accept `ch`?  (structural question on the sre parse tree)"""
    gid = gname if isinstance(gname, int) else dict(tree.state.groupdict).get(gname)
    found = False

    def walk(seq, inside: bool) -> None:
        nonlocal found
        for op, av in seq:
            if op is C.SUBPATTERN:
                walk(av[3], inside or av[0] == gid)
            elif op is C.BRANCH:
                for alt in av[1]:
                    walk(alt, inside)
            elif op in (C.MAX_REPEAT, C.MIN_REPEAT) or op is getattr(C, "POSSESSIVE_REPEAT", None):
                walk(av[2], inside)
            elif op is getattr(C, "ATOMIC_GROUP", None):
                walk(av, inside)
            elif op in (C.ASSERT, C.ASSERT_NOT):
                continue
            elif inside:
                if op is C.IN:
                    found = found or _class_has(av, ch)
                elif op is C.LITERAL:
                    found = found or ord(ch) == av
                elif op is C.NOT_LITERAL:
                    found = found or ord(ch) != av
                elif op is C.ANY:
                    found = found or ch != "\n" or dotall

    walk(tree, False)
    return found


class Rx(Regex):
    """The shared interpreter, honouring flags given inline in the pattern text (`(?m)`, `(?s)`)."""

    def __init__(self, pattern: str, flags: int = 0) -> None:
        super().__init__(pattern, flags)
        eff = flags | int(getattr(self.tree.state, "flags", 0))
        self.flags = eff
        self.multiline = bool(eff & re.MULTILINE)
        self.dotall = bool(eff & re.DOTALL)


class StdRegex:
    """Same questions answered by the stdlib engine (used when the checker's interpreter does not support a construct of the pattern)."""

    def __init__(self, text: str, flags: int) -> None:
        self.c = re.compile(text, flags)
        self.groupindex = dict(self.c.groupindex)

    def finditer(self, s: str) -> list:
        return [(m.start(), m.end(), m.groupdict()) for m in self.c.finditer(s)]

    def search(self, s: str):
        m = self.c.search(s)
        return None if m is None else (m.start(), m.end(), m.groupdict())

    def spans(self, s: str, how: str) -> list:
        if how in ("finditer", "findall", "split", "sub", "subn"):
            ms = list(self.c.finditer(s))
        else:
            m = getattr(self.c, how)(s)
            ms = [m] if m is not None else []
        return [(m.start(), m.end(), {gid: m.span(gid) for gid in range(1, self.c.groups + 1) if m.span(gid) != (-1, -1)}) for m in ms]

    def match_at(self, s: str, pos: int):
        m = self.c.match(s, pos)
        return None if m is None else (m.end(), {gid: m.span(gid) for gid in range(1, self.c.groups + 1) if m.span(gid) != (-1, -1)})


class LinePattern:
    def __init__(self, p: A.Pattern, site: A.Site, samples: list[str], res: Result) -> None:
        self.p = p
        self.site = site
        self.roles: dict = {}
        self.used: set = set()  # groups (names, or indexes of unnamed groups) the code reads
        self._tree = None
        self.own = True
        try:
            self.rx = Rx(p.text, p.flags)
            bad = cross_validate(self.rx, samples + [self.PRE + x + self.POST for x in samples])
        except AnalysisError as e:
            bad = [str(e)]
        if bad:
            self.own = False
            try:
                self.rx = StdRegex(p.text, p.flags)
            except re.error as e:
                raise AnalysisError(f"reconstructed pattern does not compile: {e}: {p.text!r}") from e
            res.observe(f"C06.R1: pattern of {self.key()} evaluated with the stdlib engine (the checker's interpreter: {bad[0][:120]})")

    def tree(self):
        import re._parser as P

        if self._tree is None:
            self._tree = P.parse(self.p.text, self.p.flags)
        return self._tree

    def matches(self, line: str) -> list[tuple[int, int, dict]]:
        """(start, end, {group name or index of an unnamed group: captured text or None}) per match, as the call site would see them."""
        how = self.site.how
        whole_text = how in ("finditer", "findall", "split", "sub", "subn")
        if whole_text:
            # the call site scans the whole diagram: the documented line is one line among others
            return self._in_context(line)
        return self._matches(line)

    PRE, POST = "%%%\n", "\n%%%"

    def _in_context(self, line: str) -> list[tuple[int, int, dict]]:
        off = len(self.PRE)
        out = []
        for a, b, caps in self._matches(self.PRE + line + self.POST):
            if b <= off or a >= off + len(line):
                continue  # a match inside the neutral context lines
            out.append((a - off, b - off, caps))
        return out

    def _matches(self, line: str) -> list[tuple[int, int, dict]]:
        how = self.site.how
        if isinstance(self.rx, StdRegex):
            raw = self.rx.spans(line, how)
        else:
            raw = []
            if how in ("finditer", "findall", "split", "sub", "subn", "search"):
                pos = 0
                while pos <= len(line):
                    hit = None
                    for p in range(pos, len(line) + 1):
                        r = self.rx.match_at(line, p)
                        if r is not None:
                            hit = (p, r[0], r[1])
                            break
                    if hit is None:
                        break
                    raw.append(hit)
                    if how == "search":
                        break
                    pos = hit[1] if hit[1] > hit[0] else hit[1] + 1
            else:
                r = self.rx.match_at(line, 0)
                if r is not None and (how != "fullmatch" or r[0] == len(line)):
                    raw.append((0, r[0], r[1]))
        byidx = {i: n for n, i in self.rx.groupindex.items()}
        ngroups = self.tree().state.groups - 1
        out = []
        for a, b, g in raw:
            caps = {byidx.get(i, i): (line[g[i][0] : g[i][1]] if i in g else None) for i in range(1, ngroups + 1)}
            out.append((a, b, caps))
        return out

    def groups(self, role: str) -> list[str]:
        return sorted((g for g, rs in self.roles.items() if rs == {role}), key=str)

    def where(self) -> str:
        return f"{self.site.fi.relpath}:{getattr(self.site.node, 'lineno', 0)}" if self.site.fi else ""

    def key(self) -> str:
        return f"{self.site.fi.relpath}::{self.site.fi.qualname}" if self.site.fi else "<module>"


def pick(caps: dict, groups: list[str]):
    vals = {caps[g] for g in groups if caps.get(g)}
    if not vals:
        return None
    if len(vals) == 1:
        return next(iter(vals))
    return ("ambiguous", tuple(sorted(vals)))


def check_history(repo: Repo, res: Result, parser: ClassInfo) -> None:
    try:
        S.check(repo, res, parser, "C06.R6")
    except AnalysisError:
        raise
    except (RecursionError, AssertionError, AttributeError, KeyError, TypeError, ValueError, IndexError) as exc:
        fi = repo.lookup_method(parser, "parse")
        res.undecide("C06.R6", f"{fi.relpath}::{fi.qualname}", f"the walk over the call tree of parse() failed ({type(exc).__name__}: {exc})", f"{fi.relpath}:{fi.node.lineno}")


# ------------------------------------------------------------------------------------------------------------------- run
def run(repo: Repo) -> Result:
    res = Result("C06")
    res.explanation = (
        "The pipeline behind PumlParser.parse is interpreted abstractly (shapes, provenance of regex-group captures, constant folding). "
        "Decides (R1) that every documented declaration and dependency form (names: identifier, identifier with _/digits, dotted; refs: [N], N, "
        "alias; arrows -->, ->, <--, <-, -text->, <-text-) is in the language of the regular expressions reconstructed from the source, with the "
        "named groups binding name / alias / dependor / dependee as intended and flowing into the key / value side of the returned relation; "
        "(R2) every store into a dependor-keyed dict accumulates; (R3) the alias map can reach keys and values of the returned relation and the "
        "component set collects declared names, dependors and dependees; (R4) contents without tags are rejected with PumlParsingError and "
        "exactly the text between the tags is scanned; (R5) declarations of one component with and without alias are not merged; (R6) the call tree of "
        "parse reads no state that an earlier call of parse may have written (parser attributes, class-level and module-level variables, memoised "
        "objects, mutable defaults) before re-initialising it on every path - the result of parse(file) is a function of the file alone."
    )
    res.not_decided = "arbitrary generated diagrams and noise text containing the tags; forms outside the documented subset (listed as observations)."
    res.trusted_base = [
        "re._parser.parse produces the pattern's AST",
        "the checker's regex interpreter (cross-validated against re on the form table in every run)",
        "R6: calls are resolved by the annotation-driven typer (class-hierarchy analysis); effects of library calls on their arguments other than the container methods of core.cfg.MUTATORS are not modelled; state that is reset at the *end* of parse is reported (an exception in between would leave it behind)",
        "the checker's abstract interpreter models the Python constructs and library calls used by the pipeline; unmodelled calls taint their result and lead to 'undecided', never to a pass",
    ]
    parser = find_class(repo, PARSER_CLASS)
    result_cls = find_class(repo, RESULT_CLASS)
    error_cls = find_class(repo, ERROR_CLASS)
    # ---- R6 parse is history-free (independent of the abstract run below)
    check_history(repo, res, parser)
    interp, ret, completed = interpret(repo, parser, None)
    parse_fi = repo.lookup_method(parser, "parse")
    parse_key = f"{parse_fi.relpath}::{parse_fi.qualname}"
    parse_where = f"{parse_fi.relpath}:{parse_fi.node.lineno}"
    finals = [n for n in ret.refs if isinstance(n, A.Rec) and any(c.fq == result_cls.fq for c in repo.mro(n.cls))]
    if not completed or not finals:
        res.undecide("C06.R3", parse_key, f"the value returned by parse() is not recognised as a {result_cls.name} (unmodelled: {interp.unknown[:3]})", parse_where)
        return res
    fields = [a for c in reversed(repo.mro(result_cls)) for a in c.ann_attrs]
    if "dependencies" not in fields or "all_modules" not in fields:
        raise AnalysisError(f"public fields all_modules / dependencies of {result_cls.name} not found")
    deps_av = A.join(*[n.fields.get("dependencies", A.BOT) for n in finals])
    mods_av = A.join(*[n.fields.get("all_modules", A.BOT) for n in finals])
    final_dicts = [n for n in deps_av.refs if isinstance(n, A.Dict)]
    K: set = set()
    V: set = set()
    shape_ok = bool(final_dicts) and len(final_dicts) == len(deps_av.refs) and not deps_av.top
    for d in final_dicts:
        K |= d.k.prov
        va, ok = elem_atoms(interp, d.v)
        V |= va
        shape_ok = shape_ok and ok
    Aset, a_ok = elem_atoms(interp, mods_av)
    fuzzy = bool(interp.unknown) or not shape_ok or not a_ok or has_unknown(K | V | Aset)
    # ---- form table
    decl_forms: list[tuple[str, str, str | None]] = []
    for n in NAMES:
        decl_forms += [(f"[{n}]", n, None), (f"component {n}", n, None), (f"component [{n}]", n, None), (f"[{n}] as {ALIAS}", n, ALIAS), (f"component [{n}] as {ALIAS}", n, ALIAS)]
    dep_forms: list[tuple[str, str, str]] = []
    refs = lambda n: [f"[{n}]", n]  # noqa: E731
    for left, right in [("A", "src.a.b"), ("a_1", "mod2"), ("src.a.b", "A"), (ALIAS, "mod2")]:
        for arrow, direction in ARROWS:
            for lref in refs(left):
                for rref in refs(right):
                    dep_forms.append((f"{lref} {arrow} {rref}", *((left, right) if direction == "r" else (right, left))))
    samples = [f[0] for f in decl_forms] + [f[0] for f in dep_forms]
    # ---- the line patterns: patterns whose named groups are read somewhere
    all_atoms: set = set()
    for n in list(interp.nodes.values()):
        if isinstance(n, (A.Seq, A.Dict, A.Rec)):
            all_atoms |= interp.flat_prov(A.ref(n))
    all_atoms |= K | V | Aset
    all_atoms = bases(all_atoms)
    A_direct = {a for a in Aset if a and a[0] != "v"}
    K, V, Aset = bases(K), bases(V), frozenset(bases(Aset))
    site_of: dict = {}
    for s in interp.sites.values():
        site_of.setdefault(s.pattern.key, s)
    lps: list[LinePattern] = []
    unread: list[LinePattern] = []
    for pk, p in interp.patterns.items():
        used = {a[2] for a in all_atoms if a[0] == "g" and a[1] == pk and a[2] != 0}
        if pk not in site_of:
            continue
        lp = LinePattern(p, site_of[pk], samples, res)
        lp.used = used
        if used:
            lps.append(lp)
        elif lp.tree().state.groups > 1 and any(a == 0 and b == len(x) for x in samples for a, b, _c in lp.matches(x)):
            unread.append(lp)
    for lp in unread:
        # the pattern matches documented lines, but no group of it is read according to the flow analysis: either the matches are
        # thrown away or the analysis lost the flow - no verdict on the lines it would bind
        res.undecide("C06.R1", lp.key(), f"the pattern `{lp.p.text[:50]}...` matches documented lines, but the analysis sees none of its groups being read", lp.where())
    if not lps:
        res.undecide("C06.R1", parse_key, f"no regular expression with groups feeds the parse result (patterns seen: {len(interp.patterns)}; unmodelled: {interp.unknown[:3]})", parse_where)
        return res
    res.analysed["patterns"] = {lp.key(): lp.p.text for lp in lps}
    # ---- roles of the groups: what does a group capture in matches that span a whole documented line?
    for lp in lps:
        for line, name, alias in decl_forms:
            for a, b, caps in lp.matches(line):
                if a == 0 and b == len(line):
                    for g, c in caps.items():
                        if g not in lp.used:
                            continue
                        if c == name:
                            lp.roles.setdefault(g, set()).add("name")
                        elif alias and c == alias:
                            lp.roles.setdefault(g, set()).add("alias")
        for line, tail, head in dep_forms:
            for a, b, caps in lp.matches(line):
                if a == 0 and b == len(line):
                    for g, c in caps.items():
                        if g not in lp.used:
                            continue
                        if c == tail:
                            lp.roles.setdefault(g, set()).add("tail")
                        elif c == head:
                            lp.roles.setdefault(g, set()).add("head")
    ignored = [lp for lp in lps if not lp.roles]
    lps = [lp for lp in lps if lp.roles]
    for lp in ignored:
        res.observe(f"C06.R1: pattern `{lp.p.text[:60]}` of {lp.key()} binds no part of a documented line (not a line pattern)")
    lossy = bool(interp.lost_patterns or interp.unknown or unread)
    if not lps and lossy:
        res.undecide("C06.R1", parse_key, f"no reconstructed pattern matches a documented line as a whole (unmodelled: {(interp.lost_patterns or interp.unknown)[:3]})", parse_where)
        return res
    res.analysed["group_roles"] = {lp.key(): {str(g): sorted(r) for g, r in lp.roles.items()} for lp in lps}
    conflict: set[str] = set()
    for lp in lps:
        for g, rs in lp.roles.items():
            if len(rs) > 1:
                conflict |= rs
                res.undecide("C06.R1", f"{lp.key()}::group {g}", f"group `{g}` binds different sides in different documented forms ({sorted(rs)}); the direction logic is not recognised", lp.where())
    decl_lps = [lp for lp in lps if lp.groups("name")]
    dep_lps = [lp for lp in lps if lp.groups("tail") or lp.groups("head")]

    def decl_records(line: str) -> list:
        return [(pick(caps, lp.groups("name")), pick(caps, lp.groups("alias"))) for lp in decl_lps for _a, _b, caps in lp.matches(line)]

    def dep_records(line: str) -> list:
        return [(pick(caps, lp.groups("tail")), pick(caps, lp.groups("head"))) for lp in dep_lps for _a, _b, caps in lp.matches(line)]

    def ambiguous(recs: list) -> bool:
        return any(isinstance(x, tuple) for r in recs for x in r)

    k = 0
    fallback = lps[0] if lps else (ignored[0] if ignored else None)
    anchor_decl = decl_lps[0] if decl_lps else fallback
    anchor_dep = dep_lps[0] if dep_lps else fallback
    for line, name, alias in decl_forms:
        got, arrows = decl_records(line), dep_records(line)
        k += 1
        if conflict & {"name", "alias"}:
            continue
        construct = f"{anchor_decl.key() if decl_lps else parse_key}::form `{line}`"
        if ambiguous(got):
            res.undecide("C06.R1", construct, f"several name groups bind different texts in one match: {got}", anchor_decl.where())
            continue
        ok = got == [(name, alias)] and not arrows
        detail = f"parsed as component {name!r}" + (f" with alias {alias!r}" if alias else "")
        if not ok and (interp.lost_patterns or unread or (interp.unknown and (name, alias) not in got)):
            res.undecide("C06.R1", construct, f"not matched by the reconstructed patterns, but not every pattern could be reconstructed (unmodelled: {(interp.lost_patterns or interp.unknown)[:2]})", anchor_decl.where())
            continue
        if not ok:
            detail = f"the declaration `{line}` is parsed as {got}" + (f" plus arrows {arrows}" if arrows else "") + f" instead of [({name!r}, {alias!r})]: the documented form is not (correctly) in the language of the declaration pattern"
        res.add("C06.R1", construct, ok, detail, anchor_decl.where(), kind="regex-language")
    for line, tail, head in dep_forms:
        got, decls = dep_records(line), decl_records(line)
        k += 1
        if conflict & {"tail", "head"}:
            continue
        construct = f"{anchor_dep.key() if dep_lps else parse_key}::form `{line}`"
        if ambiguous(got):
            res.undecide("C06.R1", construct, f"several groups of one side bind different texts in one match: {got}", anchor_dep.where())
            continue
        extra = [d for d in decls if d not in ((tail, None), (head, None))]
        ok = got == [(tail, head)] and not extra
        detail = f"{tail} depends on {head}"
        if not ok and (interp.lost_patterns or unread or (interp.unknown and (tail, head) not in got)):
            res.undecide("C06.R1", construct, f"not matched by the reconstructed patterns, but not every pattern could be reconstructed (unmodelled: {(interp.lost_patterns or interp.unknown)[:2]})", anchor_dep.where())
            continue
        if not ok:
            detail = f"the dependency line `{line}` is parsed as {got} instead of [{(tail, head)}] (dependor, dependee)" + (f" and declares {extra}" if extra else "") + ": the documented form is not (correctly) in the language of the dependency pattern"
        res.add("C06.R1", construct, ok, detail, anchor_dep.where(), kind="regex-language")
    res.floor("C06.R1", 100, k)
    # alias after an unbracketed name is not documented
    line = f"component {NAMES[0]} as {ALIAS}"
    got = decl_records(line)
    if got != [(NAMES[0], ALIAS)]:
        res.observe(f"C06.R1 not armed: `{line}` parses as {got} (alias ignored); docs/features/plantuml.md documents aliases only for the bracketed form `[module name] as alias`")
    for line in ("  [A] --> [B]", "[Mod A] --> [Mod B]", "[A] ---> [B]"):
        got = dep_records(line)
        if got != [("A", "B")] and got != [("Mod A", "Mod B")]:
            res.observe(f"C06.R1 not armed (outside the documented subset): `{line}` parses as {got}")
    # character classes of the name groups
    for lp in lps:
        for role in ("name", "tail", "head"):
            for g in lp.groups(role):
                for ch in (".", "_", "7", "x"):
                    ok = admits(lp.tree(), g, ch, bool((lp.p.flags | int(getattr(lp.tree().state, 'flags', 0))) & re.DOTALL))
                    res.add("C06.R1", f"{lp.key()}::group {g} admits {ch!r}", ok, f"component names may contain {ch!r}" if ok else f"the character class of group `{g}` does not admit {ch!r}: fully qualified dotted module names / identifiers cannot be component names", lp.where(), kind="regex-language")
    res.analysed["form_table_lines"] = len(samples)
    res.analysed["unmodelled"] = list(interp.unknown)
    res.analysed["interpreted_functions"] = sorted(interp.called)

    # ---- flow of the role groups into the result
    def atom(lp: LinePattern, g: str) -> tuple:
        return ("g", lp.p.key, g)

    def flow(rule: str, construct: str, want: list[tuple], have: set, good: str, bad_: str, where_: str, kind: str = "flow") -> None:
        if not want:
            return
        missing = [a for a in want if a not in have]
        if missing and fuzzy:
            res.undecide(rule, construct, f"{bad_} ({', '.join(short(a) for a in missing)}), but the data flow is not fully recognised (unmodelled: {interp.unknown[:3] or 'shape of the result'})", where_)
            return
        res.add(rule, construct, not missing, good if not missing else f"{bad_}: {', '.join(short(a) for a in missing)} never flow(s) there", where_, kind=kind)

    tails = [atom(lp, g) for lp in lps for g in lp.groups("tail")]
    heads = [atom(lp, g) for lp in lps for g in lp.groups("head")]
    names = [atom(lp, g) for lp in lps for g in lp.groups("name")]
    aliases = [atom(lp, g) for lp in lps for g in lp.groups("alias")]
    flow("C06.R1", f"{parse_key}::arrow tail is the dependor", tails, K, "the text bound on the tail side of an arrow becomes a key of ParsedDependencies.dependencies", "text bound on the tail side of an arrow (the dependor) does not become a key of the returned relation - arrows are read backwards or dropped", parse_where)
    flow("C06.R1", f"{parse_key}::arrow head is the dependee", heads, V, "the text bound on the head side of an arrow becomes an element of the value sets of ParsedDependencies.dependencies", "text bound on the head side of an arrow (the dependee) does not become an element of the value sets of the returned relation - arrows are read backwards or dropped", parse_where)
    # ---- R3 alias map and component set
    alias_maps = [n for n in interp.nodes.values() if isinstance(n, A.Dict) and set(aliases) & bases(n.k.prov) and set(names) & bases(n.v.prov)]
    aliased_names: list[tuple] = []
    for lp in lps:
        ag, ng = lp.groups("alias"), lp.groups("name")
        seen: set[str] = set()
        for line, name, alias in decl_forms:
            if alias:
                for _a, _b, caps in lp.matches(line):
                    if any(caps.get(g) for g in ag):
                        seen |= {g for g in ng if caps.get(g)}
        aliased_names += [atom(lp, g) for g in sorted(seen)]
    if aliases:
        if alias_maps:
            res.add("C06.R3", f"{parse_key}::alias map", True, "a dict maps the text of the alias group to the declared component name", parse_where, kind="flow")
        # text of the declaration pattern has no other way into the relation than alias resolution (through a mapping or any other lookup)
        flow("C06.R3", f"{parse_key}::dependor resolved", aliased_names, K, "the dependor of every arrow can be replaced by the component name its alias was declared for", "keys of the returned relation never come from the declarations (dependors are stored without alias resolution)", parse_where)
        flow("C06.R3", f"{parse_key}::every dependee resolved", aliased_names, V, "every dependee can be replaced by the component name its alias was declared for", "elements of the value sets of the returned relation never come from the declarations (dependees are stored without alias resolution)", parse_where)
    elif not res.violations:
        res.undecide("C06.R3", f"{parse_key}::alias map", "no group of the declaration pattern binds the alias of `[N] as AL`", parse_where)
    other_maps = [n for n in interp.nodes.values() if isinstance(n, A.Dict) and n not in alias_maps and set(names) & bases(n.v.prov)]
    # names that only arrive through the alias map are not "the declared components"
    declared_have = set(Aset) if other_maps else A_direct
    for want, have, what in ((names, declared_have, "declared components"), (tails, set(Aset), "dependors"), (heads, set(Aset), "dependees")):
        flow("C06.R3", f"{parse_key}::{what} in the component set", want, have, f"{what} are part of the returned component set", f"the {what} do not reach ParsedDependencies.all_modules: a component that only occurs as {what[:-1]} is missing (no rule is generated for it)", parse_where)
    # aliases are not components: the text of the alias group must not reach the result (unless the analysis itself merged name and alias)
    if aliases:
        leaked = [a for a in aliases if a in (K | V | set(Aset))]
        final_nodes = {id(n) for av in (deps_av, mods_av) for n in reachable(av)}
        mixing = [n for n in interp.nodes.values() if id(n) not in final_nodes and mixes(n, set(aliases), set(names) | set(tails) | set(heads))]
        construct = f"{parse_key}::aliases are not components"
        if not leaked:
            res.add("C06.R3", construct, True, "the text bound by the alias group is only used as key of the alias map", parse_where, kind="flow")
        elif mixing or fuzzy:
            res.observe(f"C06.R3 not armed: {', '.join(short(a) for a in leaked)} may reach the result, but the analysis merges alias and name in an intermediate container ({mixing[0].kind if mixing else 'unmodelled call'})")
        else:
            res.add("C06.R3", construct, False, f"the text bound by {', '.join(short(a) for a in leaked)} (the alias of `[N] as AL`) reaches the returned components / relation: aliases are listed as components instead of being resolved", parse_where, kind="flow")
    # results of non-mutating methods that are thrown away
    for fi in repo.all_functions():
        if fi.fq not in interp_seen(interp):
            continue
        for s in A._own(fi.node):
            if isinstance(s, ast.Expr) and isinstance(s.value, ast.Call) and isinstance(s.value.func, ast.Attribute) and s.value.func.attr in ("union", "intersection", "difference", "symmetric_difference", "replace", "strip", "join"):
                res.add("C06.R3", repo.key(fi, s), False, f"the result of `{norm(s.value, 60)}` is discarded ({s.value.func.attr} returns a new object, it does not modify the receiver)", f"{fi.relpath}:{s.lineno}", kind="structural")
    # ---- R2 accumulate, never overwrite
    check_merges(repo, res, interp, set(tails), set(heads), final_dicts, parse_key, parse_where)
    # ---- R5 declarations with and without alias stay distinct
    implicit = sorted({line for line, _t, _h in dep_forms if decl_records(line)})
    check_records(repo, res, interp, set(aliases), set(names), parse_key, parse_where, implicit[0] if implicit else None)
    check_collection(repo, res, interp, set(aliases), set(names), parse_key, parse_where, implicit[0] if implicit else None)
    # ---- R4 tags
    check_tags(repo, res, parser, error_cls, {lp.p.text for lp in lps}, parse_key, parse_where)
    return res


def reachable(av: A.AV, seen: dict | None = None) -> list:
    seen = seen if seen is not None else {}
    for n in av.refs:
        if id(n) in seen:
            continue
        seen[id(n)] = n
        if isinstance(n, A.Seq):
            reachable(n.elem, seen)
        elif isinstance(n, A.Dict):
            reachable(n.k, seen)
            reachable(n.v, seen)
        elif isinstance(n, A.View):
            reachable(A.ref(n.d), seen)
        elif isinstance(n, A.Rec):
            for v in n.fields.values():
                reachable(v, seen)
    return list(seen.values())


def mixes(n, left: set, right: set) -> bool:
    """Does one abstract slot of the node hold text of both kinds (the abstraction cannot tell them apart any more)?"""
    slots: list[A.AV] = []
    if isinstance(n, A.Seq):
        slots = [n._elem, *(n.items or [])]
    elif isinstance(n, A.Dict):
        slots = [n.k, n.v]
    elif isinstance(n, A.Rec):
        slots = list(n.fields.values())
    return any(left & bases(s.prov) and right & bases(s.prov) for s in slots)


def interp_seen(interp: A.Interp) -> set[str]:
    seen = getattr(interp, "_seen_funcs", None)
    if seen is None:
        seen = set()
        for e in interp.events.values():
            if e.fi is not None:
                seen.add(e.fi.fq)
        for s in interp.sites.values():
            if s.fi is not None:
                seen.add(s.fi.fq)
        seen |= set(getattr(interp, "called", ()))
        interp._seen_funcs = seen  # type: ignore[attr-defined]
    return seen


# -------------------------------------------------------------------------------------------------------------------- R2
def check_merges(repo: Repo, res: Result, interp: A.Interp, tails: set, heads: set, final_dicts: list, parse_key: str, parse_where: str) -> None:
    # dependor-keyed dicts that hold dependees (a dict from dependor to a position / count is no relation)
    dep_dicts = {n for n in interp.nodes.values() if isinstance(n, A.Dict) and tails & bases(n.k.prov) and (heads & bases(interp.flat_prov(n.v)) or not n.v.consts and not n.v.top and n.v.refs)}
    dep_dicts |= set(final_dicts)
    events = [e for e in interp.events.values() if e.dicts & dep_dicts]
    per_dict: dict = {}
    for e in events:
        for d in e.dicts:
            per_dict.setdefault(d, []).append(e)
    n2 = 0
    for e in events:
        fi = e.fi
        construct = repo.key(fi, e.node) if fi is not None else norm(e.node, 80)
        where_ = f"{fi.relpath}:{getattr(e.node, 'lineno', 0)}" if fi is not None else ""
        facts = {(f[0], f[2]) for f in e.facts if f[0] in ("absent", "present", "absent-or-empty") and f[1] & e.dicts}
        n2 += 1
        if e.kind == "setdefault":
            res.add("C06.R2", construct, True, "setdefault keeps what is already recorded for the key", where_, kind="structural")
        elif e.kind == "item-mutate":
            ensured = all(d.factory is not None for d in e.dicts) or ("present", e.key_text) in facts or all(any(o is not e and o.kind != "item-mutate" for o in per_dict.get(d, [])) for d in e.dicts)
            res.add("C06.R2", construct, ensured, "the entry of the key is extended in place" if ensured else f"`{norm(e.node, 60)}` raises KeyError for a new key (the dict is not a defaultdict and the entry is never created)", where_, kind="structural")
        elif e.kind in ("assign", "comp", "ctor"):
            only_site = all(len(per_dict.get(d, [])) == 1 for d in e.dicts)
            if e.reads_same:
                res.add("C06.R2", construct, True, "the stored value is built from what is already recorded for the key", where_, kind="structural")
            elif ("absent", e.key_text) in facts or (("absent-or-empty", e.key_text) in facts):
                res.add("C06.R2", construct, True, "the store creates the entry of a key that is not in the dict yet", where_, kind="structural")
            elif e.fresh_empty and fills_fresh_dict(e, per_dict):
                res.add("C06.R2", construct, True, "empty entries are created before anything is recorded in the dict", where_, kind="structural")
            elif e.key.uniq is not None and (only_site or fills_fresh_dict(e, per_dict)):
                res.add("C06.R2", construct, True, "the keys are the distinct keys of the dict / set being iterated and the dict is empty before: no two stores go to the same key", where_, kind="structural")
            elif e.key.uniq is not None:
                res.undecide("C06.R2", construct, "the store uses the distinct keys of the collection being iterated, but the dict is also filled elsewhere and the order of the two is not recognised", where_)
            else:
                what = "a dict comprehension keeps only the last entry per key" if e.kind == "comp" else "dict(pairs) keeps only the last pair per key" if e.kind == "ctor" else f"`{norm(e.node, 70)}` overwrites"
                res.add("C06.R2", construct + (" [dict comprehension]" if e.kind == "comp" else ""), False, f"{what}: the key `{e.key_text or norm(e.node, 40)}` is many-to-one (an alias and its component name resolve to the same key; one component draws several arrows), so arrows recorded earlier under the same key are lost", where_, kind="structural")
        elif e.kind == "update":
            targets_other = any(len(per_dict.get(d, [])) > 1 for d in e.dicts) or e.in_loop
            if targets_other:
                res.undecide("C06.R2", construct, f"dict-level merge ({e.detail}) into a dependor-keyed dict that is also filled elsewhere: per-key accumulation not recognised", where_)
            else:
                res.add("C06.R2", construct, True, "a single dict-level copy: keys stay distinct", where_, kind="structural")
    res.floor("C06.R2", 1, n2)


def fills_fresh_dict(e: A.Event, per_dict: dict) -> bool:
    """The store sits in a loop that comes textually before every other store into the same (locally created) dict."""
    if e.fi is None or isinstance(e.node, ast.DictComp):
        return False
    from core.loader import ancestors

    loop = None
    for a in ancestors(e.node):
        if a is e.fi.node:
            break
        if isinstance(a, (ast.For, ast.While)):
            loop = a
    if loop is None:
        return False
    end = getattr(loop, "end_lineno", None)
    for d in e.dicts:
        alloc = d.alloc
        if alloc is None or not (getattr(alloc, "lineno", 10**9) < loop.lineno) or not any(x is e.fi.node for x in ancestors(alloc)):
            return False
        for o in per_dict.get(d, []):
            if o is e:
                continue
            if o.fi is not e.fi or end is None or getattr(o.node, "lineno", 0) <= end:
                return False
    return True


# -------------------------------------------------------------------------------------------------------------------- R5
def check_records(repo: Repo, res: Result, interp: A.Interp, aliases: set, names: set, parse_key: str, parse_where: str, implicit: str | None) -> None:
    if not aliases:
        return
    holders = 0
    done: set[str] = set()
    how = f"an arrow line such as `{implicit}` also matches the declaration pattern and declares its last component without alias" if implicit else "a component may be declared twice, once with and once without alias"
    for n in list(interp.nodes.values()):
        keyed: list[A.AV] = []
        if isinstance(n, A.Seq) and n.kind in ("set", "frozenset"):
            keyed.append(n.elem)
        elif isinstance(n, A.Dict):
            keyed.append(n.k)
        for av in keyed:
            for r in av.refs:
                if not isinstance(r, A.Rec):
                    continue
                alias_fields = [f for f, v in r.fields.items() if aliases & bases(v.prov)]
                name_fields = [f for f, v in r.fields.items() if names & bases(v.prov)]
                if not alias_fields or not name_fields:
                    continue
                holders += 1
                ci = r.cls
                construct = f"{ci.module.relpath}::{ci.name}::equality covers {', '.join(alias_fields)}"
                if construct in done:
                    continue
                done.add(construct)
                where_ = f"{ci.module.relpath}:{ci.node.lineno}"
                verdict, why = record_equality(repo, ci, alias_fields, how)
                if verdict is None:
                    res.undecide("C06.R5", construct, why, where_)
                else:
                    res.add("C06.R5", construct, verdict, why, where_, kind="structural")
    if not holders:
        res.add("C06.R5", parse_key + "::declarations are not deduplicated by name", True, "declaration records (name, alias) are not elements of a set / keys of a dict: declarations of one component with and without alias cannot be merged", parse_where, nontrivial=False)


# ---- R5, second half: however the declarations are collected, the alias of a declaration is not lost to an alias-free mention
A_CUR, P_SEEN, Q_NONE = "alias of this mention is not None", "name was collected before", "alias recorded for the name is None"


class Meaning:
    """What the tests the abstract run evaluated mean for the collection of declarations (atoms A_CUR / P_SEEN / Q_NONE)."""

    def __init__(self, interp: A.Interp, aliases: set, names: set) -> None:
        self.interp, self.aliases, self.names = interp, aliases, names

    @staticmethod
    def direct(av: A.AV) -> set:
        return {a for a in av.prov if a and a[0] == "g"}

    @staticmethod
    def looked_up(av: A.AV) -> set:
        return {a[1] for a in av.prov if a and a[0] == "v"}

    def name_keyed(self, n) -> bool:
        if isinstance(n, A.View):
            return n.kind == "keys" and self.name_keyed(n.d)
        if isinstance(n, A.Dict):
            k = bases(n.k.prov)
            return bool(k & self.names) and not k & self.aliases
        if isinstance(n, A.Seq):
            k = bases(n.elem.prov)
            return bool(k & self.names) and not k & self.aliases and not n.elem.refs
        return False

    def value(self, av: A.AV) -> str | None:
        d, l = self.direct(av), self.looked_up(av)
        if av.refs:
            return None
        if d and d <= self.aliases and not l and av.look is None and not av.src:
            return "current"
        if l and l <= self.aliases and not d:
            return "stored"
        return None

    def of(self, e: ast.AST):
        recs = self.interp.tests.get(id(e))
        if not recs:
            return None
        out = set()
        for what, av, cont in recs:
            f = None
            if what in ("is-none", "is-not-none", "truthy"):
                v = self.value(av)
                if v == "current":
                    f = G.atom(A_CUR)  # "is not None" / truthy
                elif v == "stored":
                    f = G.f_and([G.atom(P_SEEN), G.f_not(G.atom(Q_NONE))]) if av.look is not None else G.f_not(G.atom(Q_NONE))
                if f is not None and what == "is-none":
                    f = G.f_not(f)
            elif what in ("in", "not-in") and cont is not None:
                k = bases(av.prov)
                if k & self.names and not k & self.aliases and not av.refs and cont.refs and not cont.top and all(self.name_keyed(n) for n in cont.refs):
                    f = G.atom(P_SEEN) if what == "in" else G.f_not(G.atom(P_SEEN))
            out.add(repr(f))
            last = f
        return last if len(out) == 1 else None

    def subst(self, fi):
        single: dict = {}
        counts: dict = {}
        if fi is not None and not isinstance(fi.node, ast.Lambda):
            for n in A._own(fi.node):
                if isinstance(n, ast.Name) and isinstance(n.ctx, ast.Store):
                    counts[n.id] = counts.get(n.id, 0) + 1
                if isinstance(n, ast.Assign) and len(n.targets) == 1 and isinstance(n.targets[0], ast.Name):
                    single[n.targets[0].id] = n.value

        def sub(e: ast.expr):
            f = self.of(e)
            if f is not None:
                return f
            if isinstance(e, ast.Name) and counts.get(e.id) == 1 and e.id in single and isinstance(single[e.id], (ast.Compare, ast.BoolOp, ast.UnaryOp)):
                return G.to_formula(single[e.id], sub)
            return None

        return sub

    def guard(self, stack: tuple):
        parts = []
        for fi, node in stack:
            if fi is None:
                continue
            parts.append(G.conds_formula(conds(fi, node), self.subst(fi)))
        return G.f_and(parts)


def check_collection(repo: Repo, res: Result, interp: A.Interp, aliases: set, names: set, parse_key: str, parse_where: str, implicit: str | None) -> None:
    """The alias of `[n] as a` must survive an alias-free mention of n (before or after it) in whatever collects the declarations.

    Looks at the loops / comprehensions over the matches of the declaration pattern: every place where text captured by the alias
    group enters a heap container while such a loop runs is a *sink*, with the condition it runs under (path conditions of the
    statement and of the calls leading to it, read with the meaning the abstract run gave to the tests).  Scenario 1 (mention first):
    the alias is lost when no sink can run while the name is already collected (first mention wins).  Scenario 2 (declaration first):
    the alias is lost when every sink is an entry of a name-keyed dict that a later alias-free mention overwrites (last mention wins)."""
    if not aliases:
        return
    M = Meaning(interp, aliases, names)
    how = f"an arrow line such as `{implicit}` also matches the declaration pattern and mentions its last component without alias" if implicit else "a component may be mentioned twice, once with and once without alias"
    loops: dict = {}
    for g in interp.growths.values():
        if g.atoms & aliases:
            loops.setdefault(id(g.loop), []).append(g)
    s1 = G.f_and([G.atom(A_CUR), G.atom(P_SEEN), G.atom(Q_NONE)])
    s2 = G.f_and([G.f_not(G.atom(A_CUR)), G.atom(P_SEEN), G.f_not(G.atom(Q_NONE))])
    known = {A_CUR, P_SEEN, Q_NONE}
    reported = False

    def events_at(g: A.Growth) -> list:
        node = g.stack[-1][1]
        stmt = node if isinstance(node, ast.stmt) else enclosing_stmt(node)
        return [e for e in interp.events.values() if g.target in e.dicts and (enclosing_stmt(e.node) is stmt or e.node is stmt)]

    for sinks in loops.values():
        blocked, erased, free = [], [], []
        for g in sinks:
            fi, node = g.stack[-1]
            evs = events_at(g)
            try:
                guard = M.guard(g.stack)
                first_wins = isinstance(g.target, A.Dict) and M.name_keyed(g.target) and bool(evs) and all(e.kind == "setdefault" and bases(e.key.prov) & names for e in evs)
                if first_wins:
                    blocked.append((g, "`setdefault` keeps the entry of the first mention"))
                    continue
                if isinstance(g.target, A.Dict) and M.name_keyed(g.target) and evs and all(e.kind == "assign" and get_with_default(e) for e in evs):
                    blocked.append((g, "`get(name, alias)` returns what the first mention recorded, also when that is None"))
                    continue
                if not G.satisfiable(guard, s1):
                    blocked.append((g, f"it only runs when {G.show(guard)}"))
                    continue
                over = [e for e in evs if e.kind in ("assign", "comp", "ctor") and not e.reads_same and isinstance(g.target, A.Dict) and M.name_keyed(g.target) and bases(e.key.prov) & names]
                if over and len(over) == len(evs) and all(may_be_none(interp, e.val, aliases) for e in over) and G.atoms_of(guard) <= known and G.implies(s2, guard):
                    erased.append((g, "the store also runs for a later mention without alias and replaces the entry"))
                    continue
            except AnalysisError:
                pass
            free.append(g)
        if free or not (blocked or erased):
            continue
        g, why = (blocked or erased)[0]
        fi, node = g.stack[-1]
        construct = repo.key(fi, node if isinstance(node, ast.stmt) else enclosing_stmt(node)) + "::alias of a declaration survives an alias-free mention"
        where_ = f"{fi.relpath}:{getattr(node, 'lineno', 0)}"
        if blocked and not erased:
            order = "a mention without alias *before* the declaration `[n] as a` wins"
        elif erased and not blocked:
            order = "a mention without alias *after* the declaration `[n] as a` wins"
        else:
            order = "whichever of the declaration `[n] as a` and a mention without alias comes first / last wins"
        res.add(
            "C06.R5",
            construct,
            False,
            f"`{norm(node, 70)}` is the only place where the alias of a declaration is recorded while the matches of the declaration pattern are read, and {why}: {order} "
            f"({how}), the alias is never registered and becomes a component of its own - the result depends on line order",
            where_,
            kind="flow",
        )
        reported = True
    if loops and not reported:
        res.add("C06.R5", parse_key + "::alias of a declaration survives an alias-free mention", True, f"{sum(len(v) for v in loops.values())} place(s) record the alias of a declaration while the matches are read; at least one of them runs whether or not the name was mentioned before and is not overwritten by a later mention without alias", parse_where, kind="flow")


def get_with_default(e: A.Event) -> bool:
    """`d[k] = d.get(k, v)`: the entry of a key that is present is written back unchanged."""
    s = e.node
    if not isinstance(s, (ast.Assign, ast.AnnAssign)) or s.value is None:
        return False
    t = s.targets[0] if isinstance(s, ast.Assign) and len(s.targets) == 1 else getattr(s, "target", None)
    v = s.value
    return (
        isinstance(t, ast.Subscript)
        and isinstance(v, ast.Call)
        and isinstance(v.func, ast.Attribute)
        and v.func.attr == "get"
        and len(v.args) == 2
        and norm(v.func.value) == norm(t.value)
        and norm(v.args[0]) == norm(t.slice)
    )


def may_be_none(interp: A.Interp, av: A.AV, aliases: set) -> bool:
    """Can the alias carried by the stored value be None (the store is not restricted to mentions with an alias)?"""
    if av.maybe_none() and bases(av.prov) & aliases:
        return True
    for n in av.refs:
        if isinstance(n, A.Rec):
            if any(bases(v.prov) & aliases and v.maybe_none() for v in n.fields.values()):
                return True
        elif isinstance(n, A.Seq) and n.items is not None:
            if any(bases(v.prov) & aliases and v.maybe_none() for v in n.items):
                return True
    return False


def record_equality(repo: Repo, ci: ClassInfo, alias_fields: list[str], how: str) -> tuple[bool | None, str]:
    """Do two records that differ only in the alias compare unequal?"""
    for c in repo.mro(ci):
        eq = c.methods.get("__eq__")
        if eq is not None:
            read = {x.attr for x in ast.walk(eq.node) if isinstance(x, ast.Attribute)} | {x.value for x in ast.walk(eq.node) if isinstance(x, ast.Constant) and isinstance(x.value, str)}
            if any(f in read for f in alias_fields):
                return True, f"{c.name}.__eq__ reads {', '.join(alias_fields)}"
            if any(isinstance(x, ast.Call) and isinstance(x.func, ast.Name) and x.func.id in ("astuple", "asdict", "vars") for x in ast.walk(eq.node)) or any(isinstance(x, ast.Attribute) and x.attr == "__dict__" for x in ast.walk(eq.node)):
                return True, f"{c.name}.__eq__ compares all fields"
            return False, f"{c.name}.__eq__ ignores {', '.join(alias_fields)}: in a set the declaration `[n] as a` and an alias-free declaration of n ({how}) are one element, whichever comes first in the file survives - the alias is lost depending on line order"
    for c in repo.mro(ci):
        for d in c.node.decorator_list:
            if isinstance(d, ast.Call) and any(k.arg == "eq" and isinstance(k.value, ast.Constant) and k.value.value is False for k in d.keywords):
                return True, "eq=False: records are compared by identity and never merged"
    is_dc = any(c.is_dataclass for c in repo.mro(ci))
    is_nt = any(b.endswith("NamedTuple") for b in repo.external_bases(ci))
    if not is_dc and not is_nt:
        return True, "records are compared by identity and never merged"
    for c in repo.mro(ci):
        for f in alias_fields:
            dflt = c.class_attrs.get(f)
            if isinstance(dflt, ast.Call) and norm(dflt.func).split(".")[-1] == "field":
                for k in dflt.keywords:
                    if k.arg == "compare":
                        if isinstance(k.value, ast.Constant) and k.value.value is False:
                            return False, f"field `{f}` of {c.name} is excluded from equality and hash (compare=False): in a set the declaration `[n] as a` and an alias-free declaration of n ({how}) are one element, whichever comes first in the file survives - the alias is lost depending on line order"
                        if not (isinstance(k.value, ast.Constant) and k.value.value is True):
                            return None, f"compare= of field `{f}` is not a literal"
    return True, f"generated equality of {ci.name} covers {', '.join(alias_fields)}: `[n] as a` and an alias-free declaration of n stay two elements"


# -------------------------------------------------------------------------------------------------------------------- R4
def check_tags(repo: Repo, res: Result, parser: ClassInfo, error_cls: ClassInfo, line_patterns: set[str], parse_key: str, parse_where: str) -> None:
    def family(name: str) -> bool:
        ci = repo.classes.get(name)
        return ci is not None and any(c.fq == error_cls.fq for c in repo.mro(ci))

    def raise_site(interp: A.Interp) -> tuple[str, str]:
        for r in interp.raised:
            if r.how == "stmt" and len(r.where) == 2 and r.where[0] is not None:
                fi, node = r.where
                return f"{fi.relpath}::{fi.qualname}", f"{fi.relpath}:{node.lineno}"
        return parse_key, parse_where

    def slicing_site(interp: A.Interp) -> tuple[str, str]:
        """The statement that cuts the text between the tags out of the file content (for diagnostics)."""
        def mentions_tag(fi, node) -> bool:
            if isinstance(node, ast.Constant) and isinstance(node.value, str) and ("@startuml" in node.value or "@enduml" in node.value):
                return True
            if isinstance(node, (ast.Name, ast.Attribute)):
                fq = repo.resolve_name(fi.module, node)
                if fq:
                    m2, _, attr = fq.rpartition(".")
                    om = repo.modules.get(m2)
                    c = om.constants.get(attr) if om is not None else None
                    return isinstance(c, ast.Constant) and isinstance(c.value, str) and ("@startuml" in c.value or "@enduml" in c.value)
            return False

        for fi in repo.all_functions():
            if fi.fq not in interp.called or isinstance(fi.node, ast.Lambda):
                continue
            docs = {id(n.value) for n in A._own(fi.node) if isinstance(n, ast.Expr) and isinstance(n.value, ast.Constant)}
            nodes = [n for n in A._own(fi.node) if id(n) not in docs]
            if not any(mentions_tag(fi, n) for n in nodes):
                continue
            cut = [n for n in nodes if isinstance(n, ast.stmt) and any((isinstance(x, ast.Subscript) and isinstance(x.slice, ast.Slice)) or (isinstance(x, ast.Call) and isinstance(x.func, ast.Attribute) and x.func.attr in ("group", "groups", "partition", "rpartition", "split", "rsplit")) for x in ast.walk(n)) and not isinstance(n, (ast.If, ast.For, ast.While, ast.Try, ast.With, ast.FunctionDef))]
            st = cut[-1] if cut else fi.node
            return repo.key(fi, st), f"{fi.relpath}:{st.lineno}"
        return parse_key, parse_where

    # accepted content: exactly the text between the tags is scanned
    for what, content, *rest in ACCEPTED_MORE:
        body = rest[0] if rest else BODY
        interp, _v, completed = interpret(repo, parser, A.const(content))
        construct = f"{parse_key}::content between the tags [{what}]"
        subjects = [s for s in interp.sites.values() if s.pattern.text in line_patterns]
        scan_start = min((s.when for s in subjects if getattr(s, "round", None) == interp.round), default=None)
        hard = [r for r in interp.raised if r.how in ("stmt", "op") and (scan_start is None or r.when < scan_start or not completed)]
        if not completed:
            names = sorted({r.name.rsplit('.', 1)[-1] for r in hard})
            res.add("C06.R4", construct, False, f"a file with {what} is rejected ({', '.join(names) or 'no path returns'}): the diagram between the tags is not parsed", raise_site(interp)[1], kind="regex-language")
        elif hard or not subjects or not all(s.subject.concrete for s in subjects):
            res.undecide("C06.R4", construct, f"the text scanned for declarations / arrows is not determined by folding the tag slicing (unmodelled: {interp.unknown[:3]}; may raise: {sorted({r.name for r in hard})})", parse_where)
        else:
            seen = sorted({v for s in subjects for v in s.subject.values() if v is not None}, key=repr)
            want_lines = {l.strip() for l in body.splitlines() if l.strip()}
            got_lines = {l.strip() for v in seen if isinstance(v, str) for l in v.splitlines() if l.strip()}
            ok = all(isinstance(v, str) for v in seen) and got_lines == want_lines
            skey, swhere = slicing_site(interp)
            res.add("C06.R4", construct if ok else skey + f" [{what}]", ok, "the text between the start tag and the last end tag is scanned" if ok else f"for a file with {what} the text scanned for declarations / arrows is {seen!r}, not the diagram between the tags ({body!r}): the start tag is not searched before the end tag" + (" - an empty diagram is returned silently" if not got_lines and want_lines else ""), parse_where if ok else swhere, kind="regex-language")
    interp, _v, completed = interpret(repo, parser, A.const(TAGGED))
    construct = f"{parse_key}::content between the tags"
    subjects = [s for s in interp.sites.values() if s.pattern.text in line_patterns]
    # raises after the first scan for declarations / arrows belong to the extraction (its matches are abstract), not to the tag slicing
    scan_start = min((s.when for s in subjects if getattr(s, "round", None) == interp.round), default=None)
    hard = [r for r in interp.raised if r.how in ("stmt", "op") and (scan_start is None or r.when < scan_start or not completed)]
    if not completed:
        names = sorted({r.name.rsplit('.', 1)[-1] for r in hard})
        res.add("C06.R4", construct, False, f"a file with @startuml ... @enduml and text around the tags is rejected ({', '.join(names) or 'no path returns'})", raise_site(interp)[1], kind="regex-language")
    elif hard or not subjects or not all(s.subject.concrete for s in subjects):
        res.undecide("C06.R4", construct, f"the text scanned for declarations / arrows is not determined by folding the tag slicing (unmodelled: {interp.unknown[:3]}; may raise: {sorted({r.name for r in hard})})", parse_where)
    else:
        seen = sorted({v for s in subjects for v in s.subject.values() if v is not None}, key=repr)
        # the pipeline may scan the text as a whole or line by line: compare the sets of non-blank lines
        want_lines = {l.strip() for l in BODY.splitlines() if l.strip()}
        got_lines = {l.strip() for v in seen if isinstance(v, str) for l in v.splitlines() if l.strip()}
        ok = all(isinstance(v, str) for v in seen) and got_lines == want_lines
        res.add("C06.R4", construct, ok, "text outside @startuml/@enduml is ignored, text between is kept" if ok else f"the text scanned for declarations / arrows is {seen!r}, not the text between @startuml and @enduml ({BODY!r})", parse_where, kind="regex-language")
    # a pattern applied once (search / match) to a text of several lines reads only one of them
    if completed:
        for st in subjects:
            # (the first step of a hand-written scan - `p.search(text)` followed by `p.search(text, previous.end())` in a loop - is no single use)
            rescanned = any(o is not st and o.pattern.text == st.pattern.text and (o.how in ("finditer", "findall") or len(o.calls) > 1) for o in interp.sites.values())
            if st.how in ("search", "match", "fullmatch") and len(st.calls) == 1 and not rescanned and st.subject.concrete and any(isinstance(v, str) and len([l for l in v.splitlines() if l.strip()]) > 1 for v in st.subject.values()):
                key_ = repo.key(st.fi, st.node) if st.fi is not None else parse_key
                res.add("C06.R1", key_ + " [applied once to the whole diagram]", False, f"`{norm(st.node, 60)}` applies the pattern once to the text between the tags ({len(BODY.strip().splitlines())} lines in the sample): only the first declaration / arrow of a diagram is read", f"{st.fi.relpath}:{st.node.lineno}" if st.fi is not None else parse_where, kind="regex-language")
    # rejected contents
    for what, content in REJECTED:
        interp, _v, completed = interpret(repo, parser, A.const(content))
        scans = [s.when for s in interp.sites.values() if s.pattern.text in line_patterns and getattr(s, "round", None) == interp.round]
        hard = [r for r in interp.raised if r.how in ("stmt", "op") and (not scans or not completed or r.when < min(scans))]
        key, where_ = raise_site(interp)
        construct = f"{parse_key}::{what} is rejected"
        soft = [r for r in interp.raised if r.name not in ("builtins.KeyError", "builtins.AttributeError", "builtins.StopIteration")]
        if completed and not hard and (interp.unknown or soft):
            res.undecide("C06.R4", construct, f"folding the tag slicing on a file with {what} finds no raise, but not everything is modelled (unmodelled: {interp.unknown[:3]}; may raise: {sorted({r.name for r in soft})[:3]})", where_)
        elif completed and not hard:
            skey, swhere = slicing_site(interp)
            scanned = sorted({v for s_ in interp.sites.values() if s_.pattern.text in line_patterns and s_.subject.concrete for v in s_.subject.values() if isinstance(v, str)})
            res.add("C06.R4", f"{skey} [{what}]", False, f"a file with {what} is accepted: no path raises PumlParsingError" + (f"; the text {scanned!r} is parsed as the diagram" if scanned else "") + " (the no-match branch does not raise / the order of the tags is not checked)", swhere, kind="dominance")
        elif completed:
            res.undecide("C06.R4", construct, f"folding the tag slicing on a file with {what} does not decide whether parse() raises (unmodelled: {interp.unknown[:3]})", where_)
        else:
            wrong = sorted({r.name for r in hard if not family(r.name)})
            ok = bool(hard) and not wrong
            res.add("C06.R4", construct, ok, f"parse() raises {error_cls.name}" if ok else f"a file with {what} is rejected with {', '.join(w.rsplit('.', 1)[-1] for w in wrong) or 'an unknown error'} instead of {error_cls.name}", where_, kind="dominance")
