"""Abstract interpreter for the (small, non-recursive) PlantUML parsing pipeline: shapes + provenance + constant propagation.

Nothing of pytestarch is imported or run.  The functions reachable from an entry point are interpreted over an abstract domain:

  * scalars   - a set of known constants (constant propagation: pattern texts, flags, group names are *folded*), or "some string"
                carrying *provenance atoms* (`("g", pattern, group)` = "text captured by this group of this pattern");
  * containers- one summary node per allocation site and calling context (set/list/tuple `elem`, dict `key`/`val`, record
                fields); containers are shared by reference (aliases see each other's growth), their content only grows;
  * calls     - repo functions are analysed per call site (full inlining, the pipeline is not recursive); library calls have
                transfer functions; an unmodelled call yields a value tagged `("?", name)` so that a rule which misses a flow
                through it reports *undecided* instead of a violation.

Local variables are flow-sensitive (strong updates, branches joined, `is None` / truthiness / isinstance narrowing, loops iterated
to a fixpoint, loops over sequences of known length unrolled); the heap is flow-insensitive and the whole run is repeated until it
is stable.  When every operand of a pure string/int operation is a known constant the operation is folded (this is how pattern
texts are reconstructed and how the tag slicing is decided on a table of file contents); `finditer`/`findall` are never folded -
their matches stay abstract.  Exceptions: explicit `raise`, folded operations that fail ("op") and abstract operations that may
fail ("may") are collected and routed to enclosing `try` statements; a path that always raises is dead.

Values read out of a mapping with computed keys carry `("v", atom)` marks (they went through a lookup such as the alias map), values
built from `d[k]` / `d.get(k)` remember that (`src`, for merging stores), loop variables over sets / dict keys carry a `uniq` token.

Besides values the interpreter records *events*: pattern uses (`sites`), dict stores with the facts known at the store
(`events`, for the accumulate-never-overwrite rule), explicit raises.
"""

from __future__ import annotations

import ast
import builtins
import itertools
import re
from dataclasses import dataclass, field, replace

from core.loader import AnalysisError, ClassInfo, FuncInfo, ModuleInfo, Repo, norm

MAXC = 12  # at most this many distinct constants per value
MAXDEPTH = 14


# --------------------------------------------------------------------------------------------------------------- values
class CList(tuple):
    """A local list with known content (only tracked while folding on a known file content)."""


class Const:
    __slots__ = ("v",)

    def __init__(self, v) -> None:
        self.v = v

    def __eq__(self, o) -> bool:
        return isinstance(o, Const) and type(o.v) is type(self.v) and o.v == self.v

    def __hash__(self) -> int:
        try:
            return hash((type(self.v).__name__, self.v))
        except TypeError:
            return hash(type(self.v).__name__)

    def __repr__(self) -> str:
        return f"C({self.v!r})"


@dataclass(frozen=True)
class AV:
    consts: frozenset = frozenset()
    top: bool = False  # some unknown scalar (str / int / bool)
    prov: frozenset = frozenset()  # provenance atoms of the (string) content
    refs: frozenset = frozenset()  # heap nodes
    uniq: object = None  # token of the iteration that yields this value as a distinct key
    look: object = None  # (dict nodes, key text): result of `d.get(k)` - None iff the key is absent
    src: frozenset = frozenset()  # (dict node, key text): the value is (built from) what the dict holds under that key

    @property
    def bottom(self) -> bool:
        return not (self.consts or self.top or self.refs)

    @property
    def concrete(self) -> bool:
        return bool(self.consts) and not self.top and not self.refs

    def single(self):
        """The only possible constant (wrapped), else None."""
        if self.concrete and len(self.consts) == 1:
            return next(iter(self.consts))
        return None

    def values(self) -> list:
        return [c.v for c in self.consts]

    def maybe_none(self) -> bool:
        return Const(None) in self.consts

    def plain(self) -> "AV":
        return replace(self, uniq=None, look=None, src=frozenset()) if (self.uniq is not None or self.look is not None or self.src) else self


BOT = AV()
NONE = AV(consts=frozenset({Const(None)}))
TOPV = AV(top=True)
BOOL = AV(consts=frozenset({Const(True), Const(False)}))


def const(v) -> AV:
    return AV(consts=frozenset({Const(v)}))


def consts(vs) -> AV:
    s = frozenset(Const(v) for v in vs)
    if len(s) > MAXC:
        return TOPV
    return AV(consts=s)


def ref(node) -> AV:
    return AV(refs=frozenset({node}))


def top(prov=frozenset()) -> AV:
    return AV(top=True, prov=frozenset(prov))


def via(av: AV) -> AV:
    """The value was read out of a mapping with computed keys: its provenance atoms are marked `("v", atom)`."""
    if not av.prov:
        return av
    return replace(av, prov=frozenset(a if a and a[0] in ("v", "?") else ("v", a) for a in av.prov))


def base_atom(a):
    return a[1] if a and a[0] == "v" else a


def join(*avs: AV) -> AV:
    avs = [a for a in avs if a is not None and not (a.bottom and not a.prov and not a.src)]
    if not avs:
        return BOT
    if len(avs) == 1:
        return avs[0]
    cs = frozenset().union(*[a.consts for a in avs])
    tp = any(a.top for a in avs)
    if len(cs) > MAXC:
        cs, tp = frozenset(c for c in cs if c.v is None), True
    u = avs[0].uniq if all(a.uniq == avs[0].uniq for a in avs) else None
    lk = avs[0].look if all(a.look == avs[0].look for a in avs) else None
    return AV(cs, tp, frozenset().union(*[a.prov for a in avs]), frozenset().union(*[a.refs for a in avs]), u, lk, frozenset().union(*[a.src for a in avs]))


# ---------------------------------------------------------------------------------------------------------------- nodes
class Node:
    kind = "node"

    def __init__(self, key) -> None:
        self.key = key

    def __repr__(self) -> str:
        return f"<{self.kind}#{abs(hash(self.key)) % 10000}>"


class Seq(Node):
    """list / set / frozenset / tuple / iterator: one summary element; `items` when the length is fixed (tuple display)."""

    def __init__(self, key, kind: str, items: "list[AV] | None" = None) -> None:
        super().__init__(key)
        self.kind = kind
        self._elem = BOT
        self.items = items
        self.alloc: ast.AST | None = None
        self.distinct = False  # built only from the elements of sets / dict keys: no element occurs twice
        self.sorted = False  # result of sorted(...)

    @property
    def elem(self) -> AV:
        return join(self._elem, *(self.items or []))


class Dict(Node):
    kind = "dict"

    def __init__(self, key) -> None:
        super().__init__(key)
        self.k = BOT
        self.v = BOT
        self.factory: AV | None = None  # defaultdict
        self.cls: ClassInfo | None = None  # repo class deriving from dict
        self.alloc: ast.AST | None = None
        self.fields: dict[str, AV] | None = None  # per constant key (groupdict-like / literal keys)


class View(Node):
    def __init__(self, key, d: Dict, which: str) -> None:
        super().__init__(key)
        self.d = d
        self.kind = which  # keys | values | items


class Rec(Node):
    kind = "rec"

    def __init__(self, key, cls: ClassInfo) -> None:
        super().__init__(key)
        self.cls = cls
        self.fields: dict[str, AV] = {}
        self.args: list[AV] = []


class Pattern(Node):
    kind = "pattern"

    def __init__(self, key, text: str, flags: int) -> None:
        super().__init__(key)
        self.text = text
        self.flags = flags


class Match(Node):
    kind = "match"

    def __init__(self, key, pattern: Pattern) -> None:
        super().__init__(key)
        self.pattern = pattern


class File(Node):
    kind = "file"


class Func(Node):
    kind = "func"

    def __init__(self, key, fi: FuncInfo, self_av: AV | None = None, closure: dict | None = None) -> None:
        super().__init__(key)
        self.fi = fi
        self.self_av = self_av
        self.closure = closure


class Cls(Node):
    kind = "class"

    def __init__(self, key, ci: ClassInfo) -> None:
        super().__init__(key)
        self.ci = ci


class Lib(Node):
    kind = "lib"

    def __init__(self, key, name: str, recv: AV | None = None) -> None:
        super().__init__(key)
        self.name = name  # dotted: "re", "re.compile", "builtins.len", "collections.defaultdict"
        self.recv = recv


class Partial(Node):
    kind = "partial"

    def __init__(self, key, f: AV, args: list, kwargs: dict) -> None:
        super().__init__(key)
        self.f = f
        self.args = args
        self.kwargs = kwargs


class Super(Node):
    kind = "super"

    def __init__(self, key, after: ClassInfo, self_av: AV) -> None:
        super().__init__(key)
        self.after = after
        self.self_av = self_av


class OpCall(Node):
    """operator.methodcaller / itemgetter / attrgetter object."""

    kind = "opcall"

    def __init__(self, key, what: str, args: list, kwargs: dict) -> None:
        super().__init__(key)
        self.what = what
        self.args = args
        self.kwargs = kwargs


class Opaque(Node):
    kind = "opaque"

    def __init__(self, key, what: str) -> None:
        super().__init__(key)
        self.what = what


class _Dead(Exception):
    """The current path ends here (definite raise inside an expression)."""


@dataclass
class Raised:
    name: str  # fq of a repo class or "builtins.X"
    how: str  # stmt | op | may
    where: tuple = ()
    when: int = 0  # position in the order of events of the current round (raises and pattern uses)


@dataclass
class Event:
    kind: str  # assign | setdefault | item-mutate | comp | update | ctor
    dicts: frozenset
    key: AV
    key_text: str
    val: AV
    fi: FuncInfo
    node: ast.AST
    facts: frozenset
    in_loop: bool
    reads_same: bool = False
    fresh_empty: bool = False
    detail: str = ""


@dataclass
class Site:
    pattern: Pattern
    subject: AV
    how: str  # finditer | findall | search | match | fullmatch | split | sub
    fi: FuncInfo
    node: ast.AST
    calls: set = field(default_factory=set)  # distinct (subject, start position) combinations seen while folding
    when: int = 0  # first use in the current round


@dataclass
class Growth:
    """Something that carries text captured by a group was put into a heap container while a loop over matches was running."""

    target: "Node"
    stack: tuple  # ((FuncInfo, statement or comprehension element), ...) outermost first
    atoms: frozenset  # group atoms (not read out of a mapping) of what was stored, keys and values
    loop: ast.AST
    key: AV = None  # type: ignore[assignment]


@dataclass
class Frame:
    fi: FuncInfo | None
    mod: ModuleInfo
    ctx: tuple
    returns: AV = BOT
    completed: bool = False
    gen: Seq | None = None
    facts: list = field(default_factory=list)
    loops: list = field(default_factory=list)
    cls: ClassInfo | None = None
    depth: int = 0
    globals: set = field(default_factory=set)


class _Loop:
    def __init__(self) -> None:
        self.continues: list[dict] = []
        self.breaks: list[dict] = []


def join_env(*envs: "dict | None") -> "dict | None":
    live = [e for e in envs if e is not None]
    if not live:
        return None
    if len(live) == 1:
        return dict(live[0])
    out: dict[str, AV] = {}
    for k in set().union(*[set(e) for e in live]):
        if "." in k and not all(k in e for e in live):
            continue  # local view of an attribute (`self.x`) known on some paths only: fall back to the heap
        out[k] = join(*[e[k] for e in live if k in e])
    return out


STR_METHODS_STR = {"strip", "lstrip", "rstrip", "lower", "upper", "replace", "removeprefix", "removesuffix", "format", "join", "title", "capitalize", "casefold", "expandtabs", "center", "ljust", "rjust", "zfill", "swapcase", "translate", "format_map", "encode", "decode"}
STR_METHODS_BOOL = {"startswith", "endswith", "isspace", "isalpha", "isdigit", "isalnum", "isidentifier", "islower", "isupper", "isnumeric", "isdecimal", "isascii", "istitle", "isprintable"}
STR_METHODS_INT = {"find", "rfind", "count"}
STR_METHODS_INT_RAISE = {"index", "rindex"}
STR_METHODS_SEQ = {"split", "rsplit", "splitlines"}
STR_METHODS_TUPLE = {"partition", "rpartition"}
OP_ERRORS = (ValueError, IndexError, KeyError, TypeError, AttributeError, ZeroDivisionError, re.error, OverflowError)


class Interp:
    def __init__(self, repo: Repo, content: AV | None = None) -> None:
        self.repo = repo
        self.content = content if content is not None else top({("content",)})
        self.nodes: dict = {}
        self.version = 0
        self.sites: dict = {}
        self.events: dict = {}
        self.raised: list[Raised] = []  # uncaught at the entry point
        self._collectors: list[list[Raised]] = []
        self._consts_memo: dict = {}
        self._stack: list[str] = []
        self.unknown: list[str] = []
        self.patterns: dict = {}
        self.recording = True
        self.called: set[str] = set()
        self.lost_patterns: list[str] = []
        self.cls_fields: dict = {}
        self._aux: dict = {}
        self.round = 0
        self.clock = 0
        self.strenum: dict = {}
        self.rec_funcs: set = set()
        self.rec_params: dict = {}
        self.rec_returns: dict = {}
        self.steps = 0
        self.fold_lists = self.content.concrete
        self.globals_store: dict = {}
        # ---- bookkeeping for C06.R5 (who collects the declarations, and under which conditions)
        self.tests: dict = {}  # id(test expression) -> [(what, tested value, containers)]: None-tests, truthiness, membership tests
        self.growths: dict = {}  # (id(statement / comprehension element), id(target node)) -> Growth
        self.match_loops: list = []  # loops / comprehensions over the matches of a pattern that are being executed
        self._cur: list = []  # (function, statement) pairs being executed, outermost first

    # ------------------------------------------------------------------ heap
    def node(self, key, make):
        n = self.nodes.get(key)
        if n is None:
            n = make()
            self.nodes[key] = n
            self.version += 1
        return n

    def memo(self, key, make):
        """Identity-stable helper objects (bound methods, closures, partials): the same key gives the same node in every round."""
        n = self._aux.get(key)
        if n is None:
            n = self._aux[key] = make()
        return n

    def seq(self, fr: Frame, e: ast.AST, kind: str, tag: str = "") -> Seq:
        n = self.node((fr.ctx, id(e), tag, "seq"), lambda: Seq((fr.ctx, id(e), tag), kind))
        if n.alloc is None:
            n.alloc = e
        return n

    def dict_(self, fr: Frame, e: ast.AST, tag: str = "") -> Dict:
        n = self.node((fr.ctx, id(e), tag, "dict"), lambda: Dict((fr.ctx, id(e), tag)))
        if n.alloc is None:
            n.alloc = e
        return n

    def lib(self, name: str, recv: AV | None = None) -> AV:
        if recv is None:
            return ref(self.node(("lib", name), lambda: Lib(("lib", name), name)))
        return ref(self.memo(("lib", name, recv), lambda: Lib(("lib", name, recv), name, recv)))

    def note_test(self, e: ast.AST, what: str, av: AV, container: AV | None = None) -> None:
        if self.recording:
            self.tests.setdefault(id(e), []).append((what, av, container))

    def note_growth(self, target: "Node", *avs: "AV | None") -> None:
        if not self.match_loops or not self.recording or not self._cur:
            return
        atoms = frozenset(a for av in avs if av is not None for a in self.flat_prov(av) if a and a[0] == "g")
        if not atoms:
            return
        k = (id(self._cur[-1][1]), id(target))
        g = self.growths.get(k)
        if g is None:
            self.growths[k] = Growth(target, tuple(self._cur), atoms, self.match_loops[-1], avs[0] if isinstance(target, Dict) and avs[0] is not None else BOT)
        else:
            g.atoms |= atoms

    def is_match_iter(self, av: AV) -> bool:
        return any(isinstance(n, Seq) and len(n.key) > 2 and isinstance(n.key[2], tuple) and n.key[2] and n.key[2][0] in ("finditer", "findall") for n in av.refs)

    def grow_elem(self, s: Seq, av: AV) -> None:
        self.note_growth(s, av)
        av = av.plain()
        new = join(s._elem, av)
        if new != s._elem:
            s._elem = new
            self.version += 1

    def grow_dict(self, d: Dict, k: AV | None, v: AV | None) -> None:
        self.note_growth(d, k, v)
        if k is not None:
            new = join(d.k, k.plain())
            if new != d.k:
                d.k = new
                self.version += 1
            ck = k.single()
            if d.fields is not None and ck is not None and v is not None:
                old = d.fields.get(ck.v, BOT)
                nv = join(old, v.plain())
                if nv != old:
                    d.fields[ck.v] = nv
                    self.version += 1
            elif d.fields is not None and not (k.bottom and not k.prov) and (d.fields or not k.bottom):
                if d.fields:
                    self.version += 1
                d.fields = None
        if v is not None:
            new = join(d.v, v.plain())
            if new != d.v:
                d.v = new
                self.version += 1

    def copy_dict(self, dst: Dict, src: Dict) -> None:
        """dst.update(src), keeping per-key knowledge when the keys of src are known constants."""
        if src.fields is not None and src.fields:
            if dst.fields is None and dst.k.bottom:
                dst.fields = {}
                self.version += 1
            for k, v in list(src.fields.items()):
                self.grow_dict(dst, const(k), v)
        elif not (src.k.bottom and src.v.bottom):
            self.grow_dict(dst, src.k, src.v)

    def grow_field(self, r: Rec, name: str, av: AV) -> None:
        old = r.fields.get(name, BOT)
        new = join(old, av.plain())
        if new != old:
            r.fields[name] = new
            self.version += 1

    def flat_prov(self, av: AV, seen: set | None = None) -> frozenset:
        """Provenance of everything reachable from a value."""
        seen = seen if seen is not None else set()
        out = set(av.prov)
        for n in av.refs:
            if id(n) in seen:
                continue
            seen.add(id(n))
            if isinstance(n, Seq):
                out |= self.flat_prov(n.elem, seen)
            elif isinstance(n, Dict):
                out |= self.flat_prov(n.k, seen) | self.flat_prov(n.v, seen)
            elif isinstance(n, View):
                out |= self.flat_prov(ref(n.d), seen)
            elif isinstance(n, Rec):
                for v in n.fields.values():
                    out |= self.flat_prov(v, seen)
            elif isinstance(n, Match):
                out.add(("m", n.pattern.key))
        return frozenset(out)

    def unknown_value(self, what: str, *avs: AV) -> AV:
        if what not in self.unknown:
            self.unknown.append(what)
        p: set = {("?", what)}
        for a in avs:
            if a is not None:
                p |= self.flat_prov(a)
        return top(p)

    # ------------------------------------------------------------------ raising
    def raise_(self, name: str, how: str, where: tuple = ()) -> None:
        self.clock += 1
        r = Raised(name, how, where, self.clock)
        (self._collectors[-1] if self._collectors else self.raised).append(r)

    def op_failed(self, exc: BaseException) -> None:
        """A folded (all operands constant) operation raised: the path ends."""
        self.raise_("builtins." + type(exc).__name__, "op")
        raise _Dead()

    def exc_matches(self, raised: str, handler_names: list[str]) -> bool:
        for h in handler_names:
            if h in ("builtins.BaseException", "builtins.Exception") or h == raised:
                return True
            if raised.startswith("builtins.") and h.startswith("builtins."):
                a, b = getattr(builtins, raised[9:], None), getattr(builtins, h[9:], None)
                if isinstance(a, type) and isinstance(b, type) and issubclass(a, b):
                    return True
            if raised == "builtins.error" and h in ("re.error", "re.PatternError"):
                return True
            ci = self.repo.classes.get(raised)
            if ci is not None:
                if any(c.fq == h for c in self.repo.mro(ci)):
                    return True
                ext = self.repo.external_bases(ci)
                if h.startswith("builtins.") and (h[9:] in ext or h in ext):
                    return True
        return False

    # ------------------------------------------------------------------ names
    def module_value(self, mod: ModuleInfo, name: str, fr: Frame) -> AV | None:
        if name in mod.functions:
            fi = mod.functions[name]
            return ref(self.node(("func", fi.fq), lambda: Func(("func", fi.fq), fi)))
        if name in mod.classes:
            ci = mod.classes[name]
            return ref(self.node(("cls", ci.fq), lambda: Cls(("cls", ci.fq), ci)))
        if name in mod.constants and len(self._module_binding(mod, name) or []) <= 1:
            key = (mod.name, name)
            if key in self._consts_memo:
                return self._consts_memo[key]
            self._consts_memo[key] = BOT
            mfr = Frame(None, mod, ("module", mod.name, name), depth=fr.depth + 1)
            try:
                v = self.ev(mod.constants[name], {}, mfr)
            except _Dead:
                v = BOT
            self._consts_memo[key] = v
            return v
        other = self._module_binding(mod, name)
        if other is not None:
            key = (mod.name, name)
            if key in self._consts_memo:
                return self._consts_memo[key]
            self._consts_memo[key] = BOT
            mfr = Frame(None, mod, ("module", mod.name, name), depth=fr.depth + 1)
            env: dict[str, AV] = {}
            try:
                for st in other:
                    self._stmt(st, env, mfr)
            except _Dead:
                pass
            self._consts_memo[key] = env.get(name, BOT)
            return self._consts_memo[key]
        if name in mod.imports:
            fq = self.repo._canonical(mod.imports[name])
            m2, _, attr = fq.rpartition(".")
            if fq in self.repo.modules:
                return ref(self.node(("mod", fq), lambda: Opaque(("mod", fq), "module:" + fq)))
            om = self.repo.modules.get(m2)
            if om is not None:
                v = self.module_value(om, attr, fr)
                if v is not None:
                    return v
            return self.lib(fq)
        return None

    @staticmethod
    def _module_binding(mod: ModuleInfo, name: str) -> list[ast.stmt] | None:
        """Module-level statements (tuple assignments, augmented assignments, for loops are not followed) that bind `name`."""
        out = []

        def scan(body: list[ast.stmt]) -> None:
            for st in body:
                if isinstance(st, (ast.Assign, ast.AnnAssign, ast.AugAssign)):
                    tg = st.targets if isinstance(st, ast.Assign) else [st.target]
                    if any(isinstance(x, ast.Name) and x.id == name for t in tg for x in ast.walk(t)):
                        out.append(st)
                elif isinstance(st, (ast.If, ast.Try)):
                    if isinstance(st, ast.If) and "TYPE_CHECKING" in ast.unparse(st.test):
                        continue
                    scan(st.body)
                    scan(getattr(st, "orelse", []))

        scan(mod.tree.body)
        return out or None

    def lookup(self, name: str, env: dict, fr: Frame) -> AV:
        if name in env:
            return env[name]
        if fr.fi is None and fr.cls is not None:
            # expression in a class body: names of the class namespace come first
            cv = self._class_attr(fr.cls, name, fr, None)
            if cv is not None:
                return cv
        v = self.module_value(fr.mod, name, fr)
        g = self.globals_store.get((fr.mod.name, name))
        if g is not None:
            v = join(v, g) if v is not None else g
        if v is not None:
            return v
        if hasattr(builtins, name):
            if name in ("True", "False", "None"):
                return const({"True": True, "False": False, "None": None}[name])
            return self.lib("builtins." + name)
        return self.unknown_value(f"name {name}")

    # ------------------------------------------------------------------ statements
    def block(self, stmts: list[ast.stmt], env: dict, fr: Frame) -> dict | None:
        n = len(fr.facts)
        cur: dict | None = env
        for s in stmts:
            cur = self.stmt(s, cur, fr)
            if cur is None:
                break
        del fr.facts[n:]
        return cur

    def stmt(self, s: ast.stmt, env: dict, fr: Frame) -> dict | None:
        self.steps += 1
        if self.steps > 400000:
            raise AnalysisError("abstract interpretation of the parsing pipeline exceeds its step budget")
        self._cur.append((fr.fi, s))
        try:
            return self._stmt(s, env, fr)
        except _Dead:
            return None
        finally:
            self._cur.pop()

    def _stmt(self, s: ast.stmt, env: dict, fr: Frame) -> dict | None:
        if isinstance(s, ast.Expr):
            if isinstance(s.value, (ast.Yield, ast.YieldFrom)):
                self.ev(s.value, env, fr)
                return env
            self.ev(s.value, env, fr)
            return env
        if isinstance(s, (ast.Assign, ast.AnnAssign)) and self.fold_lists and s.value is not None and self.is_fresh_empty(s.value) and (isinstance(s.value, ast.List) or (isinstance(s.value, ast.Call) and s.value.func.id == "list")):
            tgt = s.targets[0] if isinstance(s, ast.Assign) and len(s.targets) == 1 else getattr(s, "target", None)
            if isinstance(tgt, ast.Name):
                env[tgt.id] = const(CList(()))
                return env
        if isinstance(s, ast.Assign):
            v = self.ev(s.value, env, fr)
            for t in s.targets:
                self.assign(t, v, env, fr, s, s.value)
            return env
        if isinstance(s, ast.AnnAssign):
            if s.value is not None:
                v = self.ev(s.value, env, fr)
                self.assign(s.target, v, env, fr, s, s.value)
            return env
        if isinstance(s, ast.AugAssign):
            self.augassign(s, env, fr)
            return env
        if isinstance(s, ast.Return):
            v = self.ev(s.value, env, fr) if s.value is not None else NONE
            fr.returns = join(fr.returns, v.plain())
            fr.completed = True
            return None
        if isinstance(s, ast.Raise):
            self.do_raise(s, env, fr)
            return None
        if isinstance(s, ast.If):
            return self.do_if(s, env, fr)
        if isinstance(s, (ast.For, ast.AsyncFor)):
            return self.do_for(s, env, fr)
        if isinstance(s, ast.While):
            return self.do_while(s, env, fr)
        if isinstance(s, ast.Try):
            return self.do_try(s, env, fr)
        if isinstance(s, (ast.With, ast.AsyncWith)):
            for it in s.items:
                v = self.ev(it.context_expr, env, fr)
                entered = [self.call_function(self.repo.lookup_method(n.cls, "__enter__"), [ref(n)], {}, fr, it.context_expr, bound=True) for n in v.refs if isinstance(n, Rec) and self.repo.lookup_method(n.cls, "__enter__") is not None]
                if entered:
                    v = join(*entered, AV(refs=frozenset(n for n in v.refs if not (isinstance(n, Rec) and self.repo.lookup_method(n.cls, "__enter__") is not None))))
                if it.optional_vars is not None:
                    self.assign(it.optional_vars, v, env, fr, s, None)
            return self.block(s.body, env, fr)
        if isinstance(s, ast.Match):
            return self.do_match(s, env, fr)
        if isinstance(s, ast.Continue):
            if fr.loops:
                fr.loops[-1].continues.append(dict(env))
            return None
        if isinstance(s, ast.Break):
            if fr.loops:
                fr.loops[-1].breaks.append(dict(env))
            return None
        if isinstance(s, ast.Global):
            fr.globals |= set(s.names)
            return env
        if isinstance(s, (ast.Pass, ast.Import, ast.ImportFrom, ast.Nonlocal)):
            return env
        if isinstance(s, ast.Assert):
            t, f, ft, _ff = self.test(s.test, env, fr)
            if not t:
                self.raise_("builtins.AssertionError", "stmt")
                return None
            if f:
                self.raise_("builtins.AssertionError", "may")
            fr.facts.extend(ft)
            return self.narrowed(env, ft)
        if isinstance(s, (ast.FunctionDef, ast.AsyncFunctionDef)):
            fi = getattr(s, "_func", None)
            if fi is not None:
                fn = self.memo(("def", fr.ctx, id(s)), lambda: Func(("def", fr.ctx, id(s)), fi, None, env))
                fn.closure = env
                env[s.name] = ref(fn)
            return env
        if isinstance(s, ast.Delete):
            return env
        if isinstance(s, ast.ClassDef):
            return env
        self.unknown_value(f"statement {type(s).__name__}")
        return env

    def do_raise(self, s: ast.Raise, env: dict, fr: Frame) -> None:
        if s.exc is None:
            self.raise_("<reraise>", "stmt")
            return
        e = s.exc.func if isinstance(s.exc, ast.Call) else s.exc
        name = None
        v = self.ev(s.exc, env, fr)
        for n in v.refs:
            if isinstance(n, Rec):
                name = n.cls.fq
            elif isinstance(n, Cls):
                name = n.ci.fq
            elif isinstance(n, Lib):
                name = n.name
            elif isinstance(n, Opaque) and n.what.startswith("exc:"):
                name = n.what[4:]
        if name is None:
            name = "<unknown " + norm(e, 40) + ">"
        self.raise_(name, "stmt", (fr.fi, s))

    def do_if(self, s: ast.If, env: dict, fr: Frame) -> dict | None:
        t, f, ft, ff = self.test(s.test, env, fr)
        e1 = e2 = None
        if t:
            n = len(fr.facts)
            fr.facts.extend(ft)
            e1 = self.block(s.body, self.narrowed(env, ft), fr)
            del fr.facts[n:]
        if f:
            n = len(fr.facts)
            fr.facts.extend(ff)
            e2 = self.block(s.orelse, self.narrowed(env, ff), fr) if s.orelse else self.narrowed(env, ff)
            del fr.facts[n:]
        if t and f:
            if e1 is None and e2 is not None:
                fr.facts.extend(ff)
            elif e2 is None and e1 is not None:
                fr.facts.extend(ft)
        elif t:
            fr.facts.extend(ft)
        elif f:
            fr.facts.extend(ff)
        return join_env(e1, e2)

    @staticmethod
    def narrowed(env: dict, facts: list) -> dict:
        out = dict(env)
        for f in facts:
            if f[0] == "narrow" and (f[1] in out or "." in f[1]):
                out[f[1]] = f[2]
        return out

    def unrolled(self, it_expr: ast.expr, itv: AV) -> list[AV] | None:
        """Element values one by one when the iterable has a fixed small length."""
        if itv.concrete and len(itv.consts) == 1:
            v = next(iter(itv.consts)).v
            if isinstance(v, (tuple, list)) and len(v) <= 64:
                return [const(x) for x in v]
            return None
        if len(itv.refs) == 1 and not itv.consts and not itv.top:
            n = next(iter(itv.refs))
            if isinstance(n, Seq) and n.items is not None and n._elem.bottom and len(n.items) <= 64:
                return list(n.items)
        return None

    def do_for(self, s: ast.For, env: dict, fr: Frame) -> dict | None:
        itv = self.ev(s.iter, env, fr)
        items = self.unrolled(s.iter, itv)
        if items is not None:
            cur: dict | None = env
            breaks: list[dict] = []
            base_ctx = fr.ctx
            for i_, x in enumerate(items):
                if cur is None:
                    break
                lp = _Loop()
                fr.loops.append(lp)
                e = dict(cur)
                fr.ctx = base_ctx + (("it", id(s), i_),)  # unrolled: every iteration is its own calling context
                try:
                    self.assign(s.target, x, e, fr, s, None)
                    out = self.block(s.body, e, fr)
                finally:
                    fr.ctx = base_ctx
                fr.loops.pop()
                breaks += lp.breaks
                cur = join_env(out, *lp.continues)
            if cur is not None and s.orelse:
                cur = self.block(s.orelse, cur, fr)
            return join_env(cur, *breaks)
        elem = self.iterate(itv, ("loop", fr.ctx, id(s)), fr, s.iter)
        env_in = dict(env)
        breaks = []
        over_matches = self.is_match_iter(itv)
        if elem.bottom and not elem.prov:
            # nothing known to iterate over: body not reachable in this round of the global fixpoint
            out_env = env_in
        else:
            for _ in range(8):
                lp = _Loop()
                fr.loops.append(lp)
                e = dict(env_in)
                self.assign(s.target, elem, e, fr, s, None)
                if over_matches:
                    self.match_loops.append(s)
                try:
                    out = self.block(s.body, e, fr)
                finally:
                    if over_matches:
                        self.match_loops.pop()
                fr.loops.pop()
                breaks = lp.breaks
                new_in = join_env(env_in, out, *lp.continues)
                if new_in == env_in:
                    break
                env_in = new_in
                elem = self.iterate(self.ev(s.iter, env, fr), ("loop", fr.ctx, id(s)), fr, s.iter)
            out_env = env_in
        if s.orelse:
            out_env = self.block(s.orelse, dict(out_env), fr)
        return join_env(out_env, *breaks)

    def do_while(self, s: ast.While, env: dict, fr: Frame) -> dict | None:
        env_in: dict | None = dict(env)
        exits: list[dict] = []
        for i in range(60):
            t, f, ft, ff = self.test(s.test, env_in, fr)
            if f:
                exits.append(dict(env_in))
            if not t:
                break
            lp = _Loop()
            fr.loops.append(lp)
            out = self.block(s.body, dict(env_in), fr)
            fr.loops.pop()
            exits += lp.breaks
            nxt = join_env(out, *lp.continues)
            if nxt is None:
                break
            if t and f:
                # abstract loop: widen by joining
                new_in = join_env(env_in, nxt)
                if new_in == env_in:
                    break
                env_in = new_in
                if i > 6:
                    break
            else:
                env_in = nxt  # test definitely true: concrete iteration
        else:
            self.unknown_value("while loop does not stabilise")
        res = join_env(*exits) if exits else None
        if res is not None and s.orelse:
            res = self.block(s.orelse, res, fr)
        return res

    # ------------------------------------------------------------------ structural pattern matching / isinstance
    def of_class(self, av: AV, cls_av: AV) -> tuple[AV, AV]:
        """(part of `av` that is an instance of the classes, the rest)."""
        cis = [n.ci.fq for n in cls_av.refs if isinstance(n, Cls)]
        libs = [n.name for n in cls_av.refs if isinstance(n, Lib)]
        for n in cls_av.refs:
            if isinstance(n, Seq):
                a, b = self.of_class(av, n.elem)
                return a, b
        for c in cls_av.consts:
            if isinstance(c.v, tuple):
                return av, av
        types = tuple(t for t in (getattr(builtins, l[9:], None) for l in libs if l.startswith("builtins.")) if isinstance(t, type))
        unknown_cls = cls_av.top or any(not l.startswith("builtins.") for l in libs) or len(types) != len(libs)
        yes_refs, no_refs = set(), set()
        for n in av.refs:
            if isinstance(n, Rec):
                hit = any(c.fq in cis for c in self.repo.mro(n.cls))
            elif isinstance(n, Seq):
                hit = any(t in types for t in ({"list": list, "set": set, "frozenset": frozenset, "tuple": tuple}.get(n.kind),))
            elif isinstance(n, Dict):
                hit = dict in types
            else:
                hit = None
            if hit or hit is None or unknown_cls:
                yes_refs.add(n)
            if not hit or unknown_cls:
                no_refs.add(n)
        yes_c = frozenset(c for c in av.consts if unknown_cls or (types and isinstance(c.v, types)))
        no_c = frozenset(c for c in av.consts if unknown_cls or not (types and isinstance(c.v, types)))
        scalar_t = unknown_cls or any(t in (str, int, float, bool, object) for t in types)
        yes = AV(yes_c, av.top and scalar_t, av.prov if (av.top and scalar_t) else frozenset(), frozenset(yes_refs))
        no = AV(no_c, av.top, av.prov, frozenset(no_refs))
        return yes, no

    def bind_pattern(self, p: ast.pattern, av: AV, env: dict, fr: Frame) -> tuple[bool, AV]:
        """Binds the capture names; returns (may match, the part of the subject that can match)."""
        if isinstance(p, ast.MatchAs):
            ok, part = (True, av) if p.pattern is None else self.bind_pattern(p.pattern, av, env, fr)
            if p.name is not None:
                env[p.name] = part
            return ok, part
        if isinstance(p, ast.MatchValue):
            v = self.ev(p.value, env, fr)
            if av.concrete and v.concrete:
                hit = frozenset(c for c in av.consts if c in v.consts)
                return bool(hit), AV(consts=hit)
            return True, av
        if isinstance(p, ast.MatchSingleton):
            hit = frozenset(c for c in av.consts if c.v is p.value)
            return bool(hit) or av.top or av.bottom, AV(consts=hit)
        if isinstance(p, ast.MatchOr):
            parts = []
            envs = []
            for alt in p.patterns:
                e2 = dict(env)
                ok, part = self.bind_pattern(alt, av, e2, fr)
                if ok:
                    parts.append(part)
                    envs.append(e2)
            if envs:
                env.update(join_env(*envs))
            return bool(parts), join(*parts)
        if isinstance(p, ast.MatchClass):
            cls_av = self.ev(p.cls, env, fr)
            yes, _no = self.of_class(av, cls_av)
            if yes.bottom and not av.bottom:
                return False, BOT
            names: list[str] = []
            for n in cls_av.refs:
                if isinstance(n, Cls):
                    names = [a for c in reversed(self.repo.mro(n.ci)) for a in c.ann_attrs]
            subs = list(zip(names, p.patterns)) + list(zip(p.kwd_attrs, p.kwd_patterns))
            for attr, sub in subs:
                fv = join(*[n.fields.get(attr, BOT) for n in yes.refs if isinstance(n, Rec)])
                if fv.bottom and not fv.prov:
                    fv = self.unknown_value(f"attribute {attr} in a class pattern", yes) if not all(isinstance(n, Rec) for n in yes.refs) or not yes.refs else BOT
                self.bind_pattern(sub, fv, env, fr)
            if len(p.patterns) > len(names):
                for sub in p.patterns[len(names) :]:
                    self.bind_pattern(sub, yes if len(p.patterns) == 1 else self.unknown_value("positional class pattern", yes), env, fr)
            return True, yes
        if isinstance(p, ast.MatchSequence):
            seqs = [n for n in av.refs if isinstance(n, Seq)]
            fixed = [q for q in p.patterns if not isinstance(q, ast.MatchStar)]
            for i, q in enumerate(p.patterns):
                if isinstance(q, ast.MatchStar):
                    if q.name:
                        sq = self.seq(fr, q, "list")
                        for n in seqs:
                            self.grow_elem(sq, n.elem)
                        env[q.name] = ref(sq)
                    continue
                parts = []
                for n in seqs:
                    if n.items is not None and n._elem.bottom and len(n.items) == len(p.patterns) and len(fixed) == len(p.patterns):
                        parts.append(n.items[i])
                    else:
                        parts.append(n.elem)
                for c in av.consts:
                    if isinstance(c.v, tuple):
                        parts.append(const(c.v[i]) if len(c.v) == len(p.patterns) == len(fixed) else consts(c.v))
                self.bind_pattern(q, join(*parts), env, fr)
            return bool(seqs) or any(isinstance(c.v, tuple) for c in av.consts) or av.top or av.bottom, av
        if isinstance(p, ast.MatchMapping):
            ds = [n for n in av.refs if isinstance(n, Dict)]
            for kx, q in zip(p.keys, p.patterns):
                kv = self.ev(kx, env, fr).single()
                vals = [(n.fields[kv.v] if n.fields is not None and kv is not None and kv.v in n.fields else via(n.v)) for n in ds]
                self.bind_pattern(q, join(*vals), env, fr)
            if p.rest:
                env[p.rest] = AV(refs=frozenset(ds))
            return bool(ds) or av.top or av.bottom, AV(refs=frozenset(ds))
        self.unknown_value(f"pattern {type(p).__name__}")
        return True, av

    def do_match(self, s: ast.Match, env: dict, fr: Frame) -> dict | None:
        subj = self.ev(s.subject, env, fr)
        outs: list[dict | None] = []
        exhaustive = False
        for case in s.cases:
            e2 = dict(env)
            ok, part = self.bind_pattern(case.pattern, subj, e2, fr)
            if not ok:
                continue
            if isinstance(s.subject, ast.Name) and not part.bottom:
                e2.setdefault(s.subject.id, part)
                if isinstance(case.pattern, (ast.MatchClass, ast.MatchValue, ast.MatchSingleton)):
                    e2[s.subject.id] = part
            if case.guard is not None:
                t, f, ft, _ff = self.test(case.guard, e2, fr)
                if not t:
                    continue
                e2 = self.narrowed(e2, ft)
            else:
                f = False
            outs.append(self.block(case.body, e2, fr))
            if not f and isinstance(case.pattern, ast.MatchAs) and case.pattern.pattern is None:
                exhaustive = True
                break
        if not exhaustive:
            outs.append(dict(env))
        return join_env(*outs)

    def handler_names(self, h: ast.ExceptHandler, env: dict, fr: Frame) -> list[str]:
        if h.type is None:
            return ["builtins.BaseException"]
        out = []
        for t in (h.type.elts if isinstance(h.type, ast.Tuple) else [h.type]):
            v = self.ev(t, env, fr)
            for n in v.refs:
                if isinstance(n, Cls):
                    out.append(n.ci.fq)
                elif isinstance(n, Lib):
                    out.append(n.name)
        return out

    def do_try(self, s: ast.Try, env: dict, fr: Frame) -> dict | None:
        col: list[Raised] = []
        self._collectors.append(col)
        body_out = self.block(s.body, dict(env), fr)
        self._collectors.pop()
        outs: list[dict | None] = []
        if body_out is not None:
            outs.append(self.block(s.orelse, body_out, fr) if s.orelse else body_out)
        at_raise = join_env(env, body_out)
        pending: list[Raised] = []
        handled: set[int] = set()
        for r in col:
            for i, h in enumerate(s.handlers):
                if self.exc_matches(r.name, self.handler_names(h, env, fr)) or r.name.startswith("<"):
                    if i not in handled:
                        handled.add(i)
                        e = dict(at_raise)
                        if h.name:
                            e[h.name] = ref(self.memo(("exc", fr.ctx, id(h), r.name), lambda: Opaque((fr.ctx, id(h)), "exc:" + r.name)))
                        n = len(fr.facts)
                        if r.name == "builtins.KeyError" and r.where and r.where[0] == "absent":
                            fr.facts.append(r.where)
                        outs.append(self.block(h.body, e, fr))
                        del fr.facts[n:]
                    break
            else:
                pending.append(r)
        for r in pending:
            (self._collectors[-1] if self._collectors else self.raised).append(r)
        res = join_env(*outs)
        if s.finalbody:
            fin = self.block(s.finalbody, dict(res if res is not None else at_raise), fr)
            if res is not None:
                res = fin
        return res

    # ------------------------------------------------------------------ assignment
    def assign(self, target: ast.expr, v: AV, env: dict, fr: Frame, stmt: ast.AST, value: ast.expr | None) -> None:
        if isinstance(target, ast.Name):
            env[target.id] = v
            for k in [k for k in env if k.startswith(target.id + ".")]:
                del env[k]
            if target.id in fr.globals:
                key = (fr.mod.name, target.id)
                new = join(self.globals_store.get(key, BOT), v.plain())
                if new != self.globals_store.get(key):
                    self.globals_store[key] = new
                    self.version += 1
        elif isinstance(target, (ast.Tuple, ast.List)):
            n = len(target.elts)
            parts = [BOT] * n
            starred = any(isinstance(t, ast.Starred) for t in target.elts)
            for c in v.consts:
                if isinstance(c.v, (tuple, list)) and len(c.v) == n and not starred:
                    parts = [join(p, const(x)) for p, x in zip(parts, c.v)]
                elif isinstance(c.v, (tuple, list, str)):
                    parts = [join(p, consts(c.v)) for p in parts]
            if v.top:
                parts = [join(p, top(v.prov)) for p in parts]
            for nd in v.refs:
                if isinstance(nd, Seq) and nd.items is not None and len(nd.items) == n and not starred:
                    parts = [join(p, x) for p, x in zip(parts, nd.items)]
                elif isinstance(nd, Rec) and not starred and len(self.record_fields(nd.cls)) == n:
                    parts = [join(p, nd.fields.get(f, BOT)) for p, f in zip(parts, self.record_fields(nd.cls))]
                elif isinstance(nd, View) and nd.kind == "pair" and n == 2:
                    parts = [join(parts[0], replace(nd.d.k, uniq=v.uniq)), join(parts[1], via(nd.d.v))]
                else:
                    el = self.iterate(ref(nd), None, fr, None)
                    parts = [join(p, el) for p in parts]
            for t, p in zip(target.elts, parts):
                if isinstance(t, ast.Starred):
                    sq = self.seq(fr, t, "list")
                    self.grow_elem(sq, p)
                    self.assign(t.value, ref(sq), env, fr, stmt, None)
                else:
                    self.assign(t, p, env, fr, stmt, None)
        elif isinstance(target, ast.Attribute):
            base = self.ev(target.value, env, fr)
            for nd in base.refs:
                if isinstance(nd, Rec):
                    self.grow_field(nd, target.attr, v)
                elif isinstance(nd, Cls):
                    key = (nd.ci.fq, target.attr)
                    new = join(self.cls_fields.get(key, BOT), v.plain())
                    if new != self.cls_fields.get(key):
                        self.cls_fields[key] = new
                        self.version += 1
            if isinstance(target.value, ast.Name):
                if (v.consts or v.top) and not v.refs:
                    env[f"{target.value.id}.{target.attr}"] = v  # scalars only: containers are shared through the heap anyway
                else:
                    env.pop(f"{target.value.id}.{target.attr}", None)
        elif isinstance(target, ast.Subscript):
            base = self.ev(target.value, env, fr)
            k = self.ev(target.slice, env, fr) if not isinstance(target.slice, ast.Slice) else TOPV
            dicts = frozenset(nd for nd in base.refs if isinstance(nd, Dict))
            for nd in base.refs:
                if isinstance(nd, Dict):
                    self.grow_dict(nd, k, v)
                elif isinstance(nd, Seq):
                    self.grow_elem(nd, v)
            if dicts:
                reads = value is not None and self.reads_dict(value, dicts, norm(target.slice), env, fr)
                self.event("assign", dicts, k, norm(target.slice), v, fr, stmt, reads_same=reads, fresh_empty=self.is_fresh_empty(value))
        elif isinstance(target, ast.Starred):
            self.assign(target.value, v, env, fr, stmt, None)

    def record_fields(self, ci: ClassInfo) -> list[str]:
        return [a for c in reversed(self.repo.mro(ci)) for a in c.ann_attrs]

    @staticmethod
    def is_fresh_empty(value: ast.expr | None) -> bool:
        if value is None:
            return False
        if isinstance(value, (ast.Set, ast.List, ast.Dict, ast.Tuple)):
            return not (getattr(value, "elts", None) or getattr(value, "keys", None))
        return isinstance(value, ast.Call) and isinstance(value.func, ast.Name) and value.func.id in ("set", "list", "dict", "frozenset", "tuple") and not value.args and not value.keywords

    def reads_dict(self, value: ast.expr, dicts: frozenset, key_text: str, env: dict, fr: Frame) -> bool:
        """Does the stored value read the same dict (at the same key): `d[k] = d.get(k, set()) | x`."""
        for n in ast.walk(value):
            recv = None
            ktxt = None
            if isinstance(n, ast.Subscript):
                recv, ktxt = n.value, norm(n.slice)
            elif isinstance(n, ast.Call) and isinstance(n.func, ast.Attribute) and n.func.attr in ("get", "setdefault", "pop") and n.args:
                recv, ktxt = n.func.value, norm(n.args[0])
            if recv is None or ktxt != key_text:
                continue
            rec = self.recording
            self.recording = False
            try:
                rv = self.ev(recv, dict(env), fr)
            except _Dead:
                rv = BOT
            finally:
                self.recording = rec
            if rv.refs & dicts:
                return True
        # a value built from what the dict holds under this key (`old = d.get(k, set()); d[k] = old | new`)
        rec = self.recording
        self.recording = False
        try:
            sv = self.ev(value, dict(env), fr)
        except _Dead:
            sv = BOT
        finally:
            self.recording = rec
        if any(dn in dicts and kt == key_text for dn, kt in sv.src):
            return True
        # a local that was read from the dict at this key (`known = d.get(k)`)
        for n in ast.walk(value):
            if isinstance(n, ast.Name) and n.id in env and env[n.id].look is not None:
                ds, kt = env[n.id].look
                if ds & dicts and kt == key_text:
                    return True
        return False

    def event(self, kind: str, dicts: frozenset, k: AV, key_text: str, v: AV, fr: Frame, node: ast.AST, **kw) -> None:
        if not self.recording:
            return
        key = (fr.ctx, id(node), kind)
        ev = Event(kind, dicts, k, key_text, v, fr.fi, node, frozenset(fr.facts), bool(fr.loops) or kind == "comp", **kw)
        old = self.events.get(key)
        if old is not None:
            ev.dicts = ev.dicts | old.dicts
            ev.key = join(old.key, k) if old.key.uniq == k.uniq else replace(join(old.key, k), uniq=None)
            ev.val = join(old.val, v)
            ev.facts = ev.facts & old.facts if old.facts is not None else ev.facts
        self.events[key] = ev

    def augassign(self, s: ast.AugAssign, env: dict, fr: Frame) -> None:
        cur = self.ev(s.target, env, fr) if not isinstance(s.target, ast.Name) else self.lookup(s.target.id, env, fr)
        v = self.ev(s.value, env, fr)
        mutated = False
        for nd in cur.refs:
            if isinstance(nd, Seq) and isinstance(s.op, (ast.BitOr, ast.Add, ast.BitAnd, ast.Sub, ast.BitXor)):
                if isinstance(s.op, (ast.BitOr, ast.Add, ast.BitXor)):
                    self.grow_elem(nd, self.iterate(v, None, fr, None))
                mutated = True
            elif isinstance(nd, Dict) and isinstance(s.op, ast.BitOr):
                for o in v.refs:
                    if isinstance(o, Dict):
                        self.copy_dict(nd, o)
                self.event("update", frozenset({nd}), BOT, "", v, fr, s)
                mutated = True
        if isinstance(s.target, ast.Subscript):
            base = self.ev(s.target.value, env, fr)
            dicts = frozenset(nd for nd in base.refs if isinstance(nd, Dict))
            if dicts:
                k = self.ev(s.target.slice, env, fr)
                self.event("item-mutate", dicts, k, norm(s.target.slice), v, fr, s, detail="augmented assignment")
                if not mutated:
                    res = self.binop(s.op, cur, v, fr, s)
                    for d in dicts:
                        self.grow_dict(d, k, res)
            return
        if mutated and not cur.consts and not cur.top:
            return
        res = self.binop(s.op, cur, v, fr, s)
        if mutated:
            res = join(res, AV(refs=cur.refs))
        self.assign(s.target, res, env, fr, s, None)

    # ------------------------------------------------------------------ tests
    @staticmethod
    def truth(av: AV) -> tuple[bool, bool]:
        t = f = False
        for c in av.consts:
            try:
                if bool(c.v):
                    t = True
                else:
                    f = True
            except Exception:  # noqa: BLE001
                t = f = True
        if av.top:
            t = f = True
        for n in av.refs:
            if isinstance(n, (Seq, Dict, View)) or (isinstance(n, Rec) and ("__bool__" in n.cls.methods or "__len__" in n.cls.methods)):
                t = f = True
            else:
                t = True
        if av.bottom:
            t = f = True
        return t, f

    def test(self, e: ast.expr, env: dict, fr: Frame) -> tuple[bool, bool, list, list]:
        if isinstance(e, ast.BoolOp):
            rs = []
            isand = isinstance(e.op, ast.And)
            for v in e.values:
                r = self.test(v, env, fr)
                rs.append(r)
                if isand and not r[0]:
                    break
                if not isand and not r[1]:
                    break
            if isand:
                t = all(r[0] for r in rs) and len(rs) == len(e.values)
                f = any(r[1] for r in rs)
                ft = [x for r in rs for x in r[2]]
                ff = rs[0][3] if len(e.values) == 1 else []
            else:
                t = any(r[0] for r in rs)
                f = all(r[1] for r in rs) and len(rs) == len(e.values)
                ff = [x for r in rs for x in r[3]]
                ft = rs[0][2] if len(e.values) == 1 else []
            return t, f, ft, ff
        if isinstance(e, ast.UnaryOp) and isinstance(e.op, ast.Not):
            t, f, ft, ff = self.test(e.operand, env, fr)
            return f, t, ff, ft
        if isinstance(e, ast.Compare) and len(e.ops) == 1:
            op, left, right = e.ops[0], e.left, e.comparators[0]
            if isinstance(op, (ast.Is, ast.IsNot, ast.Eq, ast.NotEq)) and isinstance(right, ast.Constant) and right.value is None:
                av = self.ev(left, env, fr)
                self.note_test(e, "is-none" if isinstance(op, (ast.Is, ast.Eq)) else "is-not-none", av)
                is_none = av.maybe_none() or av.bottom
                not_none = av.top or bool(av.refs) or any(c.v is not None for c in av.consts) or av.bottom
                facts = [("absent",) + av.look] if av.look is not None else []
                pres = [("present",) + av.look] if av.look is not None else []
                lkey = left.id if isinstance(left, ast.Name) else f"{left.value.id}.{left.attr}" if isinstance(left, ast.Attribute) and isinstance(left.value, ast.Name) else None
                if lkey is not None:
                    facts = facts + [("narrow", lkey, NONE)]
                    pres = pres + [("narrow", lkey, replace(av, consts=frozenset(c for c in av.consts if c.v is not None)))]
                if isinstance(op, (ast.Is, ast.Eq)):
                    return is_none, not_none, facts, pres
                return not_none, is_none, pres, facts
            if isinstance(op, (ast.In, ast.NotIn)):
                lv = self.ev(left, env, fr)
                rv = self.ev(right, env, fr)
                self.note_test(e, "in" if isinstance(op, ast.In) else "not-in", lv, rv)
                dicts = frozenset(n.d if isinstance(n, View) else n for n in rv.refs if isinstance(n, Dict) or (isinstance(n, View) and n.kind == "keys"))
                if dicts:
                    a = [("absent", dicts, norm(left))]
                    p = [("present", dicts, norm(left))]
                    if len(dicts) == len(rv.refs) and not rv.top and all(d.k.bottom and not d.k.prov and d.v.bottom and not d.fields and d.factory is None for d in dicts):
                        # nothing is ever stored into these dicts (the heap only grows and the run is repeated until it is stable:
                        # a store found later re-opens the other branch): the key is absent
                        return (False, True, p, a) if isinstance(op, ast.In) else (True, False, a, p)
                    return (True, True, p, a) if isinstance(op, ast.In) else (True, True, a, p)
                res = self.compare(op, lv, rv)
                t, f = self.truth(res)
                return t, f, [], []
            res = self.compare(op, self.ev(left, env, fr), self.ev(right, env, fr))
            t, f = self.truth(res)
            return t, f, [], []
        if isinstance(e, ast.Call) and isinstance(e.func, ast.Name) and e.func.id == "isinstance" and len(e.args) == 2 and "isinstance" not in env:
            av = self.ev(e.args[0], env, fr)
            yes, no = self.of_class(av, self.ev(e.args[1], env, fr))
            t = not yes.bottom or av.bottom
            f = not no.bottom or av.bottom
            if isinstance(e.args[0], ast.Name):
                return t, f, [("narrow", e.args[0].id, yes)], [("narrow", e.args[0].id, no)]
            return t, f, [], []
        if isinstance(e, ast.NamedExpr):
            v = self.ev(e.value, env, fr)
            self.assign(e.target, v, env, fr, e, e.value)
            t, f = self.truth(v)
            if v.look is not None:
                return t, f, [("present",) + v.look], [("absent",) + v.look]
            return t, f, [], []
        av = self.ev(e, env, fr)
        self.note_test(e, "truthy", av)
        t, f = self.truth(av)
        ft, ff = [], []
        if av.look is not None:
            ft, ff = [("present",) + av.look], [("absent-or-empty",) + av.look]
        nkey = e.id if isinstance(e, ast.Name) else f"{e.value.id}.{e.attr}" if isinstance(e, ast.Attribute) and isinstance(e.value, ast.Name) else None
        if nkey is not None:
            ft = ft + [("narrow", nkey, replace(av, consts=frozenset(c for c in av.consts if _truthy(c.v))))]
            ff = ff + [("narrow", nkey, replace(av, consts=frozenset(c for c in av.consts if not _truthy(c.v)), refs=frozenset(n for n in av.refs if isinstance(n, (Seq, Dict, View)))))]
        return t, f, ft, ff

    def compare(self, op: ast.cmpop, a: AV, b: AV) -> AV:
        if a.concrete and b.concrete and len(a.consts) * len(b.consts) <= 64:
            out = set()
            for x in a.values():
                for y in b.values():
                    try:
                        if isinstance(op, ast.Eq):
                            r = x == y
                        elif isinstance(op, ast.NotEq):
                            r = x != y
                        elif isinstance(op, ast.Lt):
                            r = x < y
                        elif isinstance(op, ast.LtE):
                            r = x <= y
                        elif isinstance(op, ast.Gt):
                            r = x > y
                        elif isinstance(op, ast.GtE):
                            r = x >= y
                        elif isinstance(op, ast.Is):
                            r = x is y or (x == y and type(x) is type(y) and isinstance(x, (bool, int, str, type(None))))
                        elif isinstance(op, ast.IsNot):
                            r = not (x is y or (x == y and type(x) is type(y) and isinstance(x, (bool, int, str, type(None)))))
                        elif isinstance(op, ast.In):
                            r = x in y
                        elif isinstance(op, ast.NotIn):
                            r = x not in y
                        else:
                            return BOOL
                    except OP_ERRORS as exc:
                        self.op_failed(exc)
                    out.add(bool(r))
            return consts(out)
        return BOOL

    # ------------------------------------------------------------------ expressions
    def ev(self, e: ast.expr, env: dict, fr: Frame) -> AV:
        m = getattr(self, "e_" + type(e).__name__, None)
        if m is None:
            return self.unknown_value(f"expression {type(e).__name__}")
        return m(e, env, fr)

    def e_Constant(self, e, env, fr):
        return const(e.value)

    def e_Name(self, e, env, fr):
        return self.lookup(e.id, env, fr)

    def e_NamedExpr(self, e, env, fr):
        v = self.ev(e.value, env, fr)
        self.assign(e.target, v, env, fr, e, e.value)
        return v

    def e_JoinedStr(self, e, env, fr):
        parts: list[AV] = []
        for v in e.values:
            if isinstance(v, ast.Constant):
                parts.append(const(str(v.value)))
            else:
                x = self.ev(v.value, env, fr)
                spec = None
                if v.format_spec is not None:
                    sv = self.ev(v.format_spec, env, fr).single()
                    spec = sv.v if sv is not None else Ellipsis
                if x.concrete and spec is not Ellipsis:
                    outs = []
                    for val in x.values():
                        if v.conversion == ord("r"):
                            val = repr(val)
                        elif v.conversion == ord("s"):
                            val = str(val)
                        elif v.conversion == ord("a"):
                            val = ascii(val)
                        try:
                            outs.append(format(val, spec or ""))
                        except OP_ERRORS as exc:
                            self.op_failed(exc)
                    parts.append(consts(outs))
                else:
                    parts.append(top(self.flat_prov(x)))
        if all(p.concrete for p in parts):
            n = 1
            for p in parts:
                n *= len(p.consts)
            if n <= MAXC:
                return consts("".join(c) for c in itertools.product(*[p.values() for p in parts]))
        pv: set = set()
        for p in parts:
            pv |= p.prov
        return top(pv)

    def e_FormattedValue(self, e, env, fr):
        return self.ev(e.value, env, fr)

    def e_Tuple(self, e, env, fr):
        if any(isinstance(x, ast.Starred) for x in e.elts):
            s = self.seq(fr, e, "tuple")
            for x in e.elts:
                if isinstance(x, ast.Starred):
                    self.grow_elem(s, self.iterate(self.ev(x.value, env, fr), None, fr, None))
                else:
                    self.grow_elem(s, self.ev(x, env, fr))
            return ref(s)
        items = [self.ev(x, env, fr).plain() for x in e.elts]
        if all(i.concrete and len(i.consts) == 1 for i in items):
            return const(tuple(i.values()[0] for i in items))
        s = self.seq(fr, e, "tuple")
        if s.items is None or len(s.items) != len(items):
            s.items = items
            self.version += 1
        else:
            new = [join(a, b) for a, b in zip(s.items, items)]
            if new != s.items:
                s.items = new
                self.version += 1
        return ref(s)

    def _display(self, e, env, fr, kind):
        s = self.seq(fr, e, kind)
        src: frozenset = frozenset()
        for x in e.elts:
            if isinstance(x, ast.Starred):
                sv = self.ev(x.value, env, fr)
                src |= sv.src
                self.grow_elem(s, self.iterate(sv, None, fr, None))
            else:
                self.grow_elem(s, self.ev(x, env, fr))
        return replace(ref(s), src=src)

    def e_List(self, e, env, fr):
        if isinstance(getattr(e, "ctx", None), ast.Load) and e.elts and not any(isinstance(x, ast.Starred) for x in e.elts) and len(e.elts) <= 64:
            s = self.seq(fr, e, "list")
            items = [self.ev(x, env, fr).plain() for x in e.elts]
            s.items = items if s.items is None else [join(a, b) for a, b in zip(s.items, items)]
            return ref(s)
        return self._display(e, env, fr, "list")

    def e_Set(self, e, env, fr):
        return self._display(e, env, fr, "set")

    def e_Dict(self, e, env, fr):
        d = self.dict_(fr, e)
        if d.fields is None and d.k.bottom:
            d.fields = {}
        for k, v in zip(e.keys, e.values):
            vv = self.ev(v, env, fr)
            if k is None:
                for o in vv.refs:
                    if isinstance(o, Dict):
                        self.copy_dict(d, o)
                if e.keys.index(k) > 0 or len(e.keys) > 1:
                    self.event("update", frozenset({d}), BOT, "", vv, fr, e, detail="dict display with ** unpacking")
            else:
                self.grow_dict(d, self.ev(k, env, fr), vv)
        return ref(d)

    def e_Starred(self, e, env, fr):
        return self.iterate(self.ev(e.value, env, fr), None, fr, None)

    def e_IfExp(self, e, env, fr):
        t, f, ft, ff = self.test(e.test, env, fr)
        outs = []
        if t:
            n = len(fr.facts)
            fr.facts.extend(ft)
            outs.append(self.ev(e.body, self.narrowed(env, ft), fr))
            del fr.facts[n:]
        if f:
            n = len(fr.facts)
            fr.facts.extend(ff)
            outs.append(self.ev(e.orelse, self.narrowed(env, ff), fr))
            del fr.facts[n:]
        return join(*outs)

    def e_BoolOp(self, e, env, fr):
        outs = []
        for i, v in enumerate(e.values):
            x = self.ev(v, env, fr)
            if i == len(e.values) - 1:
                outs.append(x)
                break
            t, f = self.truth(x)
            if isinstance(e.op, ast.Or):
                if t:
                    # the truthy part of x is a possible result
                    keep = AV(frozenset(c for c in x.consts if _truthy(c.v)), x.top, x.prov, x.refs)
                    outs.append(keep if not keep.bottom or keep.prov else x)
                if not f:
                    break
            else:
                if f:
                    keep = AV(frozenset(c for c in x.consts if not _truthy(c.v)), x.top, x.prov if x.top else frozenset(), frozenset(n for n in x.refs if isinstance(n, (Seq, Dict, View))))
                    outs.append(keep if not keep.bottom else x)
                if not t:
                    break
        return join(*outs)

    def e_UnaryOp(self, e, env, fr):
        if isinstance(e.op, ast.Not):
            t, f, _a, _b = self.test(e.operand, env, fr)
            return consts(([False] if t else []) + ([True] if f else []))
        x = self.ev(e.operand, env, fr)
        if x.concrete:
            try:
                return consts((-v if isinstance(e.op, ast.USub) else +v if isinstance(e.op, ast.UAdd) else ~v) for v in x.values())
            except OP_ERRORS as exc:
                self.op_failed(exc)
        return TOPV

    def e_Compare(self, e, env, fr):
        if len(e.ops) == 1:
            t, f, _a, _b = self.test(e, env, fr)
            return consts(([True] if t else []) + ([False] if f else []))
        left = self.ev(e.left, env, fr)
        res = None
        for op, c in zip(e.ops, e.comparators):
            right = self.ev(c, env, fr)
            r = self.compare(op, left, right)
            res = r if res is None else (BOOL if not (res.single() and r.single()) else const(res.single().v and r.single().v))
            left = right
        return res

    def e_BinOp(self, e, env, fr):
        return self.binop(e.op, self.ev(e.left, env, fr), self.ev(e.right, env, fr), fr, e)

    def binop(self, op: ast.operator, a: AV, b: AV, fr: Frame, e: ast.AST) -> AV:
        outs: list[AV] = []
        if isinstance(op, ast.Mod) and a.concrete and all(isinstance(x, str) for x in a.values()) and b.refs and not b.consts and not b.top:
            # "...%(name)s" % {...} / "...%s" % (a, b) with known operands
            b = self.as_const(b)
            if len(b.refs) == 1 and isinstance(next(iter(b.refs)), Dict):
                d = next(iter(b.refs))
                if d.fields and all(v.concrete and len(v.consts) == 1 for v in d.fields.values()):
                    mapping = {k: v.values()[0] for k, v in d.fields.items()}
                    try:
                        return consts(x % mapping for x in a.values())
                    except OP_ERRORS as exc:
                        self.op_failed(exc)
        if a.consts and b.consts and len(a.consts) * len(b.consts) <= 64 and not (isinstance(op, ast.Mod) and any(isinstance(x, str) for x in a.values()) and (b.refs or b.top)):
            vals = []
            for x in a.values():
                for y in b.values():
                    try:
                        if isinstance(op, ast.Add):
                            vals.append(x + y)
                        elif isinstance(op, ast.Sub):
                            vals.append(x - y)
                        elif isinstance(op, ast.Mult):
                            vals.append(x * y)
                        elif isinstance(op, ast.Mod):
                            vals.append(x % y)
                        elif isinstance(op, ast.FloorDiv):
                            vals.append(x // y)
                        elif isinstance(op, ast.Div):
                            vals.append(x / y)
                        elif isinstance(op, ast.BitOr):
                            vals.append(int(x | y) if isinstance(x | y, re.RegexFlag) else x | y)
                        elif isinstance(op, ast.BitAnd):
                            vals.append(x & y)
                        elif isinstance(op, ast.BitXor):
                            vals.append(x ^ y)
                        elif isinstance(op, ast.Pow):
                            vals.append(x**y)
                        elif isinstance(op, ast.LShift):
                            vals.append(x << y)
                        elif isinstance(op, ast.RShift):
                            vals.append(x >> y)
                        else:
                            return self.unknown_value(f"operator {type(op).__name__}", a, b)
                    except OP_ERRORS as exc:
                        if a.concrete and b.concrete:
                            self.op_failed(exc)
            outs.append(consts(vals))
        if (a.top or b.top) and not (a.concrete and b.concrete):
            outs.append(top(a.prov | b.prov | (self.flat_prov(b) if isinstance(op, ast.Mod) else frozenset())))
        # containers
        an = [n for n in a.refs if isinstance(n, (Seq, Dict, View))]
        bn = [n for n in b.refs if isinstance(n, (Seq, Dict, View))]
        if an or bn:
            if any(isinstance(n, Dict) for n in an):
                d = self.dict_(fr, e, "binop")
                for n in [*an, *bn]:
                    if isinstance(n, Dict):
                        self.copy_dict(d, n)
                self.event("update", frozenset({d}), BOT, "", b, fr, e, detail="dict union")
                outs.append(ref(d))
            else:
                kind = next((n.kind for n in an if isinstance(n, Seq)), "set")
                s = self.seq(fr, e, kind if kind in ("list", "set", "frozenset", "tuple") else "set", "binop")
                for n in an:
                    self.grow_elem(s, self.iterate(ref(n), None, fr, None))
                if isinstance(op, (ast.BitOr, ast.Add, ast.BitXor)):
                    for n in bn:
                        self.grow_elem(s, self.iterate(ref(n), None, fr, None))
                    if isinstance(op, ast.Add) and b.consts:
                        for y in b.values():
                            if isinstance(y, (tuple, list)):
                                self.grow_elem(s, consts(y))
                outs.append(ref(s))
        if not outs:
            return self.unknown_value(f"operator {type(op).__name__}", a, b)
        res = join(*outs)
        return replace(res, src=a.src | b.src) if (a.src or b.src) else res

    def e_Lambda(self, e, env, fr):
        fi = getattr(e, "_func", None)
        if fi is None:
            fi = FuncInfo(name="<lambda>", qualname=f"<lambda@{getattr(e, 'lineno', 0)}:{getattr(e, 'col_offset', 0)}>", node=e, module=fr.mod, cls=None)
            e._func = fi
        fn = self.memo(("lambda", fr.ctx, id(e)), lambda: Func(("lambda", fr.ctx, id(e)), fi, None, env))
        fn.closure = env
        return ref(fn)

    def e_Yield(self, e, env, fr):
        v = self.ev(e.value, env, fr) if e.value is not None else NONE
        if fr.gen is not None:
            self.grow_elem(fr.gen, v)
        return NONE

    def e_YieldFrom(self, e, env, fr):
        v = self.ev(e.value, env, fr)
        if fr.gen is not None:
            self.grow_elem(fr.gen, self.iterate(v, None, fr, None))
        return NONE

    def e_Await(self, e, env, fr):
        return self.ev(e.value, env, fr)

    def e_Slice(self, e, env, fr):
        return TOPV

    # comprehensions
    def _generators(self, gens: list[ast.comprehension], env: dict, fr: Frame, token, body) -> None:
        if not gens:
            body(env)
            return
        g = gens[0]
        itv = self.ev(g.iter, env, fr)
        items = self.unrolled(g.iter, itv)
        elems = items if items is not None else [self.iterate(itv, ("comp", token, id(g)), fr, g.iter)]
        base_ctx = fr.ctx
        over_matches = self.is_match_iter(itv)
        for i_, el in enumerate(elems):
            if el.bottom and not el.prov:
                continue
            e2 = dict(env)
            if items is not None:
                fr.ctx = base_ctx + (("it", id(g), i_),)
            if over_matches:
                self.match_loops.append(g)
            try:
                self.assign(g.target, el, e2, fr, g, None)
                n = len(fr.facts)
                ok = True
                for c in g.ifs:
                    t, f, ft, ff = self.test(c, e2, fr)
                    if not t:
                        ok = False
                        break
                    fr.facts.extend(ft)
                    e2 = self.narrowed(e2, ft)
                if ok:
                    self._generators(gens[1:], e2, fr, token, body)
                del fr.facts[n:]
            finally:
                fr.ctx = base_ctx
                if over_matches:
                    self.match_loops.pop()

    def _comp(self, e, env, fr, kind):
        s = self.seq(fr, e, kind)
        if kind in ("list", "iter") and len(e.generators) == 1:
            # a comprehension over a sequence of known length keeps its order: `"|".join(re.escape(a) for a in ARROWS)`
            g = e.generators[0]
            items = self.unrolled(g.iter, self.ev(g.iter, env, fr))
            if items is not None:
                out: list[AV] = []
                exact = True
                base_ctx = fr.ctx
                for i_, el in enumerate(items):
                    e2 = dict(env)
                    fr.ctx = base_ctx + (("it", id(g), i_),)
                    try:
                        self.assign(g.target, el, e2, fr, g, None)
                        keep = True
                        for c in g.ifs:
                            t, f, ft, _ff = self.test(c, e2, fr)
                            if t and f:
                                exact = False
                            if not t:
                                keep = False
                                break
                            e2 = self.narrowed(e2, ft)
                        if keep:
                            out.append(self.ev(e.elt, e2, fr).plain())
                    finally:
                        fr.ctx = base_ctx
                if exact and len(out) <= 64:
                    s.items = out if s.items is None or len(s.items) != len(out) else [join(a, b) for a, b in zip(s.items, out)]
                    return ref(s)
                for o in out:
                    self.grow_elem(s, o)
                return ref(s)
        def body(e2):
            self._cur.append((fr.fi, e.elt))  # the element's own path condition includes the comprehension's filters
            try:
                self.grow_elem(s, self.ev(e.elt, e2, fr))
            finally:
                self._cur.pop()

        self._generators(e.generators, dict(env), fr, (fr.ctx, id(e)), body)
        return ref(s)

    def e_ListComp(self, e, env, fr):
        return self._comp(e, env, fr, "list")

    def e_SetComp(self, e, env, fr):
        return self._comp(e, env, fr, "set")

    def e_GeneratorExp(self, e, env, fr):
        return self._comp(e, env, fr, "iter")

    def e_DictComp(self, e, env, fr):
        d = self.dict_(fr, e)
        if d.fields is None and d.k.bottom:
            d.fields = {}

        def body(e2):
            self._cur.append((fr.fi, e.value))
            try:
                k = self.ev(e.key, e2, fr)
                v = self.ev(e.value, e2, fr)
                self.grow_dict(d, k, v)
            finally:
                self._cur.pop()
            self.event("comp", frozenset({d}), k, norm(e.key), v, fr, e)

        self._generators(e.generators, dict(env), fr, (fr.ctx, id(e)), body)
        return ref(d)

    # ------------------------------------------------------------------ iteration / subscripts / attributes
    def iterate(self, av: AV, token, fr: Frame, expr: ast.expr | None) -> AV:
        outs: list[AV] = []
        unique = True
        for c in av.consts:
            if isinstance(c.v, (tuple, list, frozenset)):
                outs.append(consts(c.v))
                unique = False
            elif isinstance(c.v, str):
                outs.append(consts(c.v) if len(set(c.v)) <= MAXC else TOPV)
                unique = False
            elif c.v is None:
                pass
            else:
                outs.append(TOPV)
                unique = False
        if av.top:
            outs.append(top(av.prov))
            unique = False
        for n in av.refs:
            if isinstance(n, Seq):
                outs.append(n.elem)
                if n.kind not in ("set", "frozenset") and not n.distinct:
                    unique = False
            elif isinstance(n, Dict):
                outs.append(n.k)
            elif isinstance(n, View):
                if n.kind == "keys":
                    outs.append(n.d.k)
                elif n.kind == "values":
                    outs.append(via(n.d.v))
                    unique = False
                elif n.kind == "items":
                    pair = self.node(("pair", n.d.key), lambda n=n: View(("pair", n.d.key), n.d, "pair"))
                    outs.append(ref(pair))
                else:
                    outs.append(n.d.k)
                    outs.append(via(n.d.v))
                    unique = False
            elif isinstance(n, File):
                outs.append(top(self.content.prov))
                unique = False
            elif isinstance(n, Match):
                outs.append(self.group_value(n, None))
                unique = False
            elif isinstance(n, Rec) and self.repo.lookup_method(n.cls, "__iter__") is None and any(b.endswith("NamedTuple") for b in self.repo.external_bases(n.cls)):
                outs.append(join(*[n.fields.get(f, BOT) for f in self.record_fields(n.cls)]))
                unique = False
            elif isinstance(n, Rec) and fr is not None and self.repo.lookup_method(n.cls, "__iter__") is not None:
                it = self.call_function(self.repo.lookup_method(n.cls, "__iter__"), [ref(n)], {}, fr, expr if expr is not None else n.cls.node, bound=True)
                outs.append(self.iterate(it, None, fr, expr))
                unique = False
            else:
                outs.append(self.unknown_value(f"iteration over {n.kind}", ref(n)))
                unique = False
        res = join(*outs)
        if res.src:
            res = replace(res, src=frozenset())
        if token is not None and unique and not res.bottom:
            res = replace(res, uniq=token)
        return res

    def group_value(self, m: Match, name) -> AV:
        """Text captured by a group (None = any group)."""
        if name is None:
            try:
                names = list(re.compile(m.pattern.text, m.pattern.flags).groupindex) or [1]
            except re.error:
                names = [1]
            return join(*[self.group_value(m, n) for n in names])
        if isinstance(name, int) and not isinstance(name, bool):
            try:
                byidx = {i: n for n, i in re.compile(m.pattern.text, m.pattern.flags).groupindex.items()}
            except re.error:
                byidx = {}
            name = byidx.get(name, name)
        return AV(consts=frozenset({Const(None)}), top=True, prov=frozenset({("g", m.pattern.key, name)}))

    def e_Subscript(self, e, env, fr):
        base = self.ev(e.value, env, fr)
        if isinstance(e.slice, ast.Slice):
            parts = [self.ev(x, env, fr) if x is not None else NONE for x in (e.slice.lower, e.slice.upper, e.slice.step)]
            outs = []
            if base.consts and all(p.concrete for p in parts):
                vals = []
                for b in base.values():
                    for lo, hi, st in itertools.product(*[p.values() for p in parts]):
                        try:
                            vals.append(b[lo:hi:st])
                        except OP_ERRORS as exc:
                            self.op_failed(exc)
                outs.append(consts(vals))
            elif base.consts:
                outs.append(TOPV)
            if base.top:
                outs.append(top(base.prov))
            for n in base.refs:
                if isinstance(n, Seq):
                    s = self.seq(fr, e, n.kind, "slice")  # one summary node per slicing site (slices of slices must not create new nodes for ever)
                    if s is n:
                        outs.append(ref(s))
                        continue
                    src_id = getattr(s, "slice_of", None)
                    exact = n.items is not None and n._elem.bottom and all(p.concrete and len(p.consts) == 1 for p in parts) and src_id in (None, id(n)) and s._elem.bottom
                    if exact:
                        lo, hi, st = [p.values()[0] for p in parts]
                        try:
                            new_items = list(n.items[lo:hi:st])
                        except OP_ERRORS:
                            exact = False
                        else:
                            s.slice_of = id(n)
                            if s.items != new_items:
                                s.items = new_items if s.items is None or len(s.items) != len(new_items) else [join(a, b) for a, b in zip(s.items, new_items)]
                    if not exact:
                        if s.items is not None:
                            self.grow_elem(s, join(*s.items))
                            s.items = None
                        s.slice_of = 0
                        self.grow_elem(s, n.elem)
                    outs.append(ref(s))
                else:
                    outs.append(self.unknown_value("slice of " + n.kind, ref(n)))
            return join(*outs)
        k = self.ev(e.slice, env, fr)
        return self.getitem(base, k, fr, e, norm(e.slice))

    def getitem(self, base: AV, k: AV, fr: Frame, e: ast.AST, key_text: str) -> AV:
        outs = []
        if base.consts:
            if k.concrete:
                vals = []
                for b in base.values():
                    for i in k.values():
                        try:
                            if isinstance(b, re.Match):
                                vals.append(b[i])
                            else:
                                vals.append(b[i])
                        except OP_ERRORS as exc:
                            if base.concrete and len(base.consts) == 1 and len(k.consts) == 1:
                                self.op_failed(exc)
                            self.raise_("builtins." + type(exc).__name__, "may")
                outs.append(consts(vals))
            else:
                outs.append(TOPV)
        if base.top:
            outs.append(top(base.prov))
        for n in base.refs:
            if isinstance(n, Dict):
                ck = k.single()
                if n.fields is not None and ck is not None and ck.v in n.fields:
                    outs.append(n.fields[ck.v])
                else:
                    outs.append(replace(via(n.v), src=frozenset({(n, key_text)})))
                missing = self.repo.lookup_method(n.cls, "__missing__") if n.cls is not None else None
                if missing is not None:
                    try:
                        outs.append(self.call_function(missing, [ref(n), k], {}, fr, e, bound=True))
                    except _Dead:
                        self.raise_("builtins.KeyError", "may", ("absent", frozenset({n}), key_text))
                elif n.factory is not None:
                    made = self.call_value(n.factory, [], {}, fr, e, tag=("factory", n.key))
                    self.grow_dict(n, k, made)
                    outs.append(made)
                else:
                    self.raise_("builtins.KeyError", "may", ("absent", frozenset({n}), key_text))
            elif isinstance(n, Seq):
                ci = k.single()
                if n.items is not None and n._elem.bottom and ci is not None and isinstance(ci.v, int) and -len(n.items) <= ci.v < len(n.items):
                    outs.append(n.items[ci.v])
                else:
                    outs.append(n.elem)
            elif isinstance(n, Match):
                for c in k.consts:
                    outs.append(self.group_value(n, c.v))
                if not k.concrete:
                    outs.append(self.group_value(n, None))
            elif isinstance(n, View) and n.kind == "pair":
                ci = k.single()
                outs.append(n.d.k if ci is not None and ci.v == 0 else via(n.d.v) if ci is not None and ci.v == 1 else join(n.d.k, via(n.d.v)))
            elif isinstance(n, Rec) and self.repo.lookup_method(n.cls, "__getitem__") is None and any(b.endswith("NamedTuple") for b in self.repo.external_bases(n.cls)):
                names = self.record_fields(n.cls)
                ci_ = k.single()
                if ci_ is not None and isinstance(ci_.v, int) and -len(names) <= ci_.v < len(names):
                    outs.append(n.fields.get(names[ci_.v], BOT))
                else:
                    outs.append(join(*[n.fields.get(f, BOT) for f in names]))
            elif isinstance(n, Rec) and self.repo.lookup_method(n.cls, "__getitem__") is not None:
                outs.append(self.call_function(self.repo.lookup_method(n.cls, "__getitem__"), [ref(n), k], {}, fr, e, bound=True))
            elif isinstance(n, (Cls, Lib)):
                outs.append(ref(n))  # generic alias: list[str], re.Pattern[str]
            else:
                outs.append(self.unknown_value("subscript of " + n.kind, ref(n)))
        return join(*outs)

    def class_attr(self, ci: ClassInfo, attr: str, fr: Frame, self_av: AV | None) -> AV | None:
        stored = join(*[self.cls_fields[(c.fq, attr)] for c in self.repo.mro(ci) if (c.fq, attr) in self.cls_fields])
        declared = self._class_attr(ci, attr, fr, self_av)
        if stored.bottom:
            return declared
        return join(stored, declared) if declared is not None else stored

    def _class_attr(self, ci: ClassInfo, attr: str, fr: Frame, self_av: AV | None) -> AV | None:
        for c in self.repo.mro(ci):
            if attr in c.methods:
                fi = c.methods[attr]
                if fi.is_staticmethod:
                    return ref(self.memo(("sm", fi.fq), lambda: Func(("sm", fi.fq), fi, None)))
                if fi.is_classmethod:
                    return ref(self.memo(("cm", fi.fq, ci.fq), lambda: Func(("cm", fi.fq, ci.fq), fi, ref(self.node(("cls", ci.fq), lambda: Cls(("cls", ci.fq), ci))))))
                if (fi.is_property or "cached_property" in fi.decorators) and self_av is not None:
                    return self.call_function(fi, [self_av], {}, fr, fi.node, bound=True)
                return ref(self.memo(("m", fi.fq, self_av), lambda: Func(("m", fi.fq, self_av), fi, self_av)))
            if attr in c.class_attrs and not attr.startswith("_") and any(b.split(".")[-1] in ("Enum", "IntEnum", "StrEnum", "Flag", "IntFlag") for b in self.repo.external_bases(c)):
                # member of an Enum class: an object with .name and .value
                ext_names = {b.split(".")[-1] for b in self.repo.external_bases(c)}
                try:
                    raw = self.ev(c.class_attrs[attr], {}, Frame(None, c.module, ("enum", c.fq, attr), cls=c, depth=fr.depth + 1))
                except _Dead:
                    raw = BOT
                if any(isinstance(x, Opaque) and x.what == "enum.auto" for x in raw.refs):
                    members = [a_ for a_ in c.class_attrs if not a_.startswith("_")]
                    raw = const(attr.lower()) if "StrEnum" in ext_names else const(members.index(attr) + 1)
                if "StrEnum" in ext_names or ("str" in ext_names and ext_names & {"Enum"}):
                    # members are strings: format, compare and index like their value; methods of the class stay callable on them
                    for v_ in raw.values():
                        if isinstance(v_, str):
                            self.strenum[v_] = (c, attr)
                    return raw
                member = self.node(("enum", c.fq, attr), lambda: Rec(("enum", c.fq, attr), c))
                if "value" not in member.fields:
                    member.fields["name"] = const(attr)
                    member.fields["value"] = BOT
                    self.grow_field(member, "value", raw)
                return ref(member)
                member = None
                if "value" not in member.fields:
                    member.fields["name"] = const(attr)
                    member.fields["value"] = BOT
                    try:
                        self.grow_field(member, "value", self.ev(c.class_attrs[attr], {}, Frame(None, c.module, ("enum", c.fq, attr), cls=c, depth=fr.depth + 1)))
                    except _Dead:
                        pass
                return ref(member)
            if attr in c.class_attrs:
                key = ("classattr", c.fq, attr)
                if key not in self._consts_memo:
                    self._consts_memo[key] = BOT
                    try:
                        self._consts_memo[key] = self.ev(c.class_attrs[attr], {}, Frame(None, c.module, ("classattr", c.fq, attr), cls=c, depth=fr.depth + 1))
                    except _Dead:
                        pass
                return self._consts_memo[key]
        return None

    def e_Attribute(self, e, env, fr):
        if isinstance(e.value, ast.Name) and isinstance(e.ctx, ast.Load) and f"{e.value.id}.{e.attr}" in env:
            return env[f"{e.value.id}.{e.attr}"]
        return self.attribute(self.ev(e.value, env, fr), e, env, fr)

    def attribute(self, base: AV, e: ast.Attribute, env: dict, fr: Frame) -> AV:
        """Value of `<base>.<e.attr>` (e is only used for the attribute name, its context and as allocation site)."""
        outs = []
        for n in base.refs:
            if isinstance(n, Rec):
                got = False
                if e.attr in n.fields:
                    outs.append(n.fields[e.attr])
                    got = True
                v = self.class_attr(n.cls, e.attr, fr, ref(n))
                if v is not None and not (got and e.attr in {a for c in self.repo.mro(n.cls) for a in c.ann_attrs}):
                    outs.append(v)
                    got = True
                if not got and e.attr in ("_replace", "_asdict"):
                    outs.append(self.lib("rec." + e.attr, ref(n)))
                    got = True
                if not got:
                    if e.attr == "args":
                        s = self.seq(fr, e, "tuple")
                        for a in n.args:
                            self.grow_elem(s, a)
                        outs.append(ref(s))
                    else:
                        outs.append(BOT if isinstance(e.ctx, ast.Load) and self._maybe_later(n, e.attr) else self.unknown_value(f"attribute {e.attr} of {n.cls.name}"))
            elif isinstance(n, Cls):
                v = self.class_attr(n.ci, e.attr, fr, None)
                outs.append(v if v is not None else self.unknown_value(f"class attribute {n.ci.name}.{e.attr}"))
            elif isinstance(n, Lib):
                outs.append(self.lib_attr(n, e.attr))
            elif isinstance(n, Opaque) and n.what.startswith("module:"):
                om = self.repo.modules.get(n.what[7:])
                v = self.module_value(om, e.attr, fr) if om is not None else None
                outs.append(v if v is not None else self.unknown_value(f"{n.what}.{e.attr}"))
            elif isinstance(n, Dict) and n.cls is not None and self.class_attr(n.cls, e.attr, fr, ref(n)) is not None:
                outs.append(self.class_attr(n.cls, e.attr, fr, ref(n)))
            elif isinstance(n, Super):
                mro = [c for sn in n.self_av.refs if isinstance(sn, (Rec, Cls)) for c in self.repo.mro(sn.cls if isinstance(sn, Rec) else sn.ci)]
                after = mro[mro.index(n.after) + 1 :] if n.after in mro else self.repo.mro(n.after)[1:]
                target = next((c.methods[e.attr] for c in after if e.attr in c.methods), None)
                if target is not None:
                    outs.append(ref(self.memo(("super", target.fq, n.key), lambda: Func(("super", target.fq, n.key), target, None if target.is_staticmethod else n.self_av))))
                elif e.attr in ("__init__", "__post_init__", "__init_subclass__", "__setattr__"):
                    outs.append(self.lib("builtins.object." + e.attr))
                else:
                    outs.append(self.unknown_value(f"super().{e.attr}"))
            elif isinstance(n, Match) and e.attr in ("lastgroup", "lastindex", "string", "re", "pos", "endpos"):
                if e.attr == "lastgroup":
                    try:
                        outs.append(consts([*re.compile(n.pattern.text, n.pattern.flags).groupindex, None]))
                    except re.error:
                        outs.append(TOPV)
                elif e.attr == "re":
                    outs.append(ref(n.pattern))
                else:
                    outs.append(TOPV)
            elif isinstance(n, Pattern):
                outs.append(const(n.text) if e.attr == "pattern" else const(n.flags) if e.attr == "flags" else self.lib("re.Pattern." + e.attr, ref(n)))
            else:
                outs.append(self.lib(f"{n.kind}.{e.attr}", replace(ref(n), src=base.src)))
        if base.consts or base.top:
            sc = AV(frozenset(c for c in base.consts if c.v is not None), base.top, base.prov)
            if base.maybe_none():
                self.raise_("builtins.AttributeError", "may" if (not sc.bottom or base.refs) else "op")
            owners = {self.strenum[v_][0].fq: self.strenum[v_][0] for v_ in sc.values() if isinstance(v_, str) and v_ in self.strenum} if sc.concrete else {}
            meth_owner = next((c_ for c_ in owners.values() if self.repo.lookup_method(c_, e.attr) is not None), None) if len(owners) == 1 and all(isinstance(v_, str) and v_ in self.strenum for v_ in sc.values()) else None
            if meth_owner is not None and not hasattr(str, e.attr):
                outs.append(self.class_attr(meth_owner, e.attr, fr, sc))
            elif not sc.bottom and e.attr == "name" and owners and all(v_ in self.strenum for v_ in sc.values()):
                outs.append(consts(self.strenum[v_][1] for v_ in sc.values()))
            elif not sc.bottom and e.attr == "value" and sc.concrete:
                outs.append(sc)  # member of an Enum class, approximated by its value
            elif not sc.bottom:
                outs.append(self.lib("scalar." + e.attr, sc))
            elif not base.refs:
                raise _Dead()
        return join(*outs)

    def _maybe_later(self, n: Rec, attr: str) -> bool:
        """A field that some method of the class stores: not yet written in this round of the fixpoint."""
        for c in self.repo.mro(n.cls):
            for m in c.methods.values():
                for x in ast.walk(m.node):
                    if isinstance(x, ast.Attribute) and x.attr == attr and isinstance(x.ctx, ast.Store):
                        return True
        return False

    def lib_attr(self, n: Lib, attr: str) -> AV:
        name = f"{n.name}.{attr}"
        if n.name == "re":
            v = getattr(re, attr, None)
            if isinstance(v, re.RegexFlag):
                return const(int(v))
        return self.lib(name, n.recv)

    # ------------------------------------------------------------------ calls
    def _clist_call(self, e: ast.Call, env: dict, fr: Frame) -> AV | None:
        """`name.append(x)` on a local list with known content."""
        if not (self.fold_lists and isinstance(e.func, ast.Attribute) and isinstance(e.func.value, ast.Name) and e.func.value.id in env):
            return None
        cur = env[e.func.value.id].single()
        if cur is None or not isinstance(cur.v, CList):
            return None
        name, meth = e.func.value.id, e.func.attr
        args = [self.ev(a, env, fr) for a in e.args]
        if meth == "append" and len(args) == 1 and args[0].single() is not None:
            env[name] = const(CList(cur.v + (args[0].single().v,)))
            return NONE
        if meth == "extend" and len(args) == 1 and args[0].single() is not None and isinstance(args[0].single().v, (tuple, list)):
            env[name] = const(CList(cur.v + tuple(args[0].single().v)))
            return NONE
        if meth in ("copy", "index", "count"):
            return None
        sq = self.seq(fr, e, "list", ("clist", name))
        self.grow_elem(sq, consts(cur.v) if cur.v else BOT)
        env[name] = ref(sq)
        return None

    def e_Call(self, e: ast.Call, env, fr):
        done = self._clist_call(e, env, fr)
        if done is not None:
            return done
        f = self.ev(e.func, env, fr)
        args: list[AV] = []
        star: list[bool] = []
        for a in e.args:
            if isinstance(a, ast.Starred):
                sv = self.ev(a.value, env, fr)
                fixed = self.unrolled(a.value, sv)
                if fixed is not None and len(fixed) <= 16:
                    args += fixed
                    star += [False] * len(fixed)
                    continue
                args.append(self.iterate(sv, None, fr, None))
                star.append(True)
            else:
                args.append(self.ev(a, env, fr))
                star.append(False)
        kwargs: dict[str, AV] = {}
        for k in e.keywords:
            v = self.ev(k.value, env, fr)
            if k.arg is None:
                for n in v.refs:
                    if isinstance(n, Dict) and n.fields:
                        for kk, vv in n.fields.items():
                            kwargs[str(kk)] = vv
            else:
                kwargs[k.arg] = v
        if isinstance(e.func, ast.Attribute) and isinstance(e.func.value, ast.Subscript) and e.func.attr in ("add", "update", "append", "extend", "union_update", "__ior__"):
            base = self.ev(e.func.value.value, env, fr)
            dicts = frozenset(nd for nd in base.refs if isinstance(nd, Dict))
            if dicts:
                k = self.ev(e.func.value.slice, env, fr)
                self.event("item-mutate", dicts, k, norm(e.func.value.slice), join(*args) if args else BOT, fr, e, detail=e.func.attr)
        return self.call_value(f, args, kwargs, fr, e, star=star, env=env)

    def call_value(self, f: AV, args: list[AV], kwargs: dict, fr: Frame, e: ast.AST, tag=None, star: list | None = None, env: dict | None = None) -> AV:
        outs = []
        for n in f.refs:
            if isinstance(n, Func):
                a = list(args)
                bound = n.self_av is not None
                if bound:
                    a = [n.self_av, *a]
                outs.append(self.call_function(n.fi, a, kwargs, fr, e, bound=bound, closure=n.closure, star=star, direct=bool(n.key) and n.key[0] == "super"))
            elif isinstance(n, Cls):
                outs.append(self.construct(n.ci, args, kwargs, fr, e, tag))
            elif isinstance(n, Lib):
                outs.append(self.call_lib(n, args, kwargs, fr, e, tag, star or [False] * len(args), env))
            elif isinstance(n, Rec) and self.repo.lookup_method(n.cls, "__call__") is not None:
                outs.append(self.call_function(self.repo.lookup_method(n.cls, "__call__"), [ref(n), *args], kwargs, fr, e, bound=True, star=star))
            elif isinstance(n, Super):
                outs.append(self.unknown_value("call of super object"))
            elif isinstance(n, OpCall):
                outs.append(self.call_opcall(n, args, fr, e, env))
            elif isinstance(n, Partial):
                outs.append(self.call_value(n.f, [*n.args, *args], {**n.kwargs, **kwargs}, fr, e, tag=("partial", n.key, tag), star=[False] * len(n.args) + list(star or [False] * len(args)), env=env))
            else:
                outs.append(self.unknown_value(f"call of {n.kind}", *args))
        if f.top or f.consts:
            outs.append(self.unknown_value("call of a non-callable / unknown value", *args))
        if not outs:
            return BOT
        return join(*outs)

    def call_opcall(self, n: OpCall, args: list[AV], fr: Frame, e: ast.AST, env: dict | None) -> AV:
        obj = args[0] if args else BOT
        if n.what == "itemgetter":
            got = [self.getitem(obj, k, fr, e, "<itemgetter>") for k in n.args]
            if len(got) == 1:
                return got[0]
            t = self.seq(fr, e, "tuple", ("itemgetter", n.key))
            t.items = [g.plain() for g in got]
            return ref(t)
        names = [a.single().v for a in n.args if a.single() is not None and isinstance(a.single().v, str)]
        if not names or len(names) != len(n.args if n.what == "attrgetter" else n.args[:1]):
            return self.unknown_value(f"operator.{n.what} with a non-constant name", obj)
        if n.what == "attrgetter":
            got = []
            for nm in names:
                cur = obj
                for part in nm.split("."):
                    cur = self.attribute(cur, ast.Attribute(value=ast.Constant(value=None), attr=part, ctx=ast.Load()), env or {}, fr)
                got.append(cur)
            if len(got) == 1:
                return got[0]
            t = self.seq(fr, e, "tuple", ("attrgetter", n.key))
            t.items = [g.plain() for g in got]
            return ref(t)
        meth = self.attribute(obj, ast.Attribute(value=ast.Constant(value=None), attr=names[0], ctx=ast.Load()), env or {}, fr)
        return self.call_value(meth, list(n.args[1:]), dict(n.kwargs), fr, e, tag=("methodcaller", n.key), env=env)

    def _construct_mapping(self, ci: ClassInfo, init, args: list[AV], kwargs: dict, fr: Frame, e: ast.AST) -> AV | None:
        """Instances of repo classes deriving from dict are dicts (with the class's __missing__ and methods)."""
        ext = self.repo.external_bases(ci)
        if any(b.split(".")[-1] in ("dict", "defaultdict", "OrderedDict", "UserDict", "Dict") for b in ext) and init is None:
            made = self.builtin("dict", args[1:] if any(b.split(".")[-1] == "defaultdict" for b in ext) else args, kwargs, fr, e, [False] * len(args))
            for o in made.refs:
                if isinstance(o, Dict):
                    o.cls = ci
                    if any(b.split(".")[-1] == "defaultdict" for b in ext) and args:
                        o.factory = args[0]
            return made
        return None

    def construct(self, ci: ClassInfo, args: list[AV], kwargs: dict, fr: Frame, e: ast.AST, tag=None) -> AV:
        init = self.repo.lookup_method(ci, "__init__")
        early = self._construct_mapping(ci, init, args, kwargs, fr, e)
        if early is not None:
            return early
        r = self.node((fr.ctx, id(e), tag, "rec", ci.fq), lambda: Rec((fr.ctx, id(e), tag, ci.fq), ci))
        r.args = [join(a, b) for a, b in itertools.zip_longest(r.args, args, fillvalue=BOT)]
        if init is not None:
            self.call_function(init, [ref(r), *args], kwargs, fr, e, bound=True)
            return ref(r)
        ext = self.repo.external_bases(ci)
        if any(b.endswith("TypedDict") for b in ext):
            d = self.dict_(fr, e, ("typeddict", ci.fq))
            if d.fields is None and d.k.bottom:
                d.fields = {}
            for k, a in kwargs.items():
                self.grow_dict(d, const(k), a)
            for a in args:
                for o in a.refs:
                    if isinstance(o, Dict):
                        if o.fields:
                            for k, v in o.fields.items():
                                self.grow_dict(d, const(k), v)
                        else:
                            self.copy_dict(d, o)
            return ref(d)
        names = [a for c in reversed(self.repo.mro(ci)) for a in c.ann_attrs]
        is_record = any(c.is_dataclass for c in self.repo.mro(ci)) or any(b.endswith("NamedTuple") for b in ext)
        if is_record or names:
            given = set()
            for nme, a in zip(names, args):
                self.grow_field(r, nme, a)
                given.add(nme)
            for k, a in kwargs.items():
                self.grow_field(r, k, a)
                given.add(k)
            for nme in names:
                if nme not in given:
                    d = self.class_attr(ci, nme, fr, None)
                    if d is not None:
                        self.grow_field(r, nme, d)
            post = self.repo.lookup_method(ci, "__post_init__")
            if post is not None:
                initvars = [nme for c in reversed(self.repo.mro(ci)) for nme, ann in c.ann_attrs.items() if "InitVar" in ast.unparse(ann)]
                self.call_function(post, [ref(r), *[r.fields.get(nme, BOT) for nme in initvars]], {}, fr, e, bound=True)
        return ref(r)

    def call_function(self, fi: FuncInfo, args: list[AV], kwargs: dict, fr: Frame, e: ast.AST, bound: bool = False, closure: dict | None = None, star: list | None = None, direct: bool = False) -> AV:
        if fr.depth > MAXDEPTH:
            return self.unknown_value(f"call depth exceeded at {fi.qualname}", *args)
        if fi.fq in self._stack:
            # recursion: use what the function is known to return so far (the rounds of the global fixpoint complete it)
            self.rec_funcs.add(fi.fq)
            for p, v in zip(fi.param_names, args):
                key = (fi.fq, p)
                new = join(self.rec_params.get(key, BOT), v.plain())
                if new != self.rec_params.get(key):
                    self.rec_params[key] = new
                    self.version += 1
            summary = self.rec_returns.get(fi.fq, BOT)
            if summary.bottom and not summary.prov:
                raise _Dead()
            return summary
        if "singledispatch" in fi.decorators or "singledispatchmethod" in fi.decorators:
            impls = [g for g in fi.module.all_funcs if f"{fi.name}.register" in g.decorators and g is not fi]
            if impls and not direct:
                outs = []
                idx = 1 if bound else 0
                rest = args[idx] if len(args) > idx else BOT
                for g in impls:
                    ps = g.params
                    ann = ps[idx].annotation if len(ps) > idx else None
                    cls_av = None
                    if ann is not None:
                        try:
                            cls_av = self.ev(ann, {}, Frame(None, g.module, ("ann", g.fq), depth=fr.depth + 1)) if not isinstance(ann, ast.Constant) else self.ev(ast.parse(ann.value, mode="eval").body, {}, Frame(None, g.module, ("ann", g.fq), depth=fr.depth + 1))
                        except (_Dead, SyntaxError):
                            cls_av = None
                    for d in g.node.decorator_list:
                        if isinstance(d, ast.Call) and d.args:
                            try:
                                cls_av = self.ev(d.args[0], {}, Frame(None, g.module, ("ann", g.fq), depth=fr.depth + 1))
                            except _Dead:
                                pass
                    a2 = list(args)
                    if cls_av is not None and len(a2) > idx:
                        yes, rest = self.of_class(rest, cls_av)
                        if yes.bottom:
                            continue
                        a2[idx] = yes
                    try:
                        outs.append(self.call_function(g, a2, kwargs, fr, e, bound, closure, star, direct=True))
                    except _Dead:
                        pass
                if not rest.bottom or not outs:
                    a2 = list(args)
                    if len(a2) > idx:
                        a2[idx] = rest if not rest.bottom else a2[idx]
                    try:
                        outs.append(self.call_function(fi, a2, kwargs, fr, e, bound, closure, star, direct=True))
                    except _Dead:
                        if not outs:
                            raise
                return join(*outs)
        if fi.is_abstract and not direct:
            impls = [m for m in self.repo.implementations(fi.cls, fi.name) if not m.is_abstract] if fi.cls is not None else []
            if not impls:
                return self.unknown_value(f"abstract {fi.qualname}", *args)
            return join(*[self.call_function(m, args, kwargs, fr, e, bound, closure, star) for m in impls])
        self.called.add(fi.fq)
        node = fi.node
        a = node.args
        env: dict[str, AV] = dict(closure) if closure else {}
        pos = [p.arg for p in [*a.posonlyargs, *a.args]]
        nfr = Frame(fi, fi.module, fr.ctx + (id(e),), cls=fi.cls, depth=fr.depth + 1)
        if star and any(star):
            anyv = join(*args[1 if bound else 0 :]) if len(args) > (1 if bound else 0) else BOT
            for i, p in enumerate(pos):
                env[p] = args[0] if (bound and i == 0) else anyv
        else:
            for p, v in zip(pos, args):
                env[p] = v
            if len(args) > len(pos) and a.vararg is not None:
                s = Seq((nfr.ctx, "vararg"), "tuple", [x.plain() for x in args[len(pos) :]])
                env[a.vararg.arg] = ref(s)
            elif a.vararg is not None:
                env[a.vararg.arg] = const(())
        extra_kw = {}
        for k, v in kwargs.items():
            if k in pos or k in [p.arg for p in a.kwonlyargs]:
                env[k] = v
            else:
                extra_kw[k] = v
        if a.kwarg is not None:
            kd = self.node((nfr.ctx, "kwargs", "dict"), lambda: Dict((nfr.ctx, "kwargs")))
            if kd.fields is None and kd.k.bottom:
                kd.fields = {}
            for k, v in extra_kw.items():
                self.grow_dict(kd, const(k), v)
            env[a.kwarg.arg] = ref(kd)
        defaults = list(zip(pos[len(pos) - len(a.defaults) :], a.defaults)) + [(p.arg, d) for p, d in zip(a.kwonlyargs, a.kw_defaults) if d is not None]
        for p, d in defaults:
            if p not in env:
                try:
                    env[p] = self.ev(d, {}, Frame(None, fi.module, ("default", fi.fq, p), depth=fr.depth + 1))
                except _Dead:
                    env[p] = BOT
        for p in [*pos, *[x.arg for x in a.kwonlyargs]]:
            env.setdefault(p, BOT)
            if (fi.fq, p) in self.rec_params:
                env[p] = join(env[p], self.rec_params[(fi.fq, p)])
        if isinstance(node, ast.Lambda):
            try:
                return self.ev(node.body, env, nfr)
            except _Dead:
                raise
        is_gen = any(isinstance(x, (ast.Yield, ast.YieldFrom)) for x in _own(node))
        if is_gen:
            nfr.gen = self.seq(nfr, node, "iter", "gen")
        self._stack.append(fi.fq)
        try:
            out = self.block(node.body, env, nfr)
        finally:
            self._stack.pop()
        if is_gen:
            if out is None and not nfr.completed:
                raise _Dead()  # the body always raises: so does iterating the generator
            if "contextmanager" in fi.decorators:
                return nfr.gen.elem  # `with cm() as x`: x is what the generator yields
            return ref(nfr.gen)
        if out is not None:
            nfr.returns = join(nfr.returns, NONE)
            nfr.completed = True
        if fi.fq in self.rec_funcs and nfr.completed:
            new = join(self.rec_returns.get(fi.fq, BOT), nfr.returns)
            if new != self.rec_returns.get(fi.fq):
                self.rec_returns[fi.fq] = new
                self.version += 1
        if not nfr.completed:
            raise _Dead()
        return nfr.returns

    # ------------------------------------------------------------------ library transfer functions
    def pattern_of(self, av: AV, flags: AV | None, fr: Frame, e: ast.AST) -> list[Pattern]:
        out = []
        for n in av.refs:
            if isinstance(n, Pattern):
                out.append(n)
        fl = 0
        if flags is not None:
            sv = flags.single()
            if sv is None or not isinstance(sv.v, int):
                if av.consts:
                    self.unknown_value("regex flags not constant")
                fl = None
            else:
                fl = int(sv.v)
        for c in av.consts:
            if isinstance(c.v, str) and fl is not None:
                key = ("pattern", c.v, fl)
                out.append(self.node(key, lambda c=c, fl=fl: Pattern(("pattern", c.v, fl), c.v, fl)))
        if av.top or (not out and not av.bottom):
            self.unknown_value("pattern text not constant")
            if self.recording:
                self.lost_patterns.append(norm(e, 80))
        for p in out:
            self.patterns[p.key] = p
        return out

    def regex_call(self, how: str, pats: list[Pattern], subject: AV, fr: Frame, e: ast.AST, span: list[AV] | None = None, repl: AV | None = None) -> AV:
        outs = []
        span = span or []
        for p in pats:
            if self.recording:
                key = (fr.ctx, id(e), p.key)
                old = self.sites.get(key)
                # `pattern.search(text, pos)` with a moving start position is a hand-written finditer
                site_how = "finditer" if how == "search" and span else how
                self.clock += 1
                st = Site(p, join(old.subject, subject) if old else subject, site_how, fr.fi, e, old.calls if old else set(), old.when if old and old.round == self.round else self.clock)
                st.round = self.round
                st.calls.add((subject.consts, tuple(x.consts for x in span)))
                self.sites[key] = st
            if how in ("search", "match", "fullmatch") and subject.concrete and all(x.concrete and len(x.consts) == 1 for x in span):
                vals = []
                for s_ in subject.values():
                    try:
                        vals.append(getattr(re.compile(p.text, p.flags), how)(s_, *[x.values()[0] for x in span]))
                    except OP_ERRORS as exc:
                        self.op_failed(exc)
                outs.append(consts(vals))
                continue
            m = self.node(("match", fr.ctx, id(e), p.key), lambda p=p: Match(("match", fr.ctx, id(e), p.key), p))
            if how in ("search", "match", "fullmatch"):
                outs.append(join(ref(m), NONE))
            elif how == "finditer":
                s = self.seq(fr, e, "iter", ("finditer", p.key))
                self.grow_elem(s, ref(m))
                outs.append(ref(s))
            elif how == "findall":
                s = self.seq(fr, e, "list", ("findall", p.key))
                try:
                    ng = re.compile(p.text, p.flags).groups
                except re.error:
                    ng = 0
                if ng <= 1:
                    self.grow_elem(s, replace(self.group_value(m, 1 if ng else 0), consts=frozenset()))
                else:
                    t = self.seq(fr, e, "tuple", ("findall-t", p.key))
                    t.items = [replace(self.group_value(m, i + 1), consts=frozenset()) for i in range(ng)]
                    self.grow_elem(s, ref(t))
                outs.append(ref(s))
            elif how in ("sub", "subn"):
                res_ = top(subject.prov | {("m", p.key)})
                if repl is not None and any(isinstance(x, (Func, Partial, OpCall, Rec)) for x in repl.refs):
                    # a callable replacement sees every match (sometimes used to collect matches)
                    res_ = join(res_, replace(self.call_value(repl, [ref(m)], {}, fr, e, tag=("sub-callback", p.key)), consts=frozenset()))
                outs.append(res_)
            elif how == "split":
                s = self.seq(fr, e, "list", ("split", p.key))
                self.grow_elem(s, top(subject.prov))
                outs.append(ref(s))
        return join(*outs)

    @staticmethod
    def as_const(av: AV) -> AV:
        """A list / tuple display whose items are all known constants, as a constant tuple."""
        if len(av.refs) == 1 and not av.consts and not av.top:
            n = next(iter(av.refs))
            if isinstance(n, Seq) and n.items is not None and n._elem.bottom and n.kind in ("list", "tuple", "iter") and all(i.concrete for i in n.items):
                k = 1
                for i in n.items:
                    k *= len(i.consts)
                if k <= MAXC:
                    return consts(tuple(c) for c in itertools.product(*[i.values() for i in n.items]))
        return av

    def fold_scalar(self, recv: AV, meth: str, args: list[AV], kwargs: dict) -> AV | None:
        """Result of a pure str / tuple / match method when receiver and arguments are known constants, else None."""
        args = [self.as_const(a) for a in args]
        kwargs = {k: self.as_const(v) for k, v in kwargs.items()}
        if not recv.concrete or not all(a.concrete for a in args) or not all(a.concrete for a in kwargs.values()):
            return None
        n = len(recv.consts)
        for a in [*args, *kwargs.values()]:
            n *= len(a.consts)
        if n > 64:
            return None
        vals = []
        keys = list(kwargs)
        for r in recv.values():
            ok = (isinstance(r, str) and meth in STR_METHODS_STR | STR_METHODS_BOOL | STR_METHODS_INT | STR_METHODS_INT_RAISE | STR_METHODS_SEQ | STR_METHODS_TUPLE) or (isinstance(r, tuple) and meth in ("index", "count")) or (isinstance(r, re.Match) and meth in ("group", "groups", "groupdict", "start", "end", "span")) or (isinstance(r, int) and meth in ("bit_length",))
            if not ok or meth in ("encode", "decode", "translate", "format_map"):
                return None
            for combo in itertools.product(*[a.values() for a in args], *[kwargs[k].values() for k in keys]):
                pa = combo[: len(args)]
                ka = dict(zip(keys, combo[len(args) :]))
                try:
                    v = getattr(r, meth)(*pa, **ka)
                except OP_ERRORS as exc:
                    if n == 1:
                        self.op_failed(exc)
                    self.raise_("builtins." + type(exc).__name__, "may")
                    continue
                if isinstance(v, list):
                    v = tuple(v)
                if isinstance(v, dict):
                    return None
                vals.append(v)
        return consts(vals)

    def call_lib(self, n: Lib, args: list[AV], kwargs: dict, fr: Frame, e: ast.AST, tag, star: list, env: dict | None) -> AV:
        name = n.name
        recv = n.recv
        arg_exprs = list(getattr(e, "args", []))
        a0 = args[0] if args else BOT
        # ---------------------------------------------------------------- re
        if name in ("re.compile",):
            pats = self.pattern_of(a0, args[1] if len(args) > 1 else kwargs.get("flags"), fr, e)
            return join(*[ref(p) for p in pats]) if pats else self.unknown_value("re.compile of a non-constant pattern", a0)
        if name in ("re.search", "re.match", "re.fullmatch", "re.finditer", "re.findall", "re.split", "re.sub", "re.subn"):
            how = name[3:]
            si = 2 if how in ("sub", "subn") else 1
            flags = kwargs.get("flags") or (args[si + 1] if len(args) > si + 1 and how not in ("sub", "subn", "split") else None)
            pats = self.pattern_of(a0, flags, fr, e)
            subj = args[si] if len(args) > si else kwargs.get("string", BOT)
            return self.regex_call(how, pats, subj, fr, e, None, args[1] if how in ("sub", "subn") and len(args) > 1 else None) if pats else self.unknown_value(name + " with a non-constant pattern", *args)
        if name == "re.escape":
            if a0.concrete:
                return consts(re.escape(v) for v in a0.values())
            return top(a0.prov)
        if recv is None and args and name.count(".") >= 1:
            owner, _, meth0 = name.rpartition(".")
            target = None
            if owner == "re.Match" and any(isinstance(x, Match) for x in a0.refs):
                target = "match." + meth0
            elif owner == "re.Pattern" and any(isinstance(x, Pattern) for x in a0.refs):
                target = "re.Pattern." + meth0
            elif owner == "builtins.str" and (a0.consts or a0.top) and not a0.refs:
                target = "scalar." + meth0
            elif owner in ("builtins.dict", "builtins.set", "builtins.list", "builtins.frozenset") and a0.refs and name not in ("builtins.dict.fromkeys", "builtins.set.union", "builtins.frozenset.union"):
                kinds = {x.kind for x in a0.refs}
                if len(kinds) == 1 and next(iter(kinds)) in ("dict", "set", "list", "frozenset", "tuple"):
                    target = f"{next(iter(kinds))}.{meth0}"
            if target is not None:
                return self.call_lib(Lib(("unbound", target), target, a0), args[1:], kwargs, fr, e, tag, star[1:], env)
        if name.startswith("re.Pattern."):
            how = name[11:]
            pats = [x for x in recv.refs if isinstance(x, Pattern)]
            if how in ("search", "match", "fullmatch", "finditer", "findall", "split", "sub", "subn"):
                subj = args[1] if how in ("sub", "subn") and len(args) > 1 else a0
                span = list(args[1:3]) if how in ("search", "match", "fullmatch") else None
                return self.regex_call(how, pats, subj, fr, e, span, a0 if how in ("sub", "subn") else None)
            return self.unknown_value(name, *args)
        if name.startswith("match."):
            how = name[6:]
            ms = [x for x in recv.refs if isinstance(x, Match)]
            outs = []
            for m in ms:
                if how == "group":
                    if not args:
                        outs.append(replace(self.group_value(m, 0), consts=frozenset()))
                    elif len(args) == 1:
                        outs += [self.group_value(m, c.v) for c in a0.consts] or [self.group_value(m, None)]
                    else:
                        t = self.seq(fr, e, "tuple", ("groups", m.key))
                        t.items = [join(*[self.group_value(m, c.v) for c in a.consts]) if a.concrete else self.group_value(m, None) for a in args]
                        outs.append(ref(t))
                elif how == "groupdict":
                    d = self.dict_(fr, e, ("groupdict", m.key))
                    if d.fields is None and d.k.bottom:
                        d.fields = {}
                    try:
                        names = list(re.compile(m.pattern.text, m.pattern.flags).groupindex)
                    except re.error:
                        names = []
                    for g in names:
                        gv = self.group_value(m, g)
                        if a0.concrete or "default" in kwargs:
                            gv = join(replace(gv, consts=frozenset()), a0 if args else kwargs["default"])
                        self.grow_dict(d, const(g), gv)
                    outs.append(ref(d))
                elif how == "groups":
                    t = self.seq(fr, e, "tuple", ("groups", m.key))
                    try:
                        ng = re.compile(m.pattern.text, m.pattern.flags).groups
                    except re.error:
                        ng = 0
                    t.items = [self.group_value(m, i + 1) for i in range(ng)]
                    outs.append(ref(t))
                elif how == "expand":
                    tv = a0.single()
                    refs_ = re.findall(r"\\(\d+)|\\g<(\w+)>", tv.v) if tv is not None and isinstance(tv.v, str) else None
                    if refs_:
                        parts_ = [self.group_value(m, int(num) if num else (int(nm) if nm.isdigit() else nm)) for num, nm in refs_]
                        outs.append(replace(join(*parts_), consts=frozenset()))
                    else:
                        outs.append(replace(self.group_value(m, None), consts=frozenset()))
                elif how in ("start", "end"):
                    outs.append(TOPV)
                elif how == "span":
                    outs.append(TOPV)
                else:
                    outs.append(self.unknown_value(name, *args))
            return join(*outs)
        # ---------------------------------------------------------------- scalars (str / int / tuple constants, abstract strings)
        if name == "scalar.format_map" and recv.concrete and len(a0.refs) == 1 and isinstance(next(iter(a0.refs)), Dict):
            d0 = next(iter(a0.refs))
            if d0.fields and all(v.concrete and len(v.consts) == 1 for v in d0.fields.values()):
                mapping = {k: v.values()[0] for k, v in d0.fields.items()}
                try:
                    return consts(x.format_map(mapping) for x in recv.values())
                except OP_ERRORS as exc:
                    self.op_failed(exc)
        if name.startswith("scalar."):
            meth = name[7:]
            outs = []
            folded = self.fold_scalar(AV(recv.consts), meth, args, kwargs) if recv.consts else None
            if folded is not None:
                outs.append(folded)
            if recv.top or (recv.consts and folded is None):
                pv = set(recv.prov)
                for a in [*args, *kwargs.values()]:
                    pv |= self.flat_prov(a)
                if meth in STR_METHODS_BOOL:
                    outs.append(BOOL)
                elif meth in STR_METHODS_INT:
                    outs.append(TOPV)
                elif meth in STR_METHODS_INT_RAISE:
                    self.raise_("builtins.ValueError", "may")
                    outs.append(TOPV)
                elif meth in STR_METHODS_SEQ:
                    s = self.seq(fr, e, "list", "split")
                    self.grow_elem(s, top(recv.prov))
                    outs.append(ref(s))
                elif meth in STR_METHODS_TUPLE:
                    t = self.seq(fr, e, "tuple", "partition")
                    t.items = [top(recv.prov), top(recv.prov), top(recv.prov)]
                    outs.append(ref(t))
                elif meth in STR_METHODS_STR:
                    outs.append(top(pv))
                elif meth in ("group", "groups", "groupdict", "start", "end", "span"):
                    outs.append(TOPV)
                else:
                    outs.append(self.unknown_value(f"method {meth} of a scalar", recv, *args))
            return join(*outs)
        # ---------------------------------------------------------------- containers
        kind, _, meth = name.partition(".")
        if kind in ("list", "set", "frozenset", "tuple", "iter") and recv is not None:
            r = self.seq_method([x for x in recv.refs if isinstance(x, Seq)], meth, args, kwargs, fr, e, star)
            srcs = recv.src.union(*[a.src for a in args]) if meth in ("union", "copy", "intersection", "difference", "symmetric_difference", "__or__", "__add__") else frozenset()
            return replace(r, src=srcs) if srcs else r
        if kind == "dict" and recv is not None:
            return self.dict_method([x for x in recv.refs if isinstance(x, Dict)], meth, args, kwargs, fr, e, arg_exprs, env)
        if kind in ("keys", "values", "items", "pair") and recv is not None:
            s = self.seq(fr, e, "set" if kind != "values" else "list", "viewop")
            self.grow_elem(s, self.iterate(recv, None, fr, None))
            if meth in ("union", "__or__"):
                for a in args:
                    self.grow_elem(s, self.iterate(a, None, fr, None))
            if meth in ("isdisjoint", "__contains__"):
                return BOOL
            return ref(s)
        if kind == "file" and recv is not None:
            if meth in ("read",):
                return self.content
            if meth in ("readlines",):
                s = self.seq(fr, e, "list", "readlines")
                self.grow_elem(s, top(self.content.prov))
                return ref(s)
            if meth in ("__enter__",):
                return recv
            if meth in ("close", "__exit__"):
                return NONE
            return self.unknown_value(name)
        if kind == "opaque" and recv is not None:
            what = next((x.what for x in recv.refs if isinstance(x, Opaque)), "")
            if what == "path":
                if meth == "read_text":
                    return self.content
                if meth == "open":
                    return ref(self.node(("file",), lambda: File(("file",))))
                if meth in ("resolve", "absolute", "expanduser", "with_suffix"):
                    return recv
                if meth in ("exists", "is_file"):
                    return BOOL
            return self.unknown_value(f"method {meth} of {what or 'an unknown object'}", *args)
        if kind in ("rec", "func", "class", "pattern", "match", "node") and name not in ("rec._replace", "rec._asdict"):
            return self.unknown_value(f"method {name}", *args)
        # ---------------------------------------------------------------- builtins and friends
        if name.startswith("builtins."):
            return self.builtin(name[9:], args, kwargs, fr, e, star, env)
        if name in ("collections.defaultdict",):
            d = self.dict_(fr, e, "defaultdict")
            d.factory = a0 if args else None
            if len(args) > 1:
                for o in args[1].refs:
                    if isinstance(o, Dict):
                        self.copy_dict(d, o)
            return ref(d)
        if name == "collections.ChainMap":
            d = self.dict_(fr, e, "chainmap")
            for a in args:
                for o in a.refs:
                    if isinstance(o, Dict):
                        self.copy_dict(d, o)
            return ref(d)
        if name == "itertools.starmap":
            s_ = self.seq(fr, e, "iter", "starmap")
            el = self.iterate(args[1], None, fr, None) if len(args) > 1 else BOT
            for t in el.refs:
                if isinstance(t, Seq) and t.items is not None:
                    self.grow_elem(s_, self.call_value(a0, list(t.items), {}, fr, e, tag=("starmap", t.key)))
                elif isinstance(t, View) and t.kind == "pair":
                    self.grow_elem(s_, self.call_value(a0, [t.d.k, via(t.d.v)], {}, fr, e, tag=("starmap", t.key)))
                else:
                    self.grow_elem(s_, self.unknown_value("starmap over tuples of unknown length", ref(t)))
            for c in el.consts:
                if isinstance(c.v, tuple):
                    self.grow_elem(s_, self.call_value(a0, [const(x) for x in c.v], {}, fr, e, tag=("starmap", c)))
            return ref(s_)
        if name in ("itertools.zip_longest",):
            return self.builtin("zip", args, {}, fr, e, star, env)
        if name in ("itertools.islice", "itertools.takewhile", "itertools.dropwhile", "itertools.filterfalse", "itertools.tee", "itertools.cycle", "itertools.accumulate", "itertools.pairwise"):
            src_av = args[1] if name in ("itertools.takewhile", "itertools.dropwhile", "itertools.filterfalse") and len(args) > 1 else a0
            s_ = self.seq(fr, e, "iter", name)
            el = self.iterate(src_av, None, fr, None)
            if name == "itertools.tee":
                inner = self.seq(fr, e, "iter", "tee-inner")
                self.grow_elem(inner, el)
                t = self.seq(fr, e, "tuple", "tee")
                t.items = [ref(inner), ref(inner)]
                return ref(t)
            if name == "itertools.pairwise":
                t = self.seq(fr, e, "tuple", "pairwise")
                t.items = [el.plain(), el.plain()]
                self.grow_elem(s_, ref(t))
                return ref(s_)
            self.grow_elem(s_, el)
            return ref(s_)
        if name == "enum.auto":
            return ref(self.memo(("enum.auto",), lambda: Opaque(("enum.auto",), "enum.auto")))
        if name in ("functools.singledispatch", "functools.singledispatchmethod", "contextlib.contextmanager", "functools.total_ordering", "dataclasses.dataclass", "typing.final", "typing.overload", "abc.abstractmethod"):
            return a0 if args else self.lib("identity-decorator")
        if name in ("collections.OrderedDict",):
            return self.builtin("dict", args, kwargs, fr, e, star)
        if name in ("itertools.chain", "itertools.chain.from_iterable"):
            s = self.seq(fr, e, "iter", "chain")
            for a in args:
                el = self.iterate(a, None, fr, None)
                if name.endswith("from_iterable"):
                    el = self.iterate(el, None, fr, None)
                self.grow_elem(s, el)
            return ref(s)
        if name in ("operator.methodcaller", "operator.itemgetter", "operator.attrgetter"):
            oc = self.memo(("opcall", fr.ctx, id(e), name), lambda: OpCall((fr.ctx, id(e), name), name.rsplit(".", 1)[1], list(args), dict(kwargs)))
            oc.args, oc.kwargs = [join(p, q) for p, q in itertools.zip_longest(oc.args, args, fillvalue=BOT)], {k: join(oc.kwargs.get(k, BOT), v) for k, v in kwargs.items()}
            return ref(oc)
        if name == "itertools.groupby":
            keyf = args[1] if len(args) > 1 else kwargs.get("key")
            el = self.iterate(a0, None, fr, None)
            s = self.seq(fr, e, "iter", "groupby")
            if not (el.bottom and not el.prov):
                kv = self.call_value(keyf, [el], {}, fr, e, tag="groupby-key") if keyf is not None else el
                grp = self.seq(fr, e, "iter", "groupby-group")
                self.grow_elem(grp, el)
                pair = self.seq(fr, e, "tuple", "groupby-pair")
                # consecutive runs of equal keys: the keys are distinct iff the input is sorted (by a key that refines this one)
                is_sorted = bool(a0.refs) and all(isinstance(x, Seq) and x.sorted for x in a0.refs)
                pair.items = [replace(kv.plain(), uniq=("groupby", fr.ctx, id(e))) if is_sorted else kv.plain(), ref(grp)]
                self.grow_elem(s, ref(pair))
            return ref(s)
        if name == "functools.reduce" and len(args) >= 2 and self.unrolled(e, args[1]) is not None and (len(args) > 2 or self.unrolled(e, args[1])):
            items = self.unrolled(e, args[1])
            acc = args[2] if len(args) > 2 else items[0]
            for i, it in enumerate(items if len(args) > 2 else items[1:]):
                acc = self.call_value(a0, [acc, it], {}, fr, e, tag=("reduce", i))
            return acc
        if name == "functools.reduce":
            acc = args[2] if len(args) > 2 else BOT
            el = self.iterate(args[1], None, fr, None) if len(args) > 1 else BOT
            for _ in range(3):
                acc = join(acc, self.call_value(a0, [join(acc, el), el], {}, fr, e, tag=("reduce", _)))
            return acc
        if name in ("operator.or_", "operator.add", "operator.ior", "operator.iadd"):
            return self.binop(ast.BitOr() if "or" in name else ast.Add(), a0, args[1] if len(args) > 1 else BOT, fr, e)
        if name == "functools.partial":
            pt = self.memo(("partial", fr.ctx, id(e)), lambda: Partial((fr.ctx, id(e), "partial"), a0, list(args[1:]), dict(kwargs)))
            pt.f = join(pt.f, a0)
            pt.args = [join(p, q) for p, q in itertools.zip_longest(pt.args, args[1:], fillvalue=BOT)]
            pt.kwargs = {k: join(pt.kwargs.get(k, BOT), v) for k, v in {**pt.kwargs, **kwargs}.items()}
            return ref(pt)
        if name in ("functools.lru_cache", "functools.cache", "functools.wraps", "functools.cached_property"):
            return a0 if args and any(isinstance(x, Func) for x in a0.refs) else self.lib("identity-decorator")
        if name == "identity-decorator":
            return a0
        if name == "dataclasses.field":
            if "default" in kwargs:
                return kwargs["default"]
            if "default_factory" in kwargs:
                return self.call_value(kwargs["default_factory"], [], {}, fr, e, tag="default_factory")
            return BOT
        if name == "dataclasses.replace" or (name == "rec._replace" and recv is not None):
            base = recv if name == "rec._replace" else a0
            outs = []
            for r0 in base.refs:
                if isinstance(r0, Rec):
                    r1 = self.node((fr.ctx, id(e), "replace", r0.cls.fq), lambda r0=r0: Rec((fr.ctx, id(e), "replace", r0.cls.fq), r0.cls))
                    for f, v in r0.fields.items():
                        if f not in kwargs:
                            self.grow_field(r1, f, v)
                    for f, v in kwargs.items():
                        self.grow_field(r1, f, v)
                    outs.append(ref(r1))
            return join(*outs) if outs else self.unknown_value(name, *args)
        if name in ("dataclasses.astuple", "dataclasses.asdict") or (name in ("rec._asdict",) and recv is not None):
            base = recv if name.startswith("rec.") else a0
            outs = []
            for r0 in base.refs:
                if isinstance(r0, Rec):
                    names = self.record_fields(r0.cls)
                    if name.endswith("astuple"):
                        t = self.seq(fr, e, "tuple", ("astuple", r0.key))
                        t.items = [r0.fields.get(f, BOT) for f in names]
                        outs.append(ref(t))
                    else:
                        d = self.dict_(fr, e, ("asdict", r0.key))
                        d.fields = d.fields if d.fields is not None else {}
                        for f in names:
                            self.grow_dict(d, const(f), r0.fields.get(f, BOT))
                        outs.append(ref(d))
            return join(*outs) if outs else self.unknown_value(name, *args)
        if name in ("copy.deepcopy", "copy.copy"):
            return a0  # the copy holds what the original holds (aliasing over-approximates)
        if name in ("typing.cast",):
            return args[1] if len(args) > 1 else BOT
        if name in ("pathlib.Path", "pathlib.PurePath", "os.fspath", "os.path.abspath", "os.fsdecode"):
            return a0 if any(isinstance(x, Opaque) for x in a0.refs) else self.unknown_value(name, *args)
        return self.unknown_value(f"call of {name}", *args, *kwargs.values())

    def seq_method(self, seqs: list[Seq], meth: str, args: list[AV], kwargs: dict, fr: Frame, e: ast.AST, star: list) -> AV:
        a0 = args[0] if args else BOT
        outs = []
        for s in seqs:
            if meth in ("add", "append", "appendleft"):
                self.grow_elem(s, a0)
                outs.append(NONE)
            elif meth == "insert":
                self.grow_elem(s, args[1] if len(args) > 1 else BOT)
                outs.append(NONE)
            elif meth in ("update", "extend", "__ior__", "__iadd__"):
                for a, st in zip(args, star):
                    self.grow_elem(s, self.iterate(a, None, fr, None) if not st else self.iterate(a, None, fr, None))
                outs.append(NONE)
            elif meth in ("union", "__or__", "__add__", "symmetric_difference"):
                r = self.seq(fr, e, s.kind, "union")
                self.grow_elem(r, s.elem)
                for a in args:
                    self.grow_elem(r, self.iterate(a, None, fr, None))
                outs.append(ref(r))
            elif meth in ("intersection", "difference", "copy", "__sub__", "__and__"):
                r = self.seq(fr, e, s.kind, meth)
                self.grow_elem(r, s.elem)
                outs.append(ref(r))
            elif meth in ("pop", "popleft"):
                outs.append(s.elem)
            elif meth in ("discard", "remove", "clear", "sort", "reverse", "intersection_update", "difference_update"):
                outs.append(NONE)
            elif meth in ("issubset", "issuperset", "isdisjoint", "__contains__"):
                outs.append(BOOL)
            elif meth in ("index", "count", "__len__"):
                outs.append(TOPV)
            elif meth in ("__iter__",):
                outs.append(ref(s))
            else:
                outs.append(self.unknown_value(f"method {meth} of a {s.kind}", ref(s), *args))
        return join(*outs)

    def dict_method(self, ds: list[Dict], meth: str, args: list[AV], kwargs: dict, fr: Frame, e: ast.AST, arg_exprs: list, env: dict | None = None) -> AV:
        a0 = args[0] if args else BOT
        ktxt = norm(arg_exprs[0]) if arg_exprs else ""
        outs = []
        dset = frozenset(ds)
        for d in ds:
            if meth == "get":
                ck = a0.single()
                v = d.fields[ck.v] if d.fields is not None and ck is not None and ck.v in d.fields else via(d.v)
                dflt = args[1] if len(args) > 1 else kwargs.get("default", NONE)
                r = replace(join(v.plain(), dflt.plain()), src=frozenset((x, ktxt) for x in dset))
                if dflt == NONE:
                    r = replace(r, look=(dset, ktxt))
                outs.append(r)
            elif meth == "setdefault":
                dflt = args[1] if len(args) > 1 else NONE
                self.grow_dict(d, a0, dflt)
                self.event("setdefault", dset, a0, ktxt, dflt, fr, e)
                outs.append(replace(via(d.v), src=frozenset((x, ktxt) for x in dset)))
            elif meth in ("keys", "values", "items"):
                outs.append(ref(self.node((meth, d.key), lambda d=d: View((meth, d.key), d, meth))))
            elif meth == "update":
                for a in args:
                    for o in a.refs:
                        if isinstance(o, Dict):
                            self.copy_dict(d, o)
                        elif isinstance(o, Seq):
                            el = o.elem
                            for t in el.refs:
                                if isinstance(t, Seq) and t.items is not None and len(t.items) == 2:
                                    self.grow_dict(d, t.items[0], t.items[1])
                for k, v in kwargs.items():
                    self.grow_dict(d, const(k), v)
                disp = arg_exprs[0] if len(arg_exprs) == 1 and isinstance(arg_exprs[0], ast.Dict) and all(k is not None for k in arg_exprs[0].keys) and env is not None and not kwargs else None
                if disp is not None:
                    # d.update({k: v}) is d[k] = v
                    rec = self.recording
                    for kx, vx in zip(disp.keys, disp.values):
                        self.recording = False
                        try:
                            kav, vav = self.ev(kx, dict(env), fr), self.ev(vx, dict(env), fr)
                        except _Dead:
                            kav = vav = BOT
                        finally:
                            self.recording = rec
                        reads = self.reads_dict(vx, dset, norm(kx), env, fr)
                        self.event("assign", dset, kav, norm(kx), vav, fr, e if len(disp.keys) == 1 else kx, reads_same=reads, fresh_empty=self.is_fresh_empty(vx))
                else:
                    self.event("update", dset, BOT, "", a0, fr, e, detail="dict.update")
                outs.append(NONE)
            elif meth == "pop":
                if len(args) < 2:
                    self.raise_("builtins.KeyError", "may", ("absent", dset, ktxt))
                outs.append(replace(join(via(d.v), args[1] if len(args) > 1 else BOT), src=frozenset((x, ktxt) for x in dset)))
            elif meth == "popitem":
                t = self.seq(fr, e, "tuple", "popitem")
                t.items = [d.k, via(d.v)]
                outs.append(ref(t))
            elif meth == "copy":
                c = self.dict_(fr, e, "copy")
                self.copy_dict(c, d)
                c.factory = d.factory
                outs.append(ref(c))
            elif meth in ("clear",):
                outs.append(NONE)
            elif meth in ("__contains__",):
                outs.append(BOOL)
            else:
                outs.append(self.unknown_value(f"method {meth} of a dict", ref(d), *args))
        return join(*outs)

    def builtin(self, name: str, args: list[AV], kwargs: dict, fr: Frame, e: ast.AST, star: list, env: dict | None = None) -> AV:
        a0 = args[0] if args else BOT
        if name in ("set", "frozenset", "list", "tuple", "sorted", "reversed", "iter"):
            kind = {"sorted": "list", "reversed": "iter"}.get(name, name)
            if name == "tuple" and a0.concrete and all(isinstance(v, (tuple, str)) for v in a0.values()):
                return consts(tuple(v) for v in a0.values())
            s = self.seq(fr, e, kind, name)
            fixed = self.unrolled(e, a0) if name in ("tuple", "list", "iter", "reversed") and args else None
            if fixed is not None and len(fixed) <= 64 and s._elem.bottom:
                fixed = list(reversed(fixed)) if name == "reversed" else fixed
                s.items = [x.plain() for x in fixed] if s.items is None or len(s.items) != len(fixed) else [join(p, q.plain()) for p, q in zip(s.items, fixed)]
                return replace(ref(s), src=a0.src)
            if s.items is not None:
                self.grow_elem(s, join(*s.items))
                s.items = None
            for a in args[:1]:
                self.grow_elem(s, self.iterate(a, None, fr, None))
            s.sorted = name == "sorted"
            s.distinct = bool(a0.refs) and not a0.consts and not a0.top and all((isinstance(x, Seq) and (x.kind in ("set", "frozenset") or x.distinct)) or isinstance(x, Dict) or (isinstance(x, View) and x.kind == "keys") for x in a0.refs)
            return replace(ref(s), src=a0.src)
        if name == "dict":
            d = self.dict_(fr, e, "dict()")
            for o in a0.refs:
                if isinstance(o, Dict):
                    self.copy_dict(d, o)
                    d.factory = None
                elif isinstance(o, (Seq, View)):
                    el = self.iterate(ref(o), None, fr, None)
                    for t in el.refs:
                        if isinstance(t, Seq) and t.items is not None and len(t.items) == 2:
                            self.grow_dict(d, t.items[0], t.items[1])
                            self.event("ctor", frozenset({d}), t.items[0], "", t.items[1], fr, e, detail="dict(pairs)")
                        elif isinstance(t, View) and t.kind == "pair":
                            self.grow_dict(d, t.d.k, t.d.v)
                        else:
                            self.grow_dict(d, self.unknown_value("dict() of unknown pairs", ref(t)), BOT)
            for k, v in kwargs.items():
                self.grow_dict(d, const(k), v)
            return ref(d)
        if name == "len":
            if a0.concrete:
                try:
                    return consts(len(v) for v in a0.values())
                except OP_ERRORS as exc:
                    self.op_failed(exc)
            return TOPV
        if name in ("str", "repr"):
            if a0.concrete and all(isinstance(v, (str, int, bool, type(None), float)) for v in a0.values()):
                return consts((str if name == "str" else repr)(v) for v in a0.values())
            if not args:
                return const("")
            return top(self.flat_prov(a0))
        if name in ("int", "float", "abs"):
            if a0.concrete:
                try:
                    return consts(getattr(builtins, name)(v) for v in a0.values())
                except OP_ERRORS as exc:
                    self.op_failed(exc)
            if name != "abs":
                self.raise_("builtins.ValueError", "may")
            return TOPV
        if name == "bool":
            t, f = self.truth(a0)
            return consts(([True] if t else []) + ([False] if f else []))
        if name in ("max", "min"):
            vals = args if len(args) > 1 else [self.iterate(a0, None, fr, None)]
            if all(v.concrete for v in vals) and len(args) > 1 and not kwargs:
                try:
                    return consts(getattr(builtins, name)(*c) for c in itertools.product(*[v.values() for v in vals]))
                except OP_ERRORS as exc:
                    self.op_failed(exc)
            return join(*[v.plain() for v in vals], kwargs.get("default", BOT))
        if name in ("any", "all") and len(args) == 1 and not kwargs:
            el = self.iterate(a0, None, fr, None)
            nonempty = bool(a0.refs) and not a0.top and not a0.consts and all(isinstance(n, Seq) and n.items for n in a0.refs)
            if el.bottom and not el.prov:
                return const(name == "all")  # nothing to iterate over (in this round of the fixpoint)
            t, f = self.truth(el)
            if name == "any":
                return consts(([True] if t else []) + ([False] if f or not nonempty else []))
            return consts(([False] if f else []) + ([True] if t or not nonempty else []))
        if name in ("any", "all"):
            return BOOL
        if name == "sum":
            return TOPV
        if name in ("isinstance", "issubclass", "hasattr", "callable"):
            return BOOL
        if name == "enumerate":
            s = self.seq(fr, e, "iter", "enumerate")
            t = self.seq(fr, e, "tuple", "enumerate-pair")
            t.items = [TOPV, self.iterate(a0, None, fr, None)]
            self.grow_elem(s, ref(t))
            return ref(s)
        if name == "zip":
            s = self.seq(fr, e, "iter", "zip")
            t = self.seq(fr, e, "tuple", "zip-pair")
            t.items = [self.iterate(a, None, fr, None) for a in args]
            self.grow_elem(s, ref(t))
            return ref(s)
        if name == "map" and len(args) == 2 and self.unrolled(e, args[1]) is not None:
            s = self.seq(fr, e, "iter", "map")
            out = [self.call_value(a0, [x], {}, fr, e, tag=("map", i)).plain() for i, x in enumerate(self.unrolled(e, args[1]))]
            s.items = out if s.items is None or len(s.items) != len(out) else [join(a, b) for a, b in zip(s.items, out)]
            return ref(s)
        if name == "map":
            s = self.seq(fr, e, "iter", "map")
            els = [self.iterate(a, None, fr, None) for a in args[1:]]
            if all(not (x.bottom and not x.prov) for x in els) and els:
                self.grow_elem(s, self.call_value(a0, els, {}, fr, e, tag="map"))
            return ref(s)
        if name == "filter":
            s = self.seq(fr, e, "iter", "filter")
            el = self.iterate(args[1], None, fr, None) if len(args) > 1 else BOT
            if not el.bottom and any(isinstance(x, (Func, Lib, Cls)) for x in a0.refs):
                self.call_value(a0, [el], {}, fr, e, tag="filter")
            elif a0 == NONE:
                el = replace(el, consts=frozenset(c for c in el.consts if _truthy(c.v)))  # filter(None, xs) keeps the truthy items
            self.grow_elem(s, el)
            return ref(s)
        if name == "next":
            self.raise_("builtins.StopIteration", "may")
            return join(self.iterate(a0, None, fr, None), args[1] if len(args) > 1 else BOT)
        if name == "range":
            return TOPV if not all(a.concrete for a in args) else ref(self._range(fr, e, args))
        if name == "super":
            if fr.fi is not None and fr.cls is not None and env is not None and fr.fi.param_names and fr.fi.param_names[0] in env:
                sv = env[fr.fi.param_names[0]]
                return ref(self.memo(("superobj", fr.ctx, id(e), sv.plain()), lambda: Super((fr.ctx, id(e)), fr.cls, sv)))
            return self.unknown_value("super() outside a method")
        if name in ("object.__setattr__", "setattr") and len(args) == 3:
            nm = args[1].single()
            for nd in a0.refs:
                if isinstance(nd, Rec):
                    if nm is not None and isinstance(nm.v, str):
                        self.grow_field(nd, nm.v, args[2])
                    else:
                        for f in list(nd.fields) or ["?"]:
                            self.grow_field(nd, f, args[2])
            return NONE
        if name.startswith("object."):
            return NONE
        if name == "open":
            return ref(self.node(("file",), lambda: File(("file",))))
        if name in ("print", "id", "hash"):
            return NONE if name == "print" else TOPV
        if name == "getattr":
            sv = args[1].single() if len(args) > 1 else None
            if sv is not None and isinstance(sv.v, str):
                fake = ast.Attribute(value=ast.Constant(value=None), attr=sv.v, ctx=ast.Load())
                outs = []
                for nd in a0.refs:
                    if isinstance(nd, Rec) and sv.v in nd.fields:
                        outs.append(nd.fields[sv.v])
                if outs:
                    return join(*outs, args[2] if len(args) > 2 else BOT)
                del fake
            return self.unknown_value("getattr", *args)
        if name == "dict.fromkeys":
            d = self.dict_(fr, e, "fromkeys")
            self.grow_dict(d, self.iterate(a0, None, fr, None), args[1] if len(args) > 1 else NONE)
            return ref(d)
        if name in ("set.union", "frozenset.union"):
            s = self.seq(fr, e, "set", "set.union")
            for a in args:
                self.grow_elem(s, self.iterate(a, None, fr, None))
            return ref(s)
        if name in ("str.join",):
            return top(self.flat_prov(join(*args)))
        if name == "type":
            outs = [ref(self.node(("cls", nd.cls.fq), lambda nd=nd: Cls(("cls", nd.cls.fq), nd.cls))) for nd in a0.refs if isinstance(nd, Rec)]
            return join(*outs) if outs else self.unknown_value("type()", a0)
        if isinstance(getattr(builtins, name.split(".")[0], None), type) and issubclass(getattr(builtins, name.split(".")[0]), BaseException):
            return ref(self.memo(("excobj", fr.ctx, id(e), name), lambda: Opaque((fr.ctx, id(e)), "exc:builtins." + name)))
        return self.unknown_value(f"builtin {name}", *args, *kwargs.values())

    def _range(self, fr: Frame, e: ast.AST, args: list[AV]) -> Seq:
        s = self.seq(fr, e, "list", "range")
        try:
            vals = set()
            for combo in itertools.product(*[a.values() for a in args]):
                r = range(*combo)
                if len(r) > 64:
                    self.grow_elem(s, TOPV)
                    return s
                vals |= set(r)
            self.grow_elem(s, consts(vals) if vals else BOT)
        except OP_ERRORS:
            self.grow_elem(s, TOPV)
        return s

    # ------------------------------------------------------------------ entry
    def run(self, fi: FuncInfo, args: list[AV]) -> tuple[AV, bool]:
        """Interprets `fi(*args)` until the heap is stable.  Returns (returned value, some path returns normally)."""
        last = None
        for rnd in range(25):
            self.round = rnd
            self.clock = 0
            self.raised = []
            self._collectors = []
            before = self.version
            fr = Frame(None, fi.module, ("entry",))
            try:
                v = self.call_function(fi, args, {}, fr, fi.node, bound=bool(fi.cls is not None and not fi.is_staticmethod))
                last = (v, True)
            except _Dead:
                last = (BOT, False)
            if self.version == before:
                break
        else:
            self.unknown_value("the abstract heap does not stabilise")
        return last


def _truthy(v) -> bool:
    try:
        return bool(v)
    except Exception:  # noqa: BLE001
        return True


def _own(fn: ast.AST):
    stack = list(ast.iter_child_nodes(fn))
    while stack:
        n = stack.pop()
        yield n
        if isinstance(n, (ast.FunctionDef, ast.AsyncFunctionDef, ast.Lambda, ast.ClassDef)):
            continue
        stack.extend(ast.iter_child_nodes(n))
