"""C06.R6 - `PumlParser.parse` is history-free: the result of `parse(file)` is a function of the file alone.

A small flow-sensitive, interprocedural walker over the call tree of the public entry point (helpers are entered at their call
sites with the abstract values of the arguments; nothing is found by name).  It tracks *persistent locations* - places whose
content survives a call of `parse`:

    ("self", attr, ...)          attributes of the parser object (and of objects reachable from them)
    ("cls:<Class>", attr, ...)   class-level attributes (`cls.x`, `Class.x`, `type(self).x`, `self.x` when x only lives in a class body)
    ("glob:<module>", name, ...) module-level variables
    ("memo:<function>",)         the object returned by a `functools.cache` / `lru_cache` function (shared between calls)
    ("default:<function>", p)    a mutable default value of a parameter (created once)
    (... , "[]")                 the items of a container

and, along every path, the set of locations that were *re-initialised in this call* (bound to a value made in this call, or
`.clear()`ed) - a must-set, intersected where paths join.  Values carry the locations they may alias, the locations their
items may alias, and *dependence atoms* (parameters of `parse`, file reads, `("state", location)` for content read out of a
persistent location; a local assignment cuts the atoms of its right-hand side into one atom of the variable so that "the value
stored is a function of the key" can be asked).

Events: READ of a location (`full` = its content matters, else only the reference was followed) with whether it was
re-initialised in this call on every path reaching the read; WRITE of a location (rebinding / in-place mutation / clear) with
the dependence atoms of what is written and of the conditions it is written under.

Verdict: a READ of a location that is not re-initialised before it on some path is a VIOLATION when the call tree also contains a
*history-carrying* WRITE of a related location (same location, one inside the other) - a write whose value depends on the input,
or which accumulates (`append`, `+=`, `x = x + ..`).  What the next call reads is then what this call wrote.  Not history-carrying:

  * writes of input-independent values that are idempotent (`cls._PATTERN = re.compile(CONST)`, `CACHE["k"] = CONST`: lazily built
    constants, also under `if cls._PATTERN is None`);
  * a table that is only ever written by `table[k] = v` / `setdefault(k, v)` with `v` a function of `k` alone and only ever read
    through the same key variable (a memo table keyed by the complete input);
  * the implicit table of `functools.cache` / `lru_cache` (keyed by all arguments) - unless the cached *object* is mutated afterwards;
  * state that is written and never read (statistics), state that is read and never written in the call tree (configuration).
"""

from __future__ import annotations

import ast
from dataclasses import dataclass, field

from core.cfg import MUTATORS
from core.loader import AnalysisError, ClassInfo, FuncInfo, ModuleInfo, Repo, norm, own_nodes
from core.types import members

from .common import types_of

MAX_DEPTH = 24
MAX_STEPS = 60000
IDEMPOTENT = {"add", "update", "setdefault", "discard", "sort", "__setitem__"}
CONTENT_READING_MUTATORS = {"pop", "popitem", "remove", "popleft"}
ELEMENT_METHODS = {"get", "pop", "popitem", "setdefault", "__getitem__", "popleft"}
VIEW_METHODS = {"values", "items", "keys", "copy", "__iter__", "union", "intersection", "difference", "symmetric_difference"}
PASS_THROUGH_BUILTINS = {"list", "set", "dict", "tuple", "frozenset", "sorted", "iter", "reversed", "enumerate", "zip", "map", "filter", "next", "deepcopy", "copy", "chain", "from_iterable", "defaultdict", "OrderedDict", "deque", "Counter"}
MEMO_DECORATORS = {"cache", "lru_cache"}
MUTABLE_FACTORIES = {"dict", "list", "set", "defaultdict", "OrderedDict", "deque", "Counter", "bytearray"}


class _Dead(Exception):
    """The current path ends inside an expression (a callee that never returns normally)."""


class _Budget(Exception):
    pass


# ---------------------------------------------------------------------------------------------------------------- values
@dataclass(frozen=True)
class Val:
    al: frozenset = frozenset()  # persistent locations the value may be
    el: frozenset = frozenset()  # persistent locations its items / fields may be
    deps: frozenset = frozenset()  # dependence atoms
    fns: frozenset = frozenset()  # (FuncInfo, bound receiver Val | None)


EMPTY = Val()


def vjoin(*vs: Val) -> Val:
    vs = [v for v in vs if v is not None]
    if not vs:
        return EMPTY
    if len(vs) == 1:
        return vs[0]
    return Val(frozenset().union(*[v.al for v in vs]), frozenset().union(*[v.el for v in vs]), frozenset().union(*[v.deps for v in vs]), frozenset().union(*[v.fns for v in vs]))


def elems(v: Val) -> Val:
    """An item / iteration variable / field of `v`."""
    return Val(frozenset(p + ("[]",) for p in v.al) | v.el, frozenset(), v.deps, v.fns)


def holder(*vs: Val) -> Val:
    """A new container / object holding the given values."""
    j = vjoin(*vs)
    return Val(frozenset(), j.al, j.deps, j.fns)  # one level only: what the items of the items are is not tracked


def scalar(*vs: Val) -> Val:
    return Val(deps=frozenset().union(*[v.deps for v in vs]) if vs else frozenset())


def is_prefix(a: tuple, b: tuple) -> bool:
    return len(a) <= len(b) and b[: len(a)] == a


# ----------------------------------------------------------------------------------------------------------------- state
class PS:
    """State of one path: local variables of the current frame, the must-set of re-initialised locations, the may-alias map."""

    __slots__ = ("env", "fresh", "alias")

    def __init__(self, env: dict, fresh: set, alias: dict) -> None:
        self.env = env
        self.fresh = fresh
        self.alias = alias

    def fork(self) -> "PS":
        return PS(dict(self.env), set(self.fresh), dict(self.alias))

    def take(self, other: "PS") -> None:
        self.env, self.fresh, self.alias = other.env, other.fresh, other.alias

    def is_fresh(self, p: tuple) -> bool:
        return any(p[:i] in self.fresh for i in range(1, len(p) + 1))


def merge(states: list) -> "PS | None":
    live = [s for s in states if s is not None]
    if not live:
        return None
    if len(live) == 1:
        return live[0]
    env: dict = {}
    for k in set().union(*[set(s.env) for s in live]):
        if k == "$parent":
            env[k] = live[0].env[k]
            continue
        env[k] = vjoin(*[s.env[k] for s in live if k in s.env])
    fresh = set(live[0].fresh)
    for s in live[1:]:
        fresh = {p for p in fresh if s.is_fresh(p)} | {p for p in s.fresh if any(p[:i] in fresh for i in range(1, len(p) + 1))}
    alias: dict = {}
    for s in live:
        for k, v in s.alias.items():
            alias[k] = alias.get(k, frozenset()) | v
    return PS(env, fresh, alias)


@dataclass
class Read:
    path: tuple
    full: bool
    stale: bool
    fi: FuncInfo
    node: ast.AST
    key: frozenset | None = None  # dependence atoms of the key of a keyed lookup
    selfflow: bool = False  # read inside the right-hand side of a store to the same location


@dataclass
class Write:
    path: tuple
    kind: str  # rebind | mutate | clear
    idem: bool
    data: frozenset
    ctrl: frozenset
    fi: FuncInfo
    node: ast.AST
    how: str
    key: frozenset | None = None
    selfflow: bool = False


@dataclass
class Frame:
    fi: FuncInfo
    self_val: Val | None
    depth: int
    exits: list = field(default_factory=list)  # (PS, Val)
    yields: list = field(default_factory=list)
    loops: list = field(default_factory=list)
    ctrl: list = field(default_factory=list)
    globals: set = field(default_factory=set)
    nonlocals: set = field(default_factory=set)
    target: tuple = ()  # locations being stored to while their right-hand side is evaluated
    entry: bool = False


class _Loop:
    def __init__(self) -> None:
        self.breaks: list = []
        self.continues: list = []


# ---------------------------------------------------------------------------------------------------------------- walker
class Walker:
    def __init__(self, repo: Repo, owner: ClassInfo) -> None:
        self.repo = repo
        self.T = types_of(repo)
        self.owner = owner
        self.reads: dict = {}
        self.writes: dict = {}
        self.defs: dict = {}  # cut atom -> atoms of the right-hand sides
        self.stack: list[str] = []
        self.steps = 0
        self.notes: list[str] = []
        self.closures: dict = {}
        self.reinits: list[tuple] = []
        self.entered: set[str] = set()
        self._class_level: dict = {}

    # ------------------------------------------------------------------ locations
    def class_level_owner(self, ci: ClassInfo, attr: str) -> ClassInfo | None:
        """Class of the MRO whose body defines `attr`, provided no method assigns it through its first parameter."""
        key = (ci.fq, attr)
        if key in self._class_level:
            return self._class_level[key]
        found = None
        for c in self.repo.mro(ci):
            if attr in c.class_attrs and found is None:
                found = c
        if found is not None:
            for c in self.repo.mro(ci):
                for m in [*c.methods.values(), *c.extra_methods]:
                    if not m.params or m.is_classmethod or m.is_staticmethod:
                        continue
                    first = m.params[0].arg
                    for n in own_nodes(m.node):
                        tgts = n.targets if isinstance(n, ast.Assign) else [n.target] if isinstance(n, (ast.AnnAssign, ast.AugAssign)) else []
                        for t in tgts:
                            for el in t.elts if isinstance(t, (ast.Tuple, ast.List)) else [t]:
                                if isinstance(el, ast.Attribute) and isinstance(el.value, ast.Name) and el.value.id == first and el.attr == attr:
                                    found = None
        self._class_level[key] = found
        return found

    def attr_path(self, p: tuple, attr: str) -> tuple:
        if p == ("self",):
            c = self.class_level_owner(self.owner, attr)
            if c is not None:
                return (f"cls:{c.fq}", attr)
        elif len(p) == 1 and p[0].startswith("cls:"):
            ci = self.repo.classes.get(p[0][4:])
            if ci is not None:
                for c in self.repo.mro(ci):
                    if attr in c.class_attrs:
                        return (f"cls:{c.fq}", attr)
        return p + (attr,)

    def expand(self, ps: PS, paths) -> frozenset:
        out = set(paths)
        work = list(paths)
        while work:
            p = work.pop()
            for q in ps.alias.get(p, ()):
                if q not in out:
                    out.add(q)
                    work.append(q)
        return frozenset(out)

    # ------------------------------------------------------------------ events
    def read(self, p: tuple, full: bool, node: ast.AST, fr: Frame, ps: PS, key: frozenset | None = None) -> None:
        if len(p) < 2 and not p[0].startswith(("memo:", "default:")):
            return
        selfflow = any(is_prefix(t, p) or is_prefix(p, t) for t in fr.target)
        k = (id(node), p, full)
        r = self.reads.get(k)
        stale = not ps.is_fresh(p)
        if r is None:
            self.reads[k] = Read(p, full, stale, fr.fi, node, key, selfflow)
        else:
            r.stale = r.stale or stale
            r.selfflow = r.selfflow and selfflow
            if r.key != key:
                r.key = None

    def use(self, v: Val, node: ast.AST, fr: Frame, ps: PS, key: frozenset | None = None) -> None:
        for p in v.al:
            self.read(p, True, node, fr, ps, key)
        for p in v.el:
            self.read(p, True, node, fr, ps)

    def follow(self, v: Val, node: ast.AST, fr: Frame, ps: PS) -> None:
        for p in v.al:
            self.read(p, False, node, fr, ps)

    def ctrl_of(self, fr: Frame) -> frozenset:
        return frozenset().union(*fr.ctrl) if fr.ctrl else frozenset()

    def write(self, p: tuple, kind: str, idem: bool, data: frozenset, node: ast.AST, fr: Frame, how: str, key: frozenset | None = None) -> None:
        if len(p) < 2 and not p[0].startswith(("memo:", "default:")):
            return
        leaves = self.leaves(data)
        selfflow = any(a[0] == "state" and (is_prefix(a[1], p) or is_prefix(p, a[1])) for a in leaves)
        k = (id(node), p, kind)
        w = self.writes.get(k)
        if w is None:
            self.writes[k] = Write(p, kind, idem, data, self.ctrl_of(fr), fr.fi, node, how, key, selfflow)
        else:
            w.data |= data
            w.ctrl |= self.ctrl_of(fr)
            w.selfflow = w.selfflow or selfflow
            if w.key != key:
                w.key = None

    def leaves(self, atoms, stop: frozenset = frozenset()) -> frozenset:
        out: set = set()
        seen: set = set()
        work = list(atoms)
        while work:
            a = work.pop()
            if a in seen:
                continue
            seen.add(a)
            if a in stop or a[0] != "def":
                out.add(a)
            else:
                work.extend(self.defs.get(a, ()))
        return frozenset(out)

    def cut(self, fr: Frame, name: str, v: Val) -> Val:
        if not v.deps:
            return v
        atom = ("def", fr.fi.fq, name)
        if v.deps == {atom}:
            return v
        self.defs[atom] = self.defs.get(atom, frozenset()) | (v.deps - {atom})
        return Val(v.al, v.el, frozenset([atom]), v.fns)

    # ------------------------------------------------------------------ names
    def lookup(self, name: str, fr: Frame, ps: PS, node: ast.AST) -> Val:
        if name not in fr.globals:
            env = ps.env
            while env is not None:
                if name in env:
                    return env[name]
                env = env.get("$parent")
        return self.global_value(fr.fi.module, name, node, fr, ps)

    def global_value(self, mod: ModuleInfo, name: str, node: ast.AST, fr: Frame, ps: PS, depth: int = 0) -> Val:
        if name in mod.classes:
            return Val(al=frozenset([(f"cls:{mod.classes[name].fq}",)]))
        if name in mod.functions:
            return Val(fns=frozenset([(mod.functions[name], None)]))
        if name in mod.imports and name not in mod.constants:
            fq = self.repo._canonical(mod.imports[name])
            if fq in self.repo.classes:
                return Val(al=frozenset([(f"cls:{fq}",)]))
            m2, _, attr = fq.rpartition(".")
            om = self.repo.modules.get(m2)
            if om is not None and depth < 4:
                return self.global_value(om, attr, node, fr, ps, depth + 1)
            return EMPTY
        if name in mod.constants or name in fr.globals or self.assigned_global(mod, name):
            p = (f"glob:{mod.name}", name)
            self.read(p, False, node, fr, ps)
            return Val(al=self.expand(ps, [p]), deps=frozenset([("state", p)]))
        return EMPTY

    def assigned_global(self, mod: ModuleInfo, name: str) -> bool:
        cache = self.__dict__.setdefault("_glob_cache", {})
        if mod.name not in cache:
            names: set = set()
            for f in mod.all_funcs:
                for n in own_nodes(f.node):
                    if isinstance(n, ast.Global):
                        names |= set(n.names)
            cache[mod.name] = names
        return name in cache[mod.name]

    # ------------------------------------------------------------------ statements
    def block(self, stmts: list, fr: Frame, ps: PS) -> "PS | None":
        cur: PS | None = ps
        for s in stmts:
            if cur is None:
                return None
            try:
                cur = self.stmt(s, fr, cur)
            except _Dead:
                return None
        return cur

    def tick(self) -> None:
        self.steps += 1
        if self.steps > MAX_STEPS:
            raise _Budget()

    def stmt(self, s: ast.stmt, fr: Frame, ps: PS) -> "PS | None":
        self.tick()
        if isinstance(s, ast.Expr):
            self.ev(s.value, fr, ps)
            return ps
        if isinstance(s, ast.Assign):
            self.assign_stmt(s.targets, s.value, fr, ps, s)
            return ps
        if isinstance(s, ast.AnnAssign):
            if s.value is not None:
                self.assign_stmt([s.target], s.value, fr, ps, s)
            return ps
        if isinstance(s, ast.AugAssign):
            self.augassign(s, fr, ps)
            return ps
        if isinstance(s, ast.Return):
            v = self.ev(s.value, fr, ps) if s.value is not None else EMPTY
            if fr.entry:
                self.use(v, s, fr, ps)
            fr.exits.append((ps.fork(), v))
            return None
        if isinstance(s, ast.Raise):
            if s.exc is not None:
                self.use(self.ev(s.exc, fr, ps), s, fr, ps)
            if s.cause is not None:
                self.ev(s.cause, fr, ps)
            return None
        if isinstance(s, ast.If):
            t = self.ev(s.test, fr, ps)
            self.use(t, s.test, fr, ps)
            fr.ctrl.append(t.deps)
            try:
                a = self.block(s.body, fr, ps.fork())
                b = self.block(s.orelse, fr, ps.fork())
            finally:
                fr.ctrl.pop()
            return merge([a, b])
        if isinstance(s, (ast.For, ast.AsyncFor)):
            return self.do_for(s, fr, ps)
        if isinstance(s, ast.While):
            return self.do_while(s, fr, ps)
        if isinstance(s, ast.Try) or s.__class__.__name__ == "TryStar":
            before = ps.fork()
            body = self.block(s.body, fr, ps)
            if body is not None:
                body = self.block(s.orelse, fr, body)
            ends = [body]
            for h in s.handlers:
                hp = before.fork()
                if body is not None:
                    for k, v in body.alias.items():
                        hp.alias[k] = hp.alias.get(k, frozenset()) | v
                    for k, v in body.env.items():
                        if k != "$parent":
                            hp.env[k] = vjoin(hp.env.get(k), v) if k in hp.env else v
                if h.name:
                    hp.env[h.name] = EMPTY
                if h.type is not None:
                    self.ev(h.type, fr, hp)
                ends.append(self.block(h.body, fr, hp))
            out = merge(ends)
            if s.finalbody:
                if out is None:
                    self.block(s.finalbody, fr, before.fork())
                    return None
                return self.block(s.finalbody, fr, out)
            return out
        if isinstance(s, (ast.With, ast.AsyncWith)):
            for it in s.items:
                v = self.ev(it.context_expr, fr, ps)
                if it.optional_vars is not None:
                    self.bind(it.optional_vars, v, None, fr, ps, s)
            return self.block(s.body, fr, ps)
        if isinstance(s, (ast.FunctionDef, ast.AsyncFunctionDef)):
            f = getattr(s, "_func", None)
            if f is not None:
                self.closures[id(s)] = ps.env
                ps.env[s.name] = Val(fns=frozenset([(f, None)]))
            return ps
        if isinstance(s, ast.ClassDef):
            ps.env[s.name] = EMPTY
            return ps
        if isinstance(s, ast.Global):
            fr.globals |= set(s.names)
            return ps
        if isinstance(s, ast.Nonlocal):
            fr.nonlocals |= set(s.names)
            return ps
        if isinstance(s, ast.Delete):
            for t in s.targets:
                if isinstance(t, ast.Attribute):
                    bv = self.ev(t.value, fr, ps)
                    for p in bv.al:
                        q = self.attr_path(p, t.attr)
                        self.write(q, "rebind", True, frozenset(), s, fr, f"del {norm(t, 60)}")
                        ps.fresh.discard(q)
                elif isinstance(t, ast.Subscript):
                    bv = self.ev(t.value, fr, ps)
                    kv = self.ev(t.slice, fr, ps)
                    for p in bv.al:
                        self.write(p, "mutate", False, kv.deps, s, fr, f"del {norm(t, 60)}")
                elif isinstance(t, ast.Name):
                    ps.env.pop(t.id, None)
            return ps
        if isinstance(s, ast.Assert):
            self.use(self.ev(s.test, fr, ps), s.test, fr, ps)
            return ps
        if isinstance(s, ast.Break):
            if fr.loops:
                fr.loops[-1].breaks.append(ps.fork())
            return None
        if isinstance(s, ast.Continue):
            if fr.loops:
                fr.loops[-1].continues.append(ps.fork())
            return None
        if isinstance(s, ast.Match):
            subj = self.ev(s.subject, fr, ps)
            self.use(subj, s.subject, fr, ps)
            ends = []
            fr.ctrl.append(subj.deps)
            try:
                for c in s.cases:
                    cp = ps.fork()
                    for n in ast.walk(c.pattern):
                        for nm in [getattr(n, "name", None), getattr(n, "rest", None)]:
                            if isinstance(nm, str):
                                cp.env[nm] = vjoin(subj, elems(subj))
                    if c.guard is not None:
                        self.use(self.ev(c.guard, fr, cp), c.guard, fr, cp)
                    ends.append(self.block(c.body, fr, cp))
            finally:
                fr.ctrl.pop()
            ends.append(ps)
            return merge(ends)
        if isinstance(s, (ast.Import, ast.ImportFrom)):
            for a in s.names:
                ps.env[(a.asname or a.name).split(".")[0]] = EMPTY
            return ps
        return ps  # Pass and anything without effect on the question

    def do_for(self, s, fr: Frame, ps: PS) -> "PS | None":
        if isinstance(s.iter, (ast.Tuple, ast.List)) and 0 < len(s.iter.elts) <= 12 and not s.orelse and not any(isinstance(x, ast.Starred) for x in s.iter.elts) and not any(isinstance(n, (ast.Break, ast.Continue)) for n in ast.walk(s)):
            # a loop over a display (a table of steps): the body runs once per item, in order
            cur: PS | None = ps
            for x in s.iter.elts:
                if cur is None:
                    return None
                self.bind(s.target, self.ev(x, fr, cur), x, fr, cur, s)
                cur = self.block(s.body, fr, cur)
            return cur
        itv = self.ev(s.iter, fr, ps)
        self.use(itv, s.iter, fr, ps)
        loop = _Loop()
        fr.loops.append(loop)
        fr.ctrl.append(itv.deps)
        try:
            ends: list = []
            for _round in range(2):
                bp = ps.fork()
                self.bind(s.target, elems(itv), None, fr, bp, s)
                end = self.block(s.body, fr, bp)
                ends = [end, *loop.continues]
                loop.continues = []
                nxt = merge([ps, *ends])
                assert nxt is not None
                ps.take(nxt)
        finally:
            fr.loops.pop()
            fr.ctrl.pop()
        out = self.block(s.orelse, fr, ps) if s.orelse else ps
        return merge([out, *loop.breaks])

    def do_while(self, s: ast.While, fr: Frame, ps: PS) -> "PS | None":
        loop = _Loop()
        fr.loops.append(loop)
        forever = isinstance(s.test, ast.Constant) and bool(s.test.value)
        pushed = 0
        try:
            for _round in range(2):
                t = self.ev(s.test, fr, ps)
                self.use(t, s.test, fr, ps)
                fr.ctrl.append(t.deps)
                pushed += 1
                end = self.block(s.body, fr, ps.fork())
                ends = [end, *loop.continues]
                loop.continues = []
                nxt = merge([ps, *ends])
                assert nxt is not None
                ps.take(nxt)
        finally:
            fr.loops.pop()
            for _ in range(pushed):
                fr.ctrl.pop()
        if forever:
            return merge(list(loop.breaks))
        out = self.block(s.orelse, fr, ps) if s.orelse else ps
        return merge([out, *loop.breaks])

    # ------------------------------------------------------------------ stores
    def target_paths(self, t: ast.expr, fr: Frame, ps: PS) -> tuple:
        """Locations a store target denotes (evaluates the receiver)."""
        if isinstance(t, ast.Attribute):
            bv = self.ev(t.value, fr, ps)
            self.follow(bv, t, fr, ps)
            return tuple(self.attr_path(p, t.attr) for p in bv.al)
        if isinstance(t, ast.Subscript):
            bv = self.ev(t.value, fr, ps)
            self.follow(bv, t, fr, ps)
            return tuple(bv.al)
        if isinstance(t, ast.Name) and t.id in fr.globals:
            return ((f"glob:{fr.fi.module.name}", t.id),)
        return ()

    def assign_stmt(self, targets: list, value: ast.expr, fr: Frame, ps: PS, s: ast.stmt) -> None:
        tps: list = []
        for t in targets:
            for el in t.elts if isinstance(t, (ast.Tuple, ast.List)) else [t]:
                tps += list(self.target_paths(el.value if isinstance(el, ast.Starred) else el, fr, ps))
        old = fr.target
        fr.target = tuple(tps)
        try:
            v = self.ev(value, fr, ps)
        finally:
            fr.target = old
        for t in targets:
            self.bind(t, v, value, fr, ps, s)

    def bind(self, t: ast.expr, v: Val, value: ast.expr | None, fr: Frame, ps: PS, s: ast.AST) -> None:
        if isinstance(t, (ast.Tuple, ast.List)):
            if isinstance(value, (ast.Tuple, ast.List)) and len(value.elts) == len(t.elts) and not any(isinstance(e, ast.Starred) for e in [*value.elts, *t.elts]):
                # the parts were evaluated as one holder; evaluate them again one by one (no further effects: events are keyed by node)
                for te, ve in zip(t.elts, value.elts):
                    self.bind(te, self.ev(ve, fr, ps), ve, fr, ps, s)
                return
            for te in t.elts:
                self.bind(te.value if isinstance(te, ast.Starred) else te, elems(v), None, fr, ps, s)
            return
        if isinstance(t, ast.Name):
            if t.id in fr.globals:
                p = (f"glob:{fr.fi.module.name}", t.id)
                self.rebind([p], v, fr, ps, s, f"global {t.id} = ...")
                return
            v = self.cut(fr, t.id, v)
            if t.id in fr.nonlocals:
                env = ps.env.get("$parent")
                while env is not None:
                    if t.id in env:
                        env[t.id] = vjoin(env[t.id], v)
                        return
                    env = env.get("$parent")
            ps.env[t.id] = v
            return
        if isinstance(t, ast.Attribute):
            bv = self.ev(t.value, fr, ps)
            # (a store into a field of an object made in this call is no write to what the object's other fields hold)
            self.rebind([self.attr_path(p, t.attr) for p in bv.al], v, fr, ps, s, f"{norm(t, 60)} = ...")
            self.taint_root(t.value, v, fr, ps)
            return
        if isinstance(t, ast.Subscript):
            bv = self.ev(t.value, fr, ps)
            kv = self.ev(t.slice, fr, ps)
            self.use(kv, t.slice, fr, ps)
            for p in bv.al:
                self.write(p, "mutate", True, kv.deps | v.deps, s, fr, f"{norm(t, 60)} = ...", key=kv.deps)
                if v.al or v.el:
                    q = p + ("[]",)
                    ps.alias[q] = ps.alias.get(q, frozenset()) | v.al
            self.taint_root(t.value, Val(v.al, v.el, v.deps | kv.deps), fr, ps)
            return
        if isinstance(t, ast.Starred):
            self.bind(t.value, v, None, fr, ps, s)

    def taint_root(self, recv: ast.expr, v: Val, fr: Frame, ps: PS) -> None:
        """A local container / object (the root variable of the receiver expression) now holds `v`."""
        e = recv
        direct = isinstance(recv, ast.Name)
        while True:
            if isinstance(e, (ast.Attribute, ast.Subscript, ast.Starred)):
                e = e.value
            elif isinstance(e, ast.Call) and isinstance(e.func, ast.Attribute):
                e = e.func.value
            else:
                break
        if not isinstance(e, ast.Name) or e.id in fr.globals:
            return
        extra = v.deps | self.ctrl_of(fr)
        env = ps.env
        while env is not None:
            if e.id in env:
                o = env[e.id]
                deps = o.deps | extra
                nv = Val(o.al, o.el | v.al if direct else o.el, deps, o.fns)
                if nv != o:
                    env[e.id] = self.cut(fr, e.id, nv) if env is ps.env else nv
                return
            env = env.get("$parent")

    def rebind(self, paths: list, v: Val, fr: Frame, ps: PS, s: ast.AST, how: str) -> None:
        strong = len(paths) == 1
        for q in paths:
            self.write(q, "rebind", True, v.deps, s, fr, how)
            leaves = self.leaves(v.deps)
            selfflow = any(a[0] == "state" and (is_prefix(a[1], q) or is_prefix(q, a[1])) for a in leaves)
            if strong and not selfflow:
                for k in [k for k in ps.alias if is_prefix(q, k)]:
                    del ps.alias[k]
                for k in [k for k in ps.fresh if is_prefix(q, k)]:
                    ps.fresh.discard(k)
                if v.al:
                    ps.alias[q] = v.al
                if v.el:
                    ps.alias[q + ("[]",)] = v.el
                if all(ps.is_fresh(a) for a in v.al | v.el):
                    ps.fresh.add(q)
                    self.reinits.append((q, fr.fi, s))
            elif not strong:
                if v.al:
                    ps.alias[q] = ps.alias.get(q, frozenset()) | v.al

    def augassign(self, s: ast.AugAssign, fr: Frame, ps: PS) -> None:
        t = s.target
        tps = self.target_paths(t, fr, ps) if not isinstance(t, ast.Name) else ()
        old = fr.target
        fr.target = tuple(tps)
        try:
            v = self.ev(s.value, fr, ps)
        finally:
            fr.target = old
        self.use(v, s.value, fr, ps)
        if isinstance(t, ast.Name):
            cur = self.lookup(t.id, fr, ps, t)
            for p in cur.al:
                self.write(p, "mutate", False, v.deps, s, fr, f"{t.id} {type(s.op).__name__}= ... (in place)")
            if t.id in fr.globals:
                self.write((f"glob:{fr.fi.module.name}", t.id), "rebind", False, v.deps, s, fr, f"global {t.id} op= ...")
                return
            nv = Val(cur.al, cur.el | v.el | v.al, cur.deps | v.deps, cur.fns)
            ps.env[t.id] = self.cut(fr, t.id, nv)
            return
        if isinstance(t, ast.Attribute):
            for q in tps:
                self.write(q, "rebind", False, v.deps | frozenset([("state", q)]), s, fr, f"{norm(t, 60)} {type(s.op).__name__}= ...")
            self.taint_root(t.value, v, fr, ps)
            return
        if isinstance(t, ast.Subscript):
            kv = self.ev(t.slice, fr, ps)
            for p in tps:
                self.write(p, "mutate", False, v.deps | kv.deps, s, fr, f"{norm(t, 60)} op= ...")
            self.taint_root(t.value, Val(v.al, v.el, v.deps | kv.deps), fr, ps)

    # ------------------------------------------------------------------ expressions
    def ev(self, e: ast.expr | None, fr: Frame, ps: PS) -> Val:
        if e is None:
            return EMPTY
        self.tick()
        m = getattr(self, "e_" + type(e).__name__, None)
        if m is None:
            vs = [self.ev(c, fr, ps) for c in ast.iter_child_nodes(e) if isinstance(c, ast.expr)]
            for v in vs:
                self.use(v, e, fr, ps)
            return scalar(*vs)
        return m(e, fr, ps)

    def e_Constant(self, e, fr, ps):
        return EMPTY

    def e_Name(self, e, fr, ps):
        return self.lookup(e.id, fr, ps, e)

    def e_NamedExpr(self, e, fr, ps):
        v = self.ev(e.value, fr, ps)
        self.bind(e.target, v, e.value, fr, ps, e)
        return v

    def _used(self, e, fr, ps, parts) -> Val:
        vs = [self.ev(p, fr, ps) for p in parts]
        for p, v in zip(parts, vs):
            self.use(v, p, fr, ps)
        return scalar(*vs)

    def e_JoinedStr(self, e, fr, ps):
        return self._used(e, fr, ps, [v.value if isinstance(v, ast.FormattedValue) else v for v in e.values])

    def e_FormattedValue(self, e, fr, ps):
        return self._used(e, fr, ps, [e.value])

    def e_BinOp(self, e, fr, ps):
        return self._used(e, fr, ps, [e.left, e.right])

    def e_UnaryOp(self, e, fr, ps):
        return self._used(e, fr, ps, [e.operand])

    def e_Compare(self, e, fr, ps):
        left = self.ev(e.left, fr, ps)
        self.use(left, e.left, fr, ps)
        vs = [left]
        prev = left
        for op, c in zip(e.ops, e.comparators):
            cv = self.ev(c, fr, ps)
            self.use(cv, c, fr, ps, key=prev.deps if isinstance(op, (ast.In, ast.NotIn)) else None)
            vs.append(cv)
            prev = cv
        return scalar(*vs)

    def e_BoolOp(self, e, fr, ps):
        vs = []
        first = self.ev(e.values[0], fr, ps)
        self.use(first, e.values[0], fr, ps)
        vs.append(first)
        fr.ctrl.append(first.deps)
        try:
            sub = ps.fork()
            for x in e.values[1:]:
                v = self.ev(x, fr, sub)
                self.use(v, x, fr, sub)
                vs.append(v)
            m = merge([ps, sub])
            assert m is not None
            ps.take(m)
        finally:
            fr.ctrl.pop()
        return vjoin(*vs)

    def e_IfExp(self, e, fr, ps):
        t = self.ev(e.test, fr, ps)
        self.use(t, e.test, fr, ps)
        fr.ctrl.append(t.deps)
        try:
            a, b = ps.fork(), ps.fork()
            va = self.ev(e.body, fr, a)
            vb = self.ev(e.orelse, fr, b)
            m = merge([a, b])
            assert m is not None
            ps.take(m)
        finally:
            fr.ctrl.pop()
        j = vjoin(va, vb)
        return Val(j.al, j.el, j.deps | t.deps, j.fns)

    def _display(self, e, fr, ps):
        vs = []
        for x in e.elts:
            if isinstance(x, ast.Starred):
                v = self.ev(x.value, fr, ps)
                self.use(v, x, fr, ps)
                vs.append(elems(v))
            else:
                vs.append(self.ev(x, fr, ps))
        return holder(*vs)

    e_List = e_Set = e_Tuple = _display

    def e_Dict(self, e, fr, ps):
        vs = []
        for k, v in zip(e.keys, e.values):
            if k is None:
                d = self.ev(v, fr, ps)
                self.use(d, v, fr, ps)
                vs.append(elems(d))
            else:
                kv = self.ev(k, fr, ps)
                self.use(kv, k, fr, ps)
                vs.append(scalar(kv))
                vs.append(self.ev(v, fr, ps))
        return holder(*vs)

    def e_Starred(self, e, fr, ps):
        v = self.ev(e.value, fr, ps)
        self.use(v, e, fr, ps)
        return elems(v)

    def e_Await(self, e, fr, ps):
        return self.ev(e.value, fr, ps)

    def e_Yield(self, e, fr, ps):
        v = self.ev(e.value, fr, ps) if e.value is not None else EMPTY
        fr.yields.append(v)
        return EMPTY

    def e_YieldFrom(self, e, fr, ps):
        v = self.ev(e.value, fr, ps)
        self.use(v, e, fr, ps)
        fr.yields.append(elems(v))
        return EMPTY

    def e_Slice(self, e, fr, ps):
        return self._used(e, fr, ps, [x for x in (e.lower, e.upper, e.step) if x is not None])

    def e_Lambda(self, e, fr, ps):
        f = getattr(e, "_func", None)
        if f is None:
            return EMPTY
        self.closures[id(e)] = ps.env
        return Val(fns=frozenset([(f, None)]))

    def _comp(self, e, fr, ps, parts):
        sub = ps.fork()
        sub.env = {"$parent": ps.env}
        pushed = 0
        deps: set = set()
        try:
            for g in e.generators:
                itv = self.ev(g.iter, fr, sub)
                self.use(itv, g.iter, fr, sub)
                self.bind(g.target, elems(itv), None, fr, sub, g.iter)
                fr.ctrl.append(itv.deps)
                pushed += 1
                deps |= itv.deps
                for c in g.ifs:
                    cv = self.ev(c, fr, sub)
                    self.use(cv, c, fr, sub)
                    fr.ctrl.append(cv.deps)
                    pushed += 1
                    deps |= cv.deps
            vs = [self.ev(p, fr, sub) for p in parts]
        finally:
            for _ in range(pushed):
                fr.ctrl.pop()
        for k, v in sub.alias.items():
            ps.alias[k] = ps.alias.get(k, frozenset()) | v
        h = holder(*vs)
        return Val(h.al, h.el, h.deps | frozenset(deps), h.fns)

    def e_ListComp(self, e, fr, ps):
        return self._comp(e, fr, ps, [e.elt])

    e_SetComp = e_GeneratorExp = e_ListComp

    def e_DictComp(self, e, fr, ps):
        return self._comp(e, fr, ps, [e.key, e.value])

    def e_Subscript(self, e, fr, ps):
        bv = self.ev(e.value, fr, ps)
        kv = self.ev(e.slice, fr, ps)
        self.use(kv, e.slice, fr, ps)
        self.use(Val(al=bv.al), e, fr, ps, key=kv.deps)
        r = elems(bv)
        return Val(self.expand(ps, r.al), r.el, r.deps | kv.deps | frozenset(("state", p) for p in bv.al))

    # ---- attributes
    def e_Attribute(self, e, fr, ps):
        bv = self.ev(e.value, fr, ps)
        return self.attribute(bv, e.attr, e, fr, ps)

    def instance_classes(self, fr: Frame, e: ast.expr) -> list[ClassInfo]:
        try:
            t = self.T.expr(fr.fi, e)
        except Exception:  # noqa: BLE001 - the typer is advisory here
            return []
        return [self.repo.classes[m[1]] for m in members(t) if m[0] == "cls" and m[1] in self.repo.classes]

    def classes_of(self, fr: Frame, recv: ast.expr) -> list[ClassInfo]:
        try:
            t = self.T.expr(fr.fi, recv)
        except Exception:  # noqa: BLE001 - the typer is advisory here
            return []
        out = []
        for m in members(t):
            if m[0] in ("cls", "type") and m[1] in self.repo.classes:
                out.append(self.repo.classes[m[1]])
        return out

    def attribute(self, bv: Val, attr: str, e: ast.Attribute, fr: Frame, ps: PS) -> Val:
        self.follow(bv, e, fr, ps)
        # methods, properties
        meths: list[FuncInfo] = []
        for ci in self.classes_of(fr, e.value):
            m = self.repo.lookup_method(ci, attr)
            if m is not None and m not in meths:
                meths.append(m)
        if not meths and bv.al:
            for p in bv.al:
                if len(p) == 1 and p[0].startswith("cls:") and p[0][4:] in self.repo.classes:
                    m = self.repo.lookup_method(self.repo.classes[p[0][4:]], attr)
                    if m is not None:
                        meths.append(m)
                elif p == ("self",):
                    m = self.repo.lookup_method(self.owner, attr)
                    if m is not None:
                        meths.append(m)
        if meths:
            props = [m for m in meths if m.is_property or "cached_property" in m.decorators]
            if props:
                out = []
                for m in props:
                    r = self.call_fn(m, [bv], {}, fr, ps, e, recv=bv)
                    if "cached_property" in m.decorators:
                        r = Val(r.al | frozenset(self.attr_path(p, attr) for p in bv.al), r.el, r.deps, r.fns)
                    out.append(r)
                return vjoin(*out)
            return Val(fns=frozenset((m, bv) for m in meths), deps=bv.deps)
        if attr == "__class__":
            return Val(al=frozenset([(f"cls:{(fr.fi.cls or self.owner).fq}",)]))
        if attr == "__dict__":
            return bv
        paths = frozenset(self.attr_path(p, attr) for p in bv.al) | (bv.el if not bv.al else frozenset())
        return Val(self.expand(ps, paths), frozenset(), bv.deps | frozenset(("state", p) for p in paths))

    # ---- calls
    def e_Call(self, e: ast.Call, fr: Frame, ps: PS) -> Val:
        args: list[Val] = []
        star: list[Val] = []
        for a in e.args:
            if isinstance(a, ast.Starred):
                v = self.ev(a.value, fr, ps)
                self.use(v, a, fr, ps)
                star.append(elems(v))
            else:
                args.append(self.ev(a, fr, ps))
        kwargs: dict = {}
        for k in e.keywords:
            v = self.ev(k.value, fr, ps)
            if k.arg is None:
                self.use(v, k.value, fr, ps)
                star.append(elems(v))
            else:
                kwargs[k.arg] = v
        f = e.func
        if isinstance(f, ast.Attribute):
            rv = self.ev(f.value, fr, ps)
            return self.method_call(e, f, rv, args, kwargs, star, fr, ps)
        fv = self.ev(f, fr, ps)
        if fv.fns:
            return self.call_any(sorted(fv.fns, key=lambda t: t[0].fq), args, kwargs, star, fr, ps, e)
        cls_paths = [p for p in fv.al if len(p) == 1 and p[0].startswith("cls:")]
        if cls_paths:
            return self.construct(cls_paths, args, kwargs, star, fr, ps, e)
        # an object that is called: its class's __call__
        dunder = [m for m in (self.repo.lookup_method(ci, "__call__") for ci in self.instance_classes(fr, f)) if m is not None and not m.is_abstract]
        if dunder:
            return self.call_any([(m, fv) for m in dunder], args, kwargs, star, fr, ps, e)
        if isinstance(f, ast.Name):
            return self.builtin(f.id, e, args, kwargs, star, fr, ps)
        for v in [*args, *kwargs.values()]:
            self.use(v, e, fr, ps)
        return scalar(fv, *args, *kwargs.values(), *star)

    def call_any(self, fns: list, args, kwargs, star, fr: Frame, ps: PS, e: ast.AST) -> Val:
        """One of several possible callees runs: their effects on the path state are alternatives."""
        out, states = [], []
        for fn, b in fns:
            sub = ps.fork() if len(fns) > 1 else ps
            try:
                out.append(self.call_fn(fn, ([b] if b is not None and self.binds_receiver(fn) else []) + list(args), kwargs, fr, sub, e, recv=b, star=star))
                states.append(sub)
            except _Dead:
                continue
        if not states:
            raise _Dead()
        if len(fns) > 1:
            m = merge(states)
            assert m is not None
            ps.take(m)
        return vjoin(*out)

    @staticmethod
    def binds_receiver(fn: FuncInfo) -> bool:
        return fn.cls is not None and fn.outer is None and not fn.is_staticmethod

    def construct(self, cls_paths: list, args, kwargs, star, fr, ps, e) -> Val:
        out = [holder(*args, *kwargs.values(), *star)]
        for p in cls_paths:
            ci = self.repo.classes.get(p[0][4:])
            if ci is None:
                continue
            for name in ("__init__", "__post_init__"):
                m = self.repo.lookup_method(ci, name)
                if m is not None and not m.is_abstract:
                    this = holder(*args, *kwargs.values(), *star)
                    self.call_fn(m, [this] + (args if name == "__init__" else []), kwargs if name == "__init__" else {}, fr, ps, e, recv=this, star=star)
        return vjoin(*out)

    def invoke_callbacks(self, vals: list, others: list, fr, ps, e) -> Val:
        out = []
        for v in vals:
            for fn, b in v.fns:
                arg = vjoin(*[elems(o) for o in others]) if others else EMPTY
                n = len(fn.params) - (1 if b is not None and self.binds_receiver(fn) else 0)
                out.append(self.call_fn(fn, ([b] if b is not None and self.binds_receiver(fn) else []) + [arg] * n, {}, fr, ps, e, recv=b))
        return vjoin(*out) if out else EMPTY

    def builtin(self, name: str, e: ast.Call, args, kwargs, star, fr, ps) -> Val:
        allv = [*args, *kwargs.values(), *star]
        cbs = [v for v in allv if v.fns]
        data = [v for v in allv if not v.fns]
        cb = self.invoke_callbacks(cbs, data, fr, ps, e) if cbs else EMPTY
        if name in ("id", "isinstance", "issubclass", "callable", "hasattr"):
            return scalar(*allv)
        if name == "type" and len(args) == 1:
            return Val(al=frozenset([(f"cls:{(fr.fi.cls or self.owner).fq}",)])) if args[0].al else EMPTY
        if name == "super":
            return EMPTY
        if name == "getattr" and len(e.args) >= 2 and isinstance(e.args[1], ast.Constant) and isinstance(e.args[1].value, str):
            fake = ast.Attribute(value=e.args[0], attr=e.args[1].value, ctx=ast.Load())
            ast.copy_location(fake, e)
            return vjoin(self.attribute(args[0], e.args[1].value, fake, fr, ps), *args[2:])
        if name == "setattr" and len(e.args) == 3 and isinstance(e.args[1], ast.Constant) and isinstance(e.args[1].value, str):
            self.rebind([self.attr_path(p, e.args[1].value) for p in args[0].al], args[2], fr, ps, e, f"setattr({norm(e.args[0], 30)}, {e.args[1].value!r}, ...)")
            return EMPTY
        if name == "vars" and len(args) == 1:
            return args[0]
        if name == "open":
            return Val(deps=frozenset().union(*[v.deps for v in allv]) | frozenset([("io",)]))
        for v in data:
            self.use(v, e, fr, ps)
        if name in PASS_THROUGH_BUILTINS:
            return vjoin(holder(*[elems(v) for v in data]), holder(cb)) if data or cbs else EMPTY
        return scalar(*allv, cb)

    def method_call(self, e: ast.Call, f: ast.Attribute, rv: Val, args, kwargs, star, fr: Frame, ps: PS) -> Val:
        meth = f.attr
        # ---- repo methods
        callees: list[FuncInfo] = []
        how = ""
        try:
            callees, how = self.T.callees(fr.fi, e, byname_fallback=False)
        except Exception:  # noqa: BLE001
            callees, how = [], "unresolved"
        if isinstance(f.value, ast.Call) and isinstance(f.value.func, ast.Name) and f.value.func.id == "super" and fr.self_val is not None:
            rv = fr.self_val
        if not callees:
            av = self.attribute(rv, meth, f, fr, ps) if (rv.al and any(len(p) == 1 for p in rv.al)) else EMPTY
            if av.fns:
                callees = [fn for fn, _b in av.fns]
        if not callees and how in ("unresolved", "unknown") and (rv.al or rv.el) and meth not in MUTATORS and meth not in ELEMENT_METHODS and meth not in VIEW_METHODS:
            callees = [m for c in self.repo.classes.values() for n, m in c.methods.items() if n == meth]
            if callees:
                self.notes.append(f"`{norm(e, 60)}` in {fr.fi.qualname}: receiver type unknown, all repo methods named `{meth}` entered")
        callees = [c for c in callees if not c.is_abstract]
        if not callees and how != "ctor":
            # an attribute that holds a callable object: its class's __call__
            dunder = [m for m in (self.repo.lookup_method(ci, "__call__") for ci in self.instance_classes(fr, f)) if m is not None and not m.is_abstract]
            if dunder:
                fv = self.attribute(rv, meth, f, fr, ps)
                return self.call_any([(m, fv) for m in dunder], args, kwargs, star, fr, ps, e)
        if callees and how != "ctor":
            self.follow(rv, f, fr, ps)
            out = []
            states = []
            for c in callees:
                sub = ps.fork() if len(callees) > 1 else ps
                try:
                    if not self.binds_receiver(c):
                        r = self.call_fn(c, args, kwargs, fr, sub, e, star=star)
                    elif c.is_classmethod:
                        roots = [p for p in rv.al if len(p) == 1 and p[0].startswith("cls:")]
                        cv = Val(al=frozenset(roots or [(f"cls:{c.cls.fq}",)]))
                        r = self.call_fn(c, [cv] + args, kwargs, fr, sub, e, recv=cv, star=star)
                    elif any(len(p) == 1 and p[0].startswith("cls:") for p in rv.al) and not (set(rv.al) - {p for p in rv.al if len(p) == 1 and p[0].startswith("cls:")}):
                        r = self.call_fn(c, args, kwargs, fr, sub, e, recv=args[0] if args else None, star=star)  # Class.method(obj, ...)
                    else:
                        r = self.call_fn(c, [rv] + args, kwargs, fr, sub, e, recv=rv, star=star)
                    out.append(r)
                    states.append(sub)
                except _Dead:
                    continue
            if not states:
                raise _Dead()
            if len(callees) > 1:
                m = merge(states)
                assert m is not None
                ps.take(m)
            return vjoin(*out)
        if how == "ctor":
            roots = [(f"cls:{c.cls.fq}",) for c in callees if c.cls is not None]
            ci = None
            try:
                ci = self.T.ctor_class(fr.fi, e)
            except Exception:  # noqa: BLE001
                ci = None
            if ci is not None:
                roots = [(f"cls:{ci.fq}",)]
            return self.construct(roots, args, kwargs, star, fr, ps, e)
        # ---- container / library methods on a value
        allv = [*args, *kwargs.values(), *star]
        cbs = [v for v in allv if v.fns]
        data = [v for v in allv if not v.fns]
        cb = self.invoke_callbacks(cbs, [rv, *data], fr, ps, e) if cbs else EMPTY
        argdeps = frozenset().union(*[v.deps for v in allv]) if allv else frozenset()
        keydeps = args[0].deps if args else None
        if meth == "clear" and not args:
            self.follow(rv, f, fr, ps)
            for p in rv.al:
                self.write(p, "clear", True, frozenset(), e, fr, f"{norm(f.value, 50)}.clear()")
            if len(rv.al) == 1:
                (p,) = rv.al
                for k in [k for k in ps.alias if is_prefix(p, k) and k != p]:
                    del ps.alias[k]
                ps.fresh.add(p)
                self.reinits.append((p, fr.fi, e))
            return EMPTY
        if meth == "cache_clear":
            return EMPTY
        if meth in MUTATORS:
            self.follow(rv, f, fr, ps)
            for v in data:
                self.use(v, e, fr, ps)
            # what the container holds afterwards (keys and set members are hashable: not objects that are changed in place later)
            if meth in ("update", "extend"):
                stored = vjoin(*[elems(v) for v in data]) if data else EMPTY
            elif meth == "setdefault":
                stored = args[1] if len(args) > 1 else EMPTY
            elif meth in ("append", "insert", "appendleft"):
                stored = data[-1] if data else EMPTY
            else:
                stored = EMPTY
            for p in rv.al:
                self.write(p, "mutate", meth in IDEMPOTENT, argdeps, e, fr, f"{norm(f.value, 50)}.{meth}(...)", key=keydeps if meth == "setdefault" else None)
                if stored.al or stored.el:
                    q = p + ("[]",)
                    ps.alias[q] = ps.alias.get(q, frozenset()) | stored.al | stored.el
                if meth in CONTENT_READING_MUTATORS:
                    self.read(p, True, e, fr, ps)
            self.taint_root(f.value, Val(stored.al, stored.el, argdeps), fr, ps)
            if meth in ELEMENT_METHODS:
                r = elems(rv)
                extra = args[1] if meth == "setdefault" and len(args) > 1 else EMPTY
                return Val(self.expand(ps, r.al) | extra.al, r.el | extra.el, r.deps | argdeps | frozenset(("state", p) for p in rv.al))
            return EMPTY
        # non-mutating
        self.use(Val(al=rv.al, el=rv.el if meth not in ("get", "__contains__") else frozenset()), e, fr, ps, key=keydeps if meth in ("get", "__getitem__", "__contains__") else None)
        for v in data:
            self.use(v, e, fr, ps)
        state = frozenset(("state", p) for p in rv.al)
        if meth in ELEMENT_METHODS:
            r = elems(rv)
            dflt = args[1] if len(args) > 1 else EMPTY
            return Val(self.expand(ps, r.al) | dflt.al, r.el | dflt.el, r.deps | argdeps | state, dflt.fns)
        if meth in VIEW_METHODS:
            r = elems(rv)
            return Val(frozenset(), self.expand(ps, r.al) | r.el | frozenset().union(*[elems(v).al for v in data]) if data else self.expand(ps, r.al) | r.el, rv.deps | argdeps | state)
        return Val(deps=rv.deps | argdeps | state | cb.deps)

    # ------------------------------------------------------------------ entering functions
    def default_value(self, fn: FuncInfo, pname: str, d: ast.expr, fr: Frame, ps: PS) -> Val:
        mutable = isinstance(d, (ast.Dict, ast.List, ast.Set, ast.ListComp, ast.SetComp, ast.DictComp)) or (
            isinstance(d, ast.Call) and isinstance(d.func, (ast.Name, ast.Attribute)) and (d.func.id if isinstance(d.func, ast.Name) else d.func.attr) in MUTABLE_FACTORIES
        )
        if mutable:
            p = (f"default:{fn.fq}", pname)
            return Val(al=frozenset([p]), deps=frozenset([("state", p)]))
        if isinstance(d, ast.Name):
            return self.global_value(fn.module, d.id, d, fr, ps)
        return EMPTY

    def call_fn(self, fn: FuncInfo, args: list, kwargs: dict, fr: Frame, ps: PS, e: ast.AST, recv: Val | None = None, star: list | None = None) -> Val:
        self.tick()
        allv = [*args, *kwargs.values(), *(star or [])]
        if fn.fq in self.stack or fr.depth >= MAX_DEPTH:
            self.notes.append(f"call of {fn.qualname} from {fr.fi.qualname} not entered ({'recursive' if fn.fq in self.stack else 'too deep'})")
            for v in allv:
                self.use(v, e, fr, ps)
            return holder(*allv)
        self.entered.add(fn.fq)
        node = fn.node
        a = node.args
        env: dict = {}
        if fn.outer is not None:
            env["$parent"] = self.closures.get(id(node), {})
        params = [*a.posonlyargs, *a.args]
        rest = vjoin(*star) if star else None
        pos = list(args)
        for i, p in enumerate(params):
            if i < len(pos):
                env[p.arg] = pos[i]
            elif p.arg in kwargs:
                env[p.arg] = kwargs[p.arg]
        extra = pos[len(params):]
        defaults = dict(zip([p.arg for p in params][len(params) - len(a.defaults):], a.defaults))
        for p in params:
            if p.arg not in env:
                if rest is not None:
                    env[p.arg] = rest
                elif p.arg in defaults:
                    env[p.arg] = self.default_value(fn, p.arg, defaults[p.arg], fr, ps)
                else:
                    env[p.arg] = EMPTY
        for p, d in zip(a.kwonlyargs, a.kw_defaults):
            if p.arg in kwargs:
                env[p.arg] = kwargs[p.arg]
            elif d is not None and rest is None:
                env[p.arg] = self.default_value(fn, p.arg, d, fr, ps)
            else:
                env[p.arg] = rest or EMPTY
        if a.vararg is not None:
            env[a.vararg.arg] = holder(*extra, *(star or []))
        if a.kwarg is not None:
            env[a.kwarg.arg] = holder(*[v for k, v in kwargs.items() if k not in env], *(star or []))
        self_val = recv if self.binds_receiver(fn) and not fn.is_classmethod else (fr.self_val if fn.outer is not None else None)
        sub = Frame(fn, self_val, fr.depth + 1, ctrl=[self.ctrl_of(fr)])
        memo = bool(set(fn.decorators) & MEMO_DECORATORS)
        caller_env = ps.env
        work = ps.fork() if memo else ps
        work.env = env
        self.stack.append(fn.fq)
        try:
            if isinstance(node, ast.Lambda):
                v = self.ev(node.body, sub, work)
                sub.exits.append((work, v))
            else:
                end = self.block(node.body, sub, work)
                if end is not None:
                    sub.exits.append((end, EMPTY))
        finally:
            self.stack.pop()
        is_gen = bool(sub.yields)
        if not sub.exits:
            ps.env = caller_env
            if is_gen:
                return holder(*sub.yields)
            raise _Dead()
        final = merge([s for s, _v in sub.exits])
        assert final is not None
        if memo:
            for k, v in final.alias.items():
                ps.alias[k] = ps.alias.get(k, frozenset()) | v
        else:
            ps.fresh, ps.alias = final.fresh, final.alias
        ps.env = caller_env
        ret = vjoin(*[v for _s, v in sub.exits])
        if is_gen:
            ret = holder(*sub.yields)
        if memo:
            p = (f"memo:{fn.fq}",)
            argdeps = frozenset().union(*[v.deps for v in allv]) if allv else frozenset()
            ret = Val(ret.al | frozenset([p]), ret.el, ret.deps | argdeps, ret.fns)
        return ret

    # ------------------------------------------------------------------ entry
    def run(self, fi: FuncInfo) -> bool:
        """Walks `fi` as the entry point; False when the walk had to be abandoned."""
        env: dict = {}
        params = fi.params
        for i, p in enumerate(params):
            if i == 0 and self.binds_receiver(fi):
                env[p.arg] = Val(al=frozenset([("self",)])) if not fi.is_classmethod else Val(al=frozenset([(f"cls:{self.owner.fq}",)]))
            else:
                env[p.arg] = Val(deps=frozenset([("in", p.arg)]))
        fr = Frame(fi, env.get(params[0].arg) if params else None, 0, entry=True)
        ps = PS(env, set(), {})
        self.stack.append(fi.fq)
        try:
            end = self.block(fi.node.body, fr, ps)
        except _Budget:
            return False
        finally:
            self.stack.pop()
        return True


# --------------------------------------------------------------------------------------------------------------- verdict
def pretty(p: tuple) -> str:
    root = p[0]
    if root == "self":
        s = "self"
    elif root.startswith("cls:"):
        s = root.rsplit(".", 1)[-1]
    elif root.startswith("glob:"):
        s = f"module `{root[5:].rsplit('.', 1)[-1]}`:"
    elif root.startswith("memo:"):
        s = f"<object cached by functools for {root[5:].split('.')[-1]}()>"
    elif root.startswith("default:"):
        s = f"<default of {root[8:].split('.')[-1]}()>"
    else:
        s = root
    for x in p[1:]:
        if x == "[]":
            s += "[...]"
        elif s.endswith(":"):
            s += " " + x
        elif root.startswith("default:") and x == p[1]:
            s = s[:-1] + f" parameter {x}>"
        else:
            s += "." + x
    return s


def family(p: tuple) -> tuple:
    return p[:1] if p[0].startswith("memo:") else p[:2]


def where(fi: FuncInfo, node: ast.AST) -> str:
    return f"{fi.relpath}:{getattr(node, 'lineno', fi.node.lineno)}"


@dataclass
class Finding:
    fam: tuple
    read: Read
    write: Write
    why: str


def related(w: Write, r: Read) -> bool:
    if r.full:
        return is_prefix(w.path, r.path) or is_prefix(r.path, w.path)
    if w.kind == "rebind":
        return is_prefix(w.path, r.path)
    return is_prefix(w.path, r.path) and len(w.path) < len(r.path)


def rank(f: Finding) -> tuple:
    """Which (read, write) pair explains a finding best: a content read, a write to the very location, an input-dependent write."""
    return (not f.read.full, f.write.path != f.read.path, len(f.write.path), "input" not in f.why, getattr(f.read.node, "lineno", 0))


def analyse(w: Walker) -> tuple[list[Finding], dict]:
    writes = list(w.writes.values())
    reads = list(w.reads.values())

    def atoms(ws: Write, stop: frozenset = frozenset()) -> frozenset:
        return w.leaves(ws.data | ws.ctrl, stop)

    # ---- memo tables: written only by keyed stores whose value is a function of the key, read only through the same key variable
    tables: dict = {}
    by_path: dict = {}
    for x in writes:
        by_path.setdefault(x.path, []).append(x)
    for p, ws in by_path.items():
        keyed = [x for x in ws if x.kind == "mutate"]
        if not keyed or any(x.key is None or len(x.key) != 1 or not x.idem for x in keyed):
            continue
        keys = {next(iter(x.key)) for x in keyed}
        if len(keys) != 1:
            continue
        (a,) = keys
        if a[0] != "def":
            continue
        ok = True
        for x in keyed:
            lv = w.leaves(x.data | x.ctrl, frozenset([a]))
            if any(b != a and b[0] != "state" for b in lv):
                ok = False
        if any(x.kind == "rebind" and w.leaves(x.data) for x in ws):
            ok = False
        for x in writes:
            if x.path != p and is_prefix(p, x.path):
                ok = False  # a cached value is changed in place
        for r in reads:
            if r.path == p and r.full and not r.selfflow and r.key != frozenset([a]):
                ok = False
        if ok:
            tables[p] = a
    # ---- history-carrying writes (least fixpoint: a write is harmless until shown to carry input or history)
    carrying: dict = {}
    changed = True
    while changed:
        changed = False
        for x in writes:
            if id(x) in carrying or x.kind == "clear":
                continue
            if x.path in tables:
                continue
            why = None
            if not x.idem:
                why = "accumulates"
            elif x.selfflow:
                why = "is computed from the previous content"
            else:
                for a in atoms(x):
                    if a[0] != "state":
                        why = "depends on the input of the call" if a[0] in ("in", "io") else f"depends on {a[0]}"
                        break
                    if any(id(y) in carrying and (is_prefix(y.path, a[1]) or is_prefix(a[1], y.path)) for y in writes):
                        why = f"depends on {pretty(a[1])}, which carries history"
                        break
            if why is not None:
                carrying[id(x)] = why
                changed = True
    findings: dict = {}
    for r in reads:
        if not r.stale or r.selfflow:
            continue
        for x in writes:
            if id(x) in carrying and related(x, r):
                fam = family(r.path)
                old = findings.get(fam)
                cand = Finding(fam, r, x, carrying[id(x)])
                if old is None or rank(cand) < rank(old):
                    findings[fam] = cand
    info = {
        "locations_read": sorted({pretty(family(r.path)) for r in reads}),
        "locations_written": sorted({pretty(family(x.path)) + (" (harmless)" if id(x) not in carrying else "") for x in writes}),
        "reinitialised": sorted({pretty(p) for p, _f, _n in w.reinits}),
        "memo_tables": sorted(pretty(p) for p in tables),
        "functions_entered": len(w.entered),
    }
    return list(findings.values()), info


def check(repo: Repo, res, parser: ClassInfo, rule: str = "C06.R6") -> None:
    fi = repo.lookup_method(parser, "parse")
    if fi is None or fi.is_abstract:
        raise AnalysisError(f"{parser.fq}.parse not found")
    key = f"{fi.relpath}::{fi.qualname}"
    w = Walker(repo, parser)
    if not w.run(fi):
        res.undecide(rule, key, f"the call tree of {fi.qualname} is too large to walk ({w.steps} steps)", where(fi, fi.node))
        return
    findings, info = analyse(w)
    info["fixture"] = fixture_selfcheck()
    res.analysed["parse_state"] = info
    for n in w.notes[:5]:
        res.observe(f"{rule}: {n}")
    for f in sorted(findings, key=lambda f: f.fam):
        r, x = f.read, f.write
        res.add(
            rule,
            f"{key}::state {pretty(f.fam)}",
            False,
            f"`{norm(r.node, 70)}` in {r.fi.qualname} reads {pretty(r.path)} before anything in this call of parse() re-initialises it on every path, and "
            f"`{x.how}` in {x.fi.qualname} ({where(x.fi, x.node)}) writes it with a value that {f.why}: a parser object (or the process) that has parsed "
            "another file before yields a different result for the same file",
            where(r.fi, r.node),
            kind="effect",
        )
    if not findings:
        res.add(
            rule,
            f"{key}::history-free",
            True,
            f"{len(w.entered) + 1} functions walked; persistent locations read: {len(info['locations_read'])}, written: {len(info['locations_written'])}, "
            f"re-initialised per call: {info['reinitialised'] or 'none'}; no location is read before its re-initialisation while the call tree writes input-dependent or accumulated content into it",
            where(fi, fi.node),
            kind="effect",
        )


# ------------------------------------------------------------------------------------------------------- positive fixture
def fixture_selfcheck() -> str:
    """Runs the walk on every class of engine/fixtures/c06_parse_state.py: `Stateful*` must yield a finding, `Fresh*` must not.

    The expected number of findings on the real tree is zero, so this is what shows on every run that the rule still bites."""
    import shutil
    import tempfile
    from pathlib import Path

    fx = Path(__file__).resolve().parents[1] / "fixtures" / "c06_parse_state.py"
    tmp = Path(tempfile.mkdtemp(prefix="pta-fixture-"))
    try:
        (tmp / "src" / "pytestarch").mkdir(parents=True)
        shutil.copy(fx, tmp / "src" / "pytestarch" / "fixture_c06_parse_state.py")
        repo = Repo(tmp)
        mod = repo.modules["pytestarch.fixture_c06_parse_state"]
        bad: list[str] = []
        n_bad = n_good = 0
        for name, ci in mod.classes.items():
            fi = ci.methods.get("parse")
            if fi is None:
                continue
            w = Walker(repo, ci)
            done = w.run(fi)
            findings, _info = analyse(w)
            if name.startswith("Stateful"):
                n_bad += 1
                if not done or not findings:
                    bad.append(f"{name}: no finding")
            elif name.startswith("Fresh"):
                n_good += 1
                if not done or findings:
                    bad.append(f"{name}: {[pretty(f.fam) for f in findings] or 'walk abandoned'}")
        if bad or not n_bad or not n_good:
            raise AnalysisError(f"C06.R6 fixture: parsers not classified as expected: {bad}")
        return f"{n_bad} history-dependent and {n_good} history-free parsers of engine/fixtures/c06_parse_state.py classified as expected"
    finally:
        shutil.rmtree(tmp, ignore_errors=True)
