"""C07 - DiagramRule passes exactly when the imports conform to the diagram.

  C07.R1  rule generation: one should(-only) rule per component with arrows over all its targets; one should-not rule per component
          over all non-targets other than itself, emitted iff non-empty; nothing else
  C07.R2  aggregation: all rules are evaluated, only AssertionError is collected, the joined message is raised after the loop and
          contains the message of EVERY element whose assert_applies raised (bag of joined lines = bag of caught messages: no
          overwrite by a key that two rules can share, no selection, no truncation); the aggregate of one evaluation contains
          nothing from earlier evaluations
  C07.R3  prefixing: with_base_module(p) prefixes the component set, the keys and the values; identity without a base module;
          the pipeline parse -> prefix -> convert -> apply hands each stage's result to the next; default mode is should-only

How: the public entry points that the test-suite pins (`DependencyToRuleConverter(flag).convert(pd)`, `ModulePrefixer.prefix(pd, p)`,
`MultipleRuleApplier(rules).assert_applies(ev)`, the fluent `DiagramRule` protocol) are evaluated *symbolically* (rules/c07_sym.py:
an abstract interpreter over the AST, nothing is executed) on symbolic inputs; the resulting terms are brought into a normal form
(rules/c07_norm.py: collections as unions of generators over atomic sources, conditions compared by exhaustive evaluation) and
compared with the normal form of a specification written as plain python below and evaluated by the same interpreter.  Private
helper names, local names, loop / comprehension / generator / closure / early-return spellings do not occur in the comparison.
Normal forms that differ as text are interpreted over small finite models (rules/c07_model.py): equal on all of them = a spelling
the normaliser does not unify (silent); different on one = VIOLATION with that model as counterexample; not interpretable (an
opaque part) = undecided, unless an input is provably lost (the result does not depend on it at all).

Outcomes: VIOLATION needs a counterexample model, a lost input, or a `raise` inside the loop over the rules; code the evaluator
cannot model (while / recursion / unknown containers / context managers from libraries ...) makes the affected comparison
undecided, never violated.  `with` over a context manager class of the analysed code is `try / except <the classes its __exit__
suppresses> / else` (the classes are read off a trial evaluation of `__exit__` on a symbolic exception: `issubclass(exc_type, X)`,
`isinstance(exc, X)`); `@contextmanager` generators run the body at their `yield`; `contextlib.suppress(X)` is `except X: pass`.
Module-level constants, class attributes and parameter defaults are evaluated once per run (an object created there is shared).
Positions of `enumerate` and slices bounded by them are exact when they refer to one sequence of distinct elements in one order
(`S[:i] + S[i+1:]`, `del S[i]`, `S.pop(i)` = S without its i-th element); positions into another order give no verdict.

The DiagramRule protocol is evaluated twice on one rule object - also with `with_base_module` / `from_file` called again between the
two evaluations: each evaluation must equal a fresh pipeline with the configuration then in force (state derived from an earlier
configuration - generated rules, the parsed diagram - must not survive a change of what it was derived from).
`engine/rules/c07_variants.py` is a developer corpus of ~40 re-spellings (must stay silent) and breaking changes in the same
idioms (must fire); run it after touching the evaluator.
"""

from __future__ import annotations

import ast

from core.loader import AnalysisError, ClassInfo, FuncInfo, Repo, own_nodes
from core.report import Result

from .c07_model import semantic_compare
from .c07_norm import Norm, canon, canon_gen, cases, diff_bags, rename_try, try_names
from .c07_sym import Evaluator, Obj
from .common import reachable_funcs

DRULE = "pytestarch.diagram_extension.diagram_rule"
DCONV = "pytestarch.diagram_extension.dependency_to_rule_converter"
DPARS = "pytestarch.diagram_extension.diagram_parser"
DPDEP = "pytestarch.diagram_extension.parsed_dependencies"
MULTI = "pytestarch.query_language.multiple_rule_applier"
QRULE = "pytestarch.query_language.rule"

SPEC_CONVERT = """
def spec(FLAG, M, D):
    should = [
        (Rule().modules_that().are_named(k).should_only().import_modules_that().are_named(D[k])
         if FLAG else
         Rule().modules_that().are_named(k).should().import_modules_that().are_named(D[k]))
        for k in D
    ]
    should_not = [
        Rule().modules_that().are_named(m).should_not().import_modules_that().are_named(M - {m} - D.get(m, set()))
        for m in M
        if M - {m} - D.get(m, set())
    ]
    return should + should_not
RES = spec(FLAG, M, D)
"""

SPEC_PREFIX = """
def spec(M, D, P):
    q = (lambda n: n) if P is None else (lambda n: f"{P}.{n}")
    return PD({q(m) for m in M}, {q(k): {q(v) for v in D[k]} for k in D})
RES = spec(M, D, P)
"""

SPEC_APPLY = """
def spec(R, EV):
    messages = []
    for r in R:
        try:
            r.assert_applies(EV)
        except AssertionError as e:
            messages.append(e.args[0])
    if messages:
        raise AssertionError("\\n".join(messages))
spec(R, EV)
"""


def sym(name: str):
    return ("sym", name)


# --------------------------------------------------------------------------- anchors


def find_class(repo: Repo, modname: str, clsname: str) -> ClassInfo:
    m = repo.modules.get(modname)
    if m is not None:
        if clsname in m.classes:
            return m.classes[clsname]
        if clsname in m.imports:
            fq = repo._canonical(m.imports[clsname])
            if fq in repo.classes:
                return repo.classes[fq]
    hits = [c for c in repo.classes.values() if c.name == clsname]
    if len(hits) == 1:
        return hits[0]
    raise AnalysisError(f"anchor class {clsname} (public API, expected in {modname}) not found")


def method(repo: Repo, ci: ClassInfo, name: str) -> FuncInfo:
    f = repo.lookup_method(ci, name)
    if f is None:
        raise AnalysisError(f"anchor method {ci.name}.{name} (public API) not found")
    return f


class Anchors:
    def __init__(self, repo: Repo) -> None:
        self.conv = find_class(repo, DCONV, "DependencyToRuleConverter")
        self.convert = method(repo, self.conv, "convert")
        self.pd = find_class(repo, DPDEP, "ParsedDependencies")
        self.rule = find_class(repo, QRULE, "Rule")
        self.mra = find_class(repo, MULTI, "MultipleRuleApplier")
        self.mra_apply = method(repo, self.mra, "assert_applies")
        self.prefixer = find_class(repo, DRULE, "ModulePrefixer")
        self.prefix = method(repo, self.prefixer, "prefix")
        self.drule = find_class(repo, DRULE, "DiagramRule")
        self.dr_apply = method(repo, self.drule, "assert_applies")
        for n in ("from_file", "with_base_module", "base_module_included_in_module_names"):
            method(repo, self.drule, n)
        self.parser = find_class(repo, DPARS, "PumlParser")
        self.parse = method(repo, self.parser, "parse")
        fields = []
        for c in reversed(repo.mro(self.pd)):
            fields += [k for k in c.ann_attrs if k not in fields]
        if fields[:2] != ["all_modules", "dependencies"]:
            raise AnalysisError(f"ParsedDependencies fields are {fields}: expected (all_modules, dependencies)")

    def variables(self) -> dict:
        return {
            "CONV": ("class", self.conv.fq),
            "PD": ("class", self.pd.fq),
            "Rule": ("class", self.rule.fq),
            "MRA": ("class", self.mra.fq),
            "PREFIXER": ("class", self.prefixer.fq),
            "DRULE": ("class", self.drule.fq),
            "PARSER": ("class", self.parser.fq),
            "M": sym("M"),
            "D": sym("D"),
            "P": sym("P"),
            "P2": sym("P2"),
            "PATH2": sym("PATH2"),
            "FLAG": sym("FLAG"),
            "R": sym("R"),
            "EV": sym("EV"),
            "EV1": sym("EV1"),
            "EV2": sym("EV2"),
            "PATH": sym("PATH"),
        }


def where_of(f: FuncInfo) -> str:
    return f"{f.relpath}:{getattr(f.node, 'lineno', 0)}"


# --------------------------------------------------------------------------- running


def new_eval(repo: Repo, A: Anchors, stages: dict[str, str] | None = None) -> Evaluator:
    ev = Evaluator(repo, fluent_roots={A.rule.name}, stages=stages or {})
    return ev


def run_source(ev: Evaluator, A: Anchors, src: str, extra: dict | None = None):
    variables = A.variables()
    variables.update(extra or {})
    try:
        _r, fr = ev.run_stmts(ast.parse(src).body, variables, None)
    except RecursionError as e:  # pragma: no cover
        raise AnalysisError(f"symbolic evaluation does not terminate: {e}") from e
    except RuntimeError as e:
        raise AnalysisError(str(e)) from e
    return fr


def trace_of(ev: Evaluator, start: int = 0, stop: int | None = None):
    items = ev.trace.items[start:stop]
    return ev.resolve(("coll", "list", tuple(items)))


def syms_of(t, out=None) -> set[str]:
    out = out if out is not None else set()
    if isinstance(t, tuple) and t:
        if t[0] == "sym":
            out.add(t[1])
        else:
            for x in t:
                if isinstance(x, (tuple, list)):
                    syms_of(tuple(x), out)
    return out


def msg_norm(t):
    """`str(e)` of a caught exception and `e.args[0]` denote the message."""
    if isinstance(t, tuple) and t:
        if t[0] == "str" and isinstance(t[1], tuple) and t[1] and t[1][0] == "caught":
            return ("index", ("attr", t[1], "args"), ("const", 0))
        return tuple(msg_norm(x) if isinstance(x, tuple) else x for x in t)
    return t


class Comparison:
    """One symbolic run compared with its specification; turns differences into obligations / undecided entries."""

    def __init__(self, res: Result, rule: str, key: str, where: str, ev: Evaluator) -> None:
        self.res = res
        self.rule = rule
        self.key = key
        self.where = where
        self.ev = ev

    def skipped(self, what: str) -> bool:
        if self.ev.skipped:
            self.res.undecide(self.rule, f"{self.key}::{what}", "the symbolic evaluation met code it cannot model: " + "; ".join(self.ev.skipped[:3]), self.where)
            return True
        return False

    def compare(self, what: str, actual, expected, ev_e: Evaluator, atoms: list, dict_syms: set[str], assume: dict | None = None, case_names: dict | None = None, kind: str = "structural", expected_labels=None) -> bool:
        """Adds one obligation per generator of the specification (and one for 'nothing else') per case. Returns overall ok."""
        if self.skipped(what):
            return False
        all_ok = True
        for case in cases(atoms):
            label = ", ".join((case_names or {}).get((k, v), f"{k}={v}") for k, v in case.items())
            suffix = f" [{label}]" if label else ""
            asm = dict(assume or {})
            asm.update(case)
            na_ = Norm(asm, self.ev.cut_loops, dict_syms)
            na = na_.N(msg_norm(actual))
            ne_ = Norm(asm, ev_e.cut_loops, dict_syms)
            ne = ne_.N(msg_norm(expected))
            na = rename_try(na, try_names(na))
            ne = rename_try(ne, try_names(ne))
            extra, missing, exp_gens = diff_bags(na, ne)
            if not extra and not missing:
                for text in exp_gens:
                    self.res.add(self.rule, f"{self.key}::{what}{suffix} {short(text)}", True, "computed as specified", self.where, kind=kind)
                self.res.add(self.rule, f"{self.key}::{what}{suffix} nothing else", True, "no further element", self.where, kind=kind)
                continue
            # the normal forms differ as text: interpret both over small finite models (semantic back-stop)
            fixed = {}
            if "nonempty(FLAG)" in asm:
                fixed["FLAG"] = asm["nonempty(FLAG)"]
            if "P is None" in asm:
                fixed["P"] = None if asm["P is None"] else "p"
            status, info = semantic_compare(na, ne, fixed)
            if status == "equal":
                for text in exp_gens:
                    self.res.add(self.rule, f"{self.key}::{what}{suffix} {short(text)}", True, f"computed as specified (spelled differently; equal on all {info} finite models)", self.where, kind=kind)
                self.res.add(self.rule, f"{self.key}::{what}{suffix} nothing else", True, "no further element", self.where, kind=kind)
                continue
            all_ok = False
            counterexample = " Counterexample " + info if status == "differ" else ""
            imprecise = list(dict.fromkeys(na_.opaque + self.ev.problems)) or [f"the difference cannot be evaluated on finite models ({info})"]
            # definite, whatever else is imprecise: a `raise` inside a loop ends the loop at that element
            in_loop = lambda n: [g for g in (n[1] if n[0] == "bag" else ()) if g[1][0] == "raise" and g[2] and g[1][1] != ("reraise",)]  # noqa: E731
            loop_raise = in_loop(na) and not in_loop(ne)
            if loop_raise:
                g = in_loop(na)[0]
                self.res.add(self.rule, f"{self.key}::{what}{suffix} {short(canon_gen(g, {}, 0))}", False, f"{what}: `{short(canon_gen(g, {}, 0), 300)}` raises inside the loop: the remaining elements are never processed." + counterexample, self.where, kind="dominance")
            reported = bool(loop_raise)
            for text in exp_gens:
                construct = f"{self.key}::{what}{suffix} {short(text)}"
                if text not in missing:
                    self.res.add(self.rule, construct, True, "computed as specified", self.where, kind=kind)
                    continue
                need = syms_of(ne) if len(exp_gens) == 1 else syms_named(text, syms_of(ne))
                lost = sorted(need - syms_of(na))
                if not counterexample and not lost:
                    # neither a counterexample nor a lost input: no verdict on this part
                    self.res.undecide(self.rule, construct, "cannot be compared precisely: " + "; ".join(imprecise[:3]), self.where)
                    continue
                why = f"does not depend on {', '.join(lost)} at all; " if lost else ""
                got = "; ".join(short(x, 600) for x in extra[:2]) or "nothing"
                cut = " - a loop is cut short by `break`" if any("cut-short" in x for x in extra) else ""
                self.res.add(self.rule, construct, False, f"{what}: the specified part `{short(text, 300)}` is not computed ({why}found instead: {got}){cut}." + counterexample, self.where, kind=kind)
                reported = True
            construct = f"{self.key}::{what}{suffix} nothing else"
            if missing and (reported or not counterexample):
                # extras next to a missing part are reported there
                self.res.add(self.rule, construct, True, "no further element", self.where, kind=kind)
            elif counterexample:
                got = "; ".join(short(x, 300) for x in extra[:2])
                self.res.add(self.rule, construct, False, f"{what}: " + (f"additionally computes `{got}`, which the specification does not contain." if got else "differs from the specification.") + counterexample, self.where, kind=kind)
            else:
                self.res.undecide(self.rule, construct, "cannot be compared precisely: " + "; ".join(imprecise[:3]), self.where)
        return all_ok


def syms_named(text: str, universe: set[str]) -> set[str]:
    import re

    return {s for s in universe if re.search(rf"\b{re.escape(s)}\b", text)}


def short(text: str, n: int = 110) -> str:
    return text if len(text) <= n else text[: n - 3] + "..."


# --------------------------------------------------------------------------- the rules


def check_convert(repo: Repo, res: Result, A: Anchors) -> None:
    ev = new_eval(repo, A)
    fr = run_source(ev, A, "RES = CONV(FLAG).convert(PD(M, D))")
    actual = ev.resolve(fr.env.vars.get("RES", ("const", None)))
    ev_e = new_eval(repo, A)
    fe = run_source(ev_e, A, SPEC_CONVERT)
    expected = ev_e.resolve(fe.env.vars["RES"])
    key = f"{A.convert.relpath}::{A.conv.name}.convert"
    c = Comparison(res, "C07.R1", key, where_of(A.convert), ev)
    names = {("nonempty(FLAG)", True): "should-only mode", ("nonempty(FLAG)", False): "should mode"}
    c.compare("generated rules", actual, expected, ev_e, [("truthy", sym("FLAG"))], {"D"}, case_names=names, kind="decision-table")
    extra_effects(res, "C07.R1", key, where_of(A.convert), ev, "rule generation")


def extra_effects(res: Result, rule: str, key: str, where: str, ev: Evaluator, what: str) -> None:
    """Pure stages must not call out / raise."""
    tr = trace_of(ev)
    n = Norm({}, ev.cut_loops).N(tr)
    gens = n[1] if n[0] == "bag" else ()
    bad = [canon_gen(g, {}, 0) for g in gens if g[1][0] == "raise"]
    if bad and not ev.skipped:
        res.add(rule, f"{key}::{what} raises", False, f"{what} raises: {short(bad[0], 200)}", where, kind="effect")


def check_applier(repo: Repo, res: Result, A: Anchors) -> None:
    ev = new_eval(repo, A)
    run_source(ev, A, "MRA(R).assert_applies(EV)")
    actual = trace_of(ev)
    ev_e = new_eval(repo, A)
    run_source(ev_e, A, SPEC_APPLY)
    expected = trace_of(ev_e)
    key = f"{A.mra_apply.relpath}::{A.mra.name}.assert_applies"
    c = Comparison(res, "C07.R2", key, where_of(A.mra_apply), ev)
    c.compare("aggregation", actual, expected, ev_e, [], set(), kind="effect")


def check_prefix(repo: Repo, res: Result, A: Anchors) -> None:
    ev = new_eval(repo, A)
    fr = run_source(ev, A, "RES = PREFIXER.prefix(PD(M, D), P)")
    actual = ev.resolve(fr.env.vars.get("RES", ("const", None)))
    ev_e = new_eval(repo, A)
    fe = run_source(ev_e, A, SPEC_PREFIX)
    expected = ev_e.resolve(fe.env.vars["RES"])
    key = f"{A.prefix.relpath}::{A.prefixer.name}.prefix"
    c = Comparison(res, "C07.R3", key, where_of(A.prefix), ev)
    names = {("P is None", True): "no base module", ("P is None", False): "base module p"}
    for fld, label in (("all_modules", "component set"), ("dependencies", "arrows (keys and values)")):
        c.compare(label, ("attr", actual, fld), ("attr", expected, fld), ev_e, [("is", sym("P"), ("const", None))], {"D"}, case_names=names, kind="flow")
        if ev.skipped:
            break
    extra_effects(res, "C07.R3", key, where_of(A.prefix), ev, "prefixing")


def parse_hook(A: Anchors):
    def hook(ev: Evaluator, stage: str, bound: dict, node):
        if stage != "parse":
            return None
        # the parsed diagram is a function of the path only (re-reading the file or caching the result are the same thing)
        args = [ev.snapshot(v) for k, v in bound.items() if k not in ("self", "cls")]
        tag = "" if args == [sym("PATH")] else "<" + ", ".join(canon(Norm().N(a), {}, 0) for a in args) + ">"
        o = Obj(ev.fresh(), A.pd, {"all_modules": sym("M" + tag), "dependencies": sym("D" + tag)})
        ev.heap_objs[o.oid] = o
        return ("obj", o.oid)

    return hook


PROTOCOLS = [
    {"label": "with_base_module(p), explicit mode", "setup": "r = DRULE(FLAG).from_file(PATH).with_base_module(P)", "flag": "FLAG", "p": "P"},
    {"label": "with_base_module(p), keyword mode", "setup": "r = DRULE(should_only_rule=FLAG).from_file(PATH).with_base_module(P)", "flag": "FLAG", "p": "P"},
    {"label": "base_module_included_in_module_names(), default mode", "setup": "r = DRULE().from_file(PATH).base_module_included_in_module_names()", "flag": "True", "p": "None"},
    # a rule object that is configured again after it was evaluated behaves like a fresh rule with the new configuration
    {"label": "with_base_module(p) evaluated, then with_base_module(q)", "setup": "r = DRULE(FLAG).from_file(PATH).with_base_module(P)", "flag": "FLAG", "p": "P", "between": "r.with_base_module(P2)", "p2": "P2"},
    {"label": "base_module_included_in_module_names() evaluated, then with_base_module(q)", "setup": "r = DRULE(FLAG).from_file(PATH).base_module_included_in_module_names()", "flag": "FLAG", "p": "None", "between": "r.with_base_module(P2)", "p2": "P2"},
    {"label": "from_file(a) evaluated, then from_file(b)", "setup": "r = DRULE(FLAG).from_file(PATH).with_base_module(P)", "flag": "FLAG", "p": "P", "between": "r.from_file(PATH2)", "path2": "PATH2"},
]
REFERENCE = "MRA(CONV({flag}).convert(PREFIXER.prefix(PARSER().parse({path}), {p}))).assert_applies({ev})"


def check_pipeline(repo: Repo, res: Result, A: Anchors) -> None:
    """DiagramRule.assert_applies == apply(convert(prefix(parse(path), base module))), twice on the same rule object - the second
    time as it is, or after the object was configured again (`between`): the configuration in force at the evaluation counts.

    First with the three pure stages summarised (`<prefix>(...)`, `<convert>(...)` terms: differences are named at stage level); when
    that does not match (e.g. a stage is by-passed or inlined) once more with every stage evaluated down to the generated rules.
    A difference is only reported when both comparisons differ."""
    key = f"{A.dr_apply.relpath}::{A.drule.name}.assert_applies"
    where = where_of(A.dr_apply)
    assume = {"PATH is None": False, "PATH2 is None": False}

    def attempt(mode: str, proto: dict):
        label, flag = proto["label"], proto["flag"]
        stages = {A.parse.fq: "parse"}
        if mode == "stages":
            stages.update({A.prefix.fq: "prefix", A.convert.fq: "convert"})
        ev = new_eval(repo, A, stages)
        ev.stage_hook = parse_hook(A)
        fr = run_source(ev, A, proto["setup"])
        r = fr.env.vars.get("r", ("const", None))
        marks = []
        for n, evn in enumerate(("EV1", "EV2")):
            if n == 1 and proto.get("between"):
                run_source(ev, A, proto["between"], {"r": r})
            marks.append(len(ev.trace.items))
            run_source(ev, A, f"r.assert_applies({evn})", {"r": r})
            marks.append(len(ev.trace.items))
        probes = []
        for i, evn in enumerate(("EV1", "EV2")):
            p = proto.get("p2", proto["p"]) if i == 1 else proto["p"]
            path = proto.get("path2", "PATH") if i == 1 else "PATH"
            ev_e = new_eval(repo, A, stages)
            ev_e.stage_hook = parse_hook(A)
            run_source(ev_e, A, REFERENCE.format(flag=flag, p=p, ev=evn, path=path))
            probe = Result("C07")
            c = Comparison(probe, "C07.R3" if i == 0 or proto.get("between") else "C07.R2", key, where, ev)
            what = f"{label}: {'first' if i == 0 else 'second'} evaluation == apply(convert(prefix(parse(path), base module)))"
            atoms = []
            if mode == "full":
                atoms = ([("truthy", sym("FLAG"))] if flag == "FLAG" else []) + ([("is", sym(p), ("const", None))] if p in ("P", "P2") else [])
                if i == 1 and p == "P2" and proto["p"] == "P":
                    atoms.append(("is", sym("P"), ("const", None)))  # what the first configuration was may matter when state is kept
            c.compare(what, trace_of(ev, marks[2 * i], marks[2 * i + 1]), trace_of(ev_e), ev_e, atoms, {"D"}, assume=assume, kind="flow")
            probes.append((what, probe))
        return probes

    def clean(probes) -> bool:
        return all(not pr.violations and not pr.undecided for _w, pr in probes)

    for proto in PROTOCOLS:
        staged = attempt("stages", proto)
        full = None
        if not clean(staged):
            full = attempt("full", proto)
        if clean(staged) or clean(full):
            for what, pr in staged:
                rule = pr.obligations[0].rule if pr.obligations else "C07.R3"
                res.add(rule, f"{key}::{what}", True, "equals the reference pipeline built from the public stages" + ("" if clean(staged) else " (after evaluating the stages)"), where, kind="flow")
            continue
        first_bad = False
        for n, ((what, ps), (_w, pf)) in enumerate(zip(staged, full)):
            if not ps.violations and not ps.undecided:
                ps = pf  # this evaluation only differs below stage level
            chosen = ps if ps.violations else pf if pf.violations else ps
            for o in chosen.violations:
                # the second evaluation differing *alone* is a matter of state kept between evaluations (aggregation, R2) - unless
                # the object was configured again in between (R3: the configuration in force counts)
                res.add("C07.R3" if n == 0 or first_bad or proto.get("between") else "C07.R2", o.construct, False, o.detail, o.where, kind=o.kind)
            first_bad = first_bad or (n == 0 and bool(chosen.violations))
            if not chosen.violations:
                for u in (ps.undecided or pf.undecided):
                    res.undecide(u["rule"], u["construct"], u["detail"], u["where"])


# --------------------------------------------------------------------------- the message convention between rules and the aggregator


def caught_uses(t, out=None) -> set[str]:
    """How a trace reads the exceptions it caught: 'str' (str(e), f"{e}"), 'args[k]', 'args' (the whole tuple), 'other'."""
    out = out if out is not None else set()
    if not isinstance(t, tuple) or not t:
        return out
    if t[0] == "str" and isinstance(t[1], tuple) and t[1][:1] == ("caught",):
        out.add("str")
        return out
    if t[0] == "index" and isinstance(t[1], tuple) and t[1][:1] == ("attr",) and t[1][2] == "args" and t[1][1][:1] == ("caught",):
        out.add(f"args[{t[2][1]}]" if t[2][0] == "const" else "args[?]")
        return out
    if t[0] == "attr" and isinstance(t[1], tuple) and t[1][:1] == ("caught",):
        out.add("args" if t[2] == "args" else "other")
        return out
    if t[0] == "fstr":
        for p in t[1]:
            if isinstance(p, tuple) and p[:1] == ("caught",):
                out.add("str")
            else:
                caught_uses(p, out)
        return out
    for x in t:
        if isinstance(x, tuple):
            caught_uses(x, out)
    return out


def resolve_class(repo: Repo, mod, e: ast.expr):
    """('builtin', name) | ClassInfo | None for the expression naming the class of a raised exception."""
    if isinstance(e, ast.Name):
        if mod is not None and e.id in mod.classes:
            return mod.classes[e.id]
        if mod is not None and e.id in mod.imports:
            fq = repo._canonical(mod.imports[e.id])
            return repo.classes.get(fq) or (("builtin", fq.split(".")[-1]) if fq.startswith("builtins.") else None)
        return ("builtin", e.id)
    if isinstance(e, ast.Attribute) and isinstance(e.value, ast.Name) and mod is not None and e.value.id in mod.imports:
        fq = repo._canonical(mod.imports[e.value.id]) + "." + e.attr
        return repo.classes.get(fq) or (("builtin", e.attr) if fq.startswith("builtins.") else None)
    return None


def is_assertion_class(repo: Repo, c) -> bool:
    if isinstance(c, tuple):
        return c[1] == "AssertionError"
    return c is not None and any(b.split(".")[-1] == "AssertionError" for b in repo.external_bases(c))


def single_argument(call: ast.Call) -> str | None:
    """None when the call passes exactly one plain positional argument, else what it passes instead."""
    if call.keywords:
        return "keyword arguments"
    if any(isinstance(a, ast.Starred) for a in call.args):
        return "an unpacked sequence (`" + ", ".join(ast.unparse(a) for a in call.args) + "`): one entry of `args` per element"
    if len(call.args) != 1:
        return f"{len(call.args)} arguments"
    return None


def check_message_convention(repo: Repo, res: Result, A: Anchors) -> None:
    """The aggregate contains the *whole* message of every violated rule: when the applier collects `e.args[0]` (not `str(e)`),
    every AssertionError raised on the verdict path of `Rule.assert_applies` must carry its complete message as its one and only
    argument - also through the `__init__` of exception subclasses (`super().__init__(*lines)` spreads the message over `args`)."""
    ev = new_eval(repo, A)
    run_source(ev, A, "MRA(R).assert_applies(EV)")
    if ev.skipped:
        return  # check_applier reports that
    uses = caught_uses(trace_of(ev))
    key = f"{A.mra_apply.relpath}::{A.mra.name}.assert_applies"
    where = where_of(A.mra_apply)
    reads_args = sorted(u for u in uses if u.startswith("args["))
    if not reads_args:
        if uses:
            res.add("C07.R2", f"{key}::what is collected from a violated rule", True, "the rendered exception (str / all of args): independent of how the rules construct their AssertionError", where, kind="flow")
        return
    if any(u != "args[0]" for u in reads_args):
        res.add("C07.R2", f"{key}::what is collected from a violated rule", False, f"the applier collects {', '.join(reads_args)} of the caught AssertionError: not the message of the rule (args[0] / str(e)).", where, kind="flow")
        return
    rule_apply = method(repo, A.rule, "assert_applies")
    found = 0
    for f in reachable_funcs(repo, [rule_apply]):
        for n in own_nodes(f.node):
            if not isinstance(n, ast.Raise) or not isinstance(n.exc, ast.Call):
                continue
            c = resolve_class(repo, f.module, n.exc.func)
            if not is_assertion_class(repo, c):
                continue
            found += 1
            construct = f"{f.relpath}::{f.qualname}::{ast.unparse(n)[:90]}"
            loc = f"{f.relpath}:{n.lineno}"
            why = None
            init = None if isinstance(c, tuple) else repo.lookup_method(c, "__init__")
            if init is None:
                why = single_argument(n.exc)
                if why:
                    why = f"`{ast.unparse(n.exc)[:120]}` is constructed with {why}"
            else:
                supers = [x for x in own_nodes(init.node) if isinstance(x, ast.Call) and isinstance(x.func, ast.Attribute) and x.func.attr == "__init__"
                          and ((isinstance(x.func.value, ast.Call) and isinstance(x.func.value.func, ast.Name) and x.func.value.func.id == "super") or isinstance(x.func.value, ast.Name))]
                sets_args = [x for x in own_nodes(init.node) if isinstance(x, ast.Attribute) and x.attr == "args" and isinstance(x.ctx, ast.Store)]
                if sets_args or len(supers) > 1:
                    res.undecide("C07.R2", construct, f"{c.name}.__init__ sets `args` in a way that is not followed", loc)
                    continue
                if not supers:
                    why = single_argument(n.exc)  # BaseException.__new__ keeps the constructor arguments
                    if why:
                        why = f"`{ast.unparse(n.exc)[:120]}` is constructed with {why} ({c.name}.__init__ does not call super().__init__)"
                else:
                    call = supers[0]
                    direct = isinstance(call.func.value, ast.Name)  # Base.__init__(self, ...)
                    probe = ast.Call(func=call.func, args=call.args[1:] if direct else call.args, keywords=call.keywords)
                    why = single_argument(probe)
                    if why:
                        why = f"{c.name}.__init__ ({init.relpath}:{call.lineno}) hands `{ast.unparse(call)[:120]}` to the base class: {why}"
            if why:
                res.add("C07.R2", construct, False, f"{where}: the aggregate keeps `e.args[0]` of every violated rule, but {why} - args[0] is not the complete message of the rule, every further line is dropped from the DiagramRule error.", loc, kind="flow")
            else:
                res.add("C07.R2", construct, True, "raised with its complete message as the only argument (what the applier collects as args[0])", loc, kind="flow")
    if not found:
        res.undecide("C07.R2", f"{key}::what is collected from a violated rule", f"the applier collects e.args[0], but no `raise <AssertionError>(...)` was found on the call paths of {rule_apply.fq}", where)


def run(repo: Repo) -> Result:
    res = Result("C07")
    res.explanation = (
        "Decides the diagram-rule mechanism by symbolic evaluation of the public entry points on symbolic inputs and comparison of normal "
        "forms with a specification: (R1) DependencyToRuleConverter(flag).convert(ParsedDependencies(M, D)) is, in both modes, exactly "
        "one Rule().modules_that().are_named(k).should_only()/should().import_modules_that().are_named(D[k]) per key k of D plus one "
        "should_not rule per m in M over M - {m} - D.get(m, {}) emitted iff that set is non-empty; (R2) MultipleRuleApplier(R)."
        "assert_applies(ev) calls r.assert_applies(ev) for every r in R inside a handler for exactly AssertionError, and raises "
        "AssertionError('\\n'.join(messages)) after the loop iff a message was collected, also on a re-used DiagramRule; (R3) "
        "ModulePrefixer.prefix maps M, the keys and the values of D through n -> f'{p}.{n}' (identity for None) and DiagramRule."
        "assert_applies equals apply(convert(prefix(parse(path), base module))) for both naming options and the default mode."
    )
    res.not_decided = "equivalence with pairwise conformance on all graphs (relies on C01 for each generated rule); order of the generated rules and of the names inside one rule."
    res.trusted_base = ["C01 (meaning of the generated module rules)", "rules/c07_sym.py (symbolic evaluator)", "rules/c07_norm.py (normal form)", "rules/c07_model.py (finite-model comparison of normal forms that differ as text)"]
    A = Anchors(repo)
    for rule, check, f in (("C07.R1", check_convert, A.convert), ("C07.R2", check_applier, A.mra_apply), ("C07.R2", check_message_convention, A.mra_apply), ("C07.R3", check_prefix, A.prefix), ("C07.R3", check_pipeline, A.dr_apply)):
        try:
            check(repo, res, A)
        except AnalysisError:
            raise
        except (RecursionError, KeyError, IndexError, TypeError, ValueError, AttributeError) as e:
            # never a verdict: the evaluator met a shape it was not built for
            res.undecide(rule, f"{f.relpath}::{f.qualname}", f"symbolic evaluation failed ({type(e).__name__}: {e})", where_of(f))
    if not res.undecided:
        for rule, n in (("C07.R1", 4), ("C07.R2", 2), ("C07.R3", 4)):
            res.floor(rule, n, sum(1 for o in res.obligations if o.rule == rule))
    return res
