"""C07 - DiagramRule passes exactly when the imports conform to the diagram.

  C07.R1  rule generation: one should(-only) rule per component with arrows over all its targets; one should-not rule per component
          over all non-targets other than itself, emitted iff non-empty; both lists concatenated
  C07.R2  aggregation: all rules are evaluated, only AssertionError is collected, the joined message is raised after the loop
  C07.R3  prefixing: with_base_module(p) prefixes the component set, the keys and the values; identity without a base module;
          the pipeline parse -> prefix -> convert -> apply hands each stage's result to the next; default mode is should-only
"""

from __future__ import annotations

import ast

from core.cfg import EXIT
from core.flow import Flow, Spec
from core.guards import atom, equivalent, f_not, implies
from core.loader import AnalysisError, FuncInfo, Repo, ancestors, calls_in, header, norm, own_nodes, parent
from core.report import Result

from .common import cfg_of, conds, dotted, guard_formula, is_attr_call, loops_around, stmt_of, truth, types_of, where

DRULE = "pytestarch.diagram_extension.diagram_rule"
DCONV = "pytestarch.diagram_extension.dependency_to_rule_converter"
MULTI = "pytestarch.query_language.multiple_rule_applier"


def chain(e: ast.expr) -> list[tuple[str, list[ast.expr]]]:
    """Method chain of a fluent expression, innermost first: Rule().modules_that().are_named(x) -> [Rule, modules_that, are_named]."""
    out = []
    while isinstance(e, ast.Call):
        if isinstance(e.func, ast.Attribute):
            out.append((e.func.attr, list(e.args)))
            e = e.func.value
        elif isinstance(e.func, ast.Name):
            out.append((e.func.id, list(e.args)))
            break
        else:
            break
    if isinstance(e, ast.Name):
        out.append((f"${e.id}", []))
    return list(reversed(out))


def run(repo: Repo) -> Result:
    res = Result("C07")
    res.explanation = (
        "Decides the diagram-rule mechanism structurally: (R1) the converter emits, per dependency key, one Rule().modules_that().are_named(key)"
        ".should_only()/should().import_modules_that().are_named(all targets) (mode chosen by the constructor flag) and, per component, one "
        "should_not rule over all components minus itself minus its targets, iff that set is non-empty, for every component; (R2) the multi "
        "applier evaluates every rule, collects exactly AssertionError messages and raises their join after the loop; (R3) the base-module "
        "prefix is applied to the component set, keys and values (identity without prefix) and every pipeline stage consumes its predecessor."
    )
    res.not_decided = "equivalence with pairwise conformance on all graphs (relies on C01 for each generated rule)."
    res.trusted_base = ["C01 (meaning of the generated module rules)", "engine CFG / flow"]
    T = types_of(repo)
    conv = repo.cls(DCONV, "DependencyToRuleConverter")
    gen = conv.methods.get("_generate_rule")
    csr = conv.methods.get("_convert_should_rules")
    csn = conv.methods.get("_convert_should_not_rules")
    cv = conv.methods.get("convert")
    if not all((gen, csr, csn, cv)):
        raise AnalysisError("DependencyToRuleConverter methods not found")
    # ---- R1 should(-only) rules
    comp = [n for n in own_nodes(csr.node) if isinstance(n, (ast.ListComp, ast.For))]
    ok = False
    if len(comp) == 1 and isinstance(comp[0], ast.ListComp):
        c = comp[0]
        g = c.generators[0]
        tv = [dotted(x) for x in g.target.elts] if isinstance(g.target, ast.Tuple) else []
        ok = len(c.generators) == 1 and not g.ifs and isinstance(g.iter, ast.Call) and is_attr_call(g.iter, "items") and norm(g.iter.func.value).endswith(".dependencies") and isinstance(c.elt, ast.Call) and is_attr_call(c.elt, gen.name) and [dotted(a) for a in c.elt.args] == tv
    res.add("C07.R1", f"{csr.relpath}::{csr.qualname}::one rule per component with arrows", ok, "every key of the dependency map yields one rule over its own targets" if ok else "not every dependor yields exactly one rule over its own dependees", where(csr, csr.node), kind="structural")
    imp, tgt = gen.param_names[1], gen.param_names[2]
    subj = [s for s in own_nodes(gen.node) if isinstance(s, ast.Assign) and isinstance(s.value, ast.Call) and chain(s.value)[0][0] == "Rule"]
    ok = len(subj) == 1
    if ok:
        ch = chain(subj[0].value)
        ok = [c_[0] for c_ in ch] == ["Rule", "modules_that", "are_named"] and dotted(ch[2][1][0]) == imp and not ch[0][1]
    sv = dotted(subj[0].targets[0]) if subj else None
    res.add("C07.R1", f"{gen.relpath}::{gen.qualname}::subject = the dependor", ok, "subject of the generated rule is the component itself, by name" if ok else "the generated rule's subject is not `Rule().modules_that().are_named(<dependor>)`", where(gen, gen.node), kind="structural")
    verbs = [s for s in own_nodes(gen.node) if isinstance(s, ast.Assign) and isinstance(s.value, ast.Call) and is_attr_call(s.value, "should_only") or isinstance(s, ast.Assign) and isinstance(s.value, ast.Call) and is_attr_call(s.value, "should")]
    mode = {}
    for s in verbs:
        if dotted(s.value.func.value) == sv:
            mode[s.value.func.attr] = guard_formula(gen, s)
    flag = truth(gen, "self._should_only_rule")
    ok = set(mode) == {"should", "should_only"} and equivalent(mode["should_only"], flag) and equivalent(mode["should"], f_not(flag))
    res.add("C07.R1", f"{gen.relpath}::{gen.qualname}::mode", ok, "should_only iff the should-only flag is set, else should" if ok else "the verb of the generated rule is not `should_only` exactly when the should-only flag is set and `should` otherwise", where(gen, gen.node), kind="decision-table")
    rets = [s for s in own_nodes(gen.node) if isinstance(s, ast.Return)]
    ok = len(rets) == 1
    if ok:
        ch = chain(rets[0].value)
        names = [c_[0] for c_ in ch]
        ok = len(ch) == 3 and names[1:] == ["import_modules_that", "are_named"] and names[0].startswith("$") and len(ch[2][1]) == 1
        if ok:
            a = ch[2][1][0]
            inner = a.args[0] if isinstance(a, ast.Call) and dotted(a.func) in ("list", "sorted", "tuple") and a.args else a
            ok = dotted(inner) == tgt
            vv = names[0][1:]
            ok = ok and all(dotted(s.targets[0]) == vv for s in verbs)
    res.add("C07.R1", f"{gen.relpath}::{gen.qualname}::objects = all drawn targets", ok, "the rule's objects are all targets of the component, direction 'import'" if ok else "the generated rule is not `<verb>.import_modules_that().are_named(<all dependees>)`", where(gen, gen.node), kind="structural")
    # ---- R1 should-not rules
    P = csn.param_names[1]
    loops = [l for l in own_nodes(csn.node) if isinstance(l, ast.For)]
    ok = len(loops) == 1 and isinstance(loops[0].iter, ast.Call) and dotted(loops[0].iter.func) == "sorted" and norm(loops[0].iter.args[0]) == f"{P}.all_modules" and not any(isinstance(x, (ast.Break, ast.Continue)) for x in ast.walk(loops[0]))
    res.add("C07.R1", f"{csn.relpath}::{csn.qualname}::every component considered", ok, "the should-not rules range over every component of the diagram" if ok else "the should-not rules do not range over every component (some are skipped or the loop is cut short)", where(csn, csn.node), kind="structural")
    if loops:
        lp = loops[0]
        mv = dotted(lp.target)
        asg = {dotted(s.targets[0]): s.value for s in ast.walk(lp) if isinstance(s, ast.Assign)}
        app = [c for c in ast.walk(lp) if isinstance(c, ast.Call) and is_attr_call(c, "append")]
        ok = len(app) == 1
        detail = "exactly one rule appended per component"
        if ok:
            ch = chain(app[0].args[0])
            names = [c_[0] for c_ in ch]
            ok = names == ["Rule", "modules_that", "are_named", "should_not", "import_modules_that", "are_named"] and dotted(ch[2][1][0]) == mv
            obj = ch[5][1][0] if ok else None
            detail = "should_not / import rule with the component as subject" if ok else f"the appended rule is `{'.'.join(names)}`"
            if ok:
                # objects = all_modules - {self} - imported
                def resolve(e, depth=0):
                    if isinstance(e, ast.Call) and dotted(e.func) in ("sorted", "list") and e.args:
                        return resolve(e.args[0], depth)
                    if isinstance(e, ast.Name) and e.id in asg and depth < 4:
                        return resolve(asg[e.id], depth + 1)
                    return e

                def flat_minus(e) -> tuple[str, list[str]] | None:
                    e = resolve(e)
                    if isinstance(e, ast.BinOp) and isinstance(e.op, ast.Sub):
                        left = flat_minus(e.left)
                        r = resolve(e.right)
                        if left is None:
                            return None
                        return left[0], left[1] + [norm(r)]
                    return norm(e), []

                fm = flat_minus(obj)
                imported_txt = f"{P}.dependencies.get({mv}, set())"
                want_minus = sorted([f"{{{mv}}}", imported_txt])
                ok = fm is not None and fm[0] == f"{P}.all_modules" and sorted(fm[1]) == want_minus
                detail = "objects = all components minus the component itself minus its drawn targets" if ok else f"the objects of the should-not rule are `{fm[0] if fm else '?'}` minus {fm[1] if fm else '?'}: expected all components minus {{component}} minus its drawn targets"
                g = guard_formula(csn, app[0])
                nonempty = [k for k, v in asg.items() if norm(obj) in (k, f"sorted({k})") or k in norm(obj)]
                ok2 = any(equivalent(g, truth(csn, k)) for k in asg if norm(resolve(ast.Name(id=k, ctx=ast.Load()))) == norm(resolve(obj)))
                res.add("C07.R1", repo.key(csn, stmt_of(app[0])) + " [emitted iff non-empty]", ok2, "the rule is emitted exactly when there is something to forbid" if ok2 else "the should-not rule is not emitted exactly when its object set is non-empty", where(csn, app[0]), kind="dominance")
        res.add("C07.R1", repo.key(csn, lp) + " [should-not rule]", ok, detail, where(csn, lp), kind="structural")
    rets = [s for s in own_nodes(cv.node) if isinstance(s, ast.Return)]
    dp = cv.param_names[1]
    calls = {c.func.attr: c for c in calls_in(cv.node) if isinstance(c.func, ast.Attribute) and c.func.attr in (csr.name, csn.name)}
    ok = len(rets) == 1 and set(calls) == {csr.name, csn.name} and all(len(c.args) == 1 and dotted(c.args[0]) == dp and not c.keywords for c in calls.values())
    if ok:
        v = rets[0].value
        names = sorted(dotted(x) for x in ([v.left, v.right] if isinstance(v, ast.BinOp) and isinstance(v.op, ast.Add) else []))
        srcs = sorted(dotted(stmt_of(c).targets[0]) for c in calls.values() if isinstance(stmt_of(c), ast.Assign))
        ok = names == srcs and len(names) == 2
    res.add("C07.R1", f"{cv.relpath}::{cv.qualname}::both rule lists, whole diagram", ok, "convert returns the should(-only) rules plus the should-not rules of the whole diagram" if ok else "convert does not return `should rules + should-not rules`, both computed from the whole diagram without extra restrictions", where(cv, cv.node), kind="structural")
    # ---- R2
    mra = repo.cls(MULTI, "MultipleRuleApplier")
    aa = mra.methods.get("assert_applies")
    loops = [l for l in own_nodes(aa.node) if isinstance(l, ast.For)]
    ok = len(loops) == 1 and norm(loops[0].iter) == "self._rule_appliers" and not any(isinstance(x, (ast.Break, ast.Return, ast.Raise)) for x in ast.walk(loops[0]))
    res.add("C07.R2", f"{aa.relpath}::{aa.qualname}::every rule evaluated", ok, "the loop covers all rule appliers and cannot be left early" if ok else "not every rule is evaluated (loop over a subset, or left / raising inside the loop)", where(aa, aa.node), kind="structural")
    hs = [h for h in own_nodes(aa.node) if isinstance(h, ast.ExceptHandler)]
    ok = len(hs) == 1 and dotted(hs[0].type) == "AssertionError" and hs[0].name is not None
    msgs = None
    if ok:
        app = [c for c in ast.walk(hs[0]) if isinstance(c, ast.Call) and is_attr_call(c, "append")]
        ok = len(app) == 1 and hs[0].name in norm(app[0].args[0])
        msgs = dotted(app[0].func.value) if app else None
        t = parent(hs[0])
        ok = ok and isinstance(t, ast.Try) and len(t.body) == 1 and any(is_attr_call(c, "assert_applies") and dotted(c.func.value) == dotted(loops[0].target) for c in ast.walk(t.body[0]) if isinstance(c, ast.Call)) if loops else False
    res.add("C07.R2", f"{aa.relpath}::{aa.qualname}::collects AssertionError only", ok, "exactly AssertionError is caught and its message collected" if ok else "the handler does not catch exactly AssertionError and collect its message", where(aa, aa.node), kind="effect")
    raises = [r for r in own_nodes(aa.node) if isinstance(r, ast.Raise)]
    ok = len(raises) == 1 and msgs is not None and equivalent(guard_formula(aa, raises[0]), truth(aa, msgs)) and not loops_around(raises[0], aa.node)
    if ok:
        j = [c for c in ast.walk(raises[0]) if isinstance(c, ast.Call) and is_attr_call(c, "join")]
        ok = dotted(raises[0].exc.func) == "AssertionError" and len(j) == 1 and dotted(j[0].args[0]) == msgs
    res.add("C07.R2", f"{aa.relpath}::{aa.qualname}::raise joined message after the loop", ok, "after the loop, AssertionError with all collected messages is raised iff any rule failed" if ok else "the aggregated AssertionError is not raised after the loop with the join of all collected messages", where(aa, aa.node), kind="dominance")
    # ---- R3
    pref = repo.cls(DRULE, "ModulePrefixer")
    pm = pref.methods.get("prefix")
    ap = pref.methods.get("_add_prefix_to_module")
    if pm is None or ap is None:
        raise AnalysisError("ModulePrefixer.prefix / _add_prefix_to_module not found")

    def sources(f: FuncInfo, e: ast.expr):
        if isinstance(e, ast.Attribute) and dotted(e.value) == pm.param_names[1] and e.attr in ("all_modules", "dependencies"):
            return {e.attr.upper()}
        return None

    def transfer(f: FuncInfo, call: ast.Call, names, args, recv, kwargs):
        if isinstance(call.func, ast.Attribute) and call.func.attr == ap.name:
            # idempotent on already-prefixed provenance (input and output are the same dataclass: the field store feeds back)
            return {t if t.startswith("P:") else "P:" + t for t in (args[0] if args else ())}
        return None

    flow = Flow(repo, T, Spec(sources=sources, transfer=transfer, objects_carry=False, scope=lambda f: f is pm or f.outer is pm))
    ctor = [c for c in calls_in(pm.node) if dotted(c.func) == "ParsedDependencies"]
    if len(ctor) != 1:
        raise AnalysisError("ModulePrefixer.prefix: construction of ParsedDependencies not found")
    kw = {k.arg: k.value for k in ctor[0].keywords}
    if not kw and len(ctor[0].args) == 2:
        kw = {"all_modules": ctor[0].args[0], "dependencies": ctor[0].args[1]}
    t_all = set(flow.tags(kw["all_modules"])) if "all_modules" in kw else set()
    ok = t_all == {"P:ALL_MODULES"} and _derives_from(pm, kw.get("all_modules"), pm.param_names[1], "all_modules")
    res.add("C07.R3", f"{pm.relpath}::{pm.qualname}::component set prefixed", ok, "the resulting component set is the prefixed image of all declared/referenced components" if ok else f"the component set of the prefixed diagram derives from {sorted(t_all) or 'nothing'} instead of the prefixed `all_modules`: components without arrows are lost (no should-not rule protects them)", where(pm, ctor[0]), kind="flow")
    dv = kw.get("dependencies")
    ok = isinstance(dv, ast.DictComp) and not any(g.ifs for g in dv.generators) and set(flow.tags(dv.key)) == {"P:DEPENDENCIES"} and isinstance(dv.value, (ast.SetComp,)) and not any(g.ifs for g in dv.value.generators) and set(flow.tags(dv.value.elt)) == {"P:DEPENDENCIES"}
    if not ok and dv is not None and not isinstance(dv, ast.DictComp):
        td = set(flow.tags(dv))
        ok = td == {"P:DEPENDENCIES"}
    res.add("C07.R3", f"{pm.relpath}::{pm.qualname}::keys and values prefixed", ok, "every key and every value of the dependency map is prefixed" if ok else "not every key and value of the dependency map is prefixed", where(pm, ctor[0]), kind="flow")
    rets = [s for s in own_nodes(ap.node) if isinstance(s, ast.Return)]
    n_, p_ = ap.param_names[1], ap.param_names[2]
    ident = [r for r in rets if dotted(r.value) == n_]
    built = [r for r in rets if r not in ident]
    ok = len(ident) == 1 and len(built) == 1 and implies(guard_formula(ap, ident[0]), atom(f"{p_} is None")) and isinstance(built[0].value, ast.JoinedStr) and [norm(v.value) if isinstance(v, ast.FormattedValue) else v.value for v in built[0].value.values] == [p_, ".", n_]
    res.add("C07.R3", f"{ap.relpath}::{ap.qualname}::p.name", ok, "identity without a base module, otherwise '<prefix>.<name>'" if ok else "a component name is not mapped to '<prefix>.<name>' (identity when no base module is set)", where(ap, ap.node), kind="structural")
    dr = repo.cls(DRULE, "DiagramRule")
    wb = dr.methods.get("with_base_module")
    ok = wb is not None and any(isinstance(s, ast.Assign) and dotted(s.targets[0]) == "self._name_relative_to_root" and dotted(s.value) == wb.param_names[1] for s in own_nodes(wb.node))
    res.add("C07.R3", f"{dr.module.relpath}::DiagramRule.with_base_module::stores the prefix", ok, "with_base_module stores its argument as the prefix" if ok else "with_base_module does not store its argument as the prefix", kind="flow")
    init = dr.methods.get("__init__")
    d = T._default_of(init, next(p for p in init.params if p.arg == "should_only_rule")) if init and "should_only_rule" in init.param_names else None
    ok = isinstance(d, ast.Constant) and d.value is True and any(isinstance(s, ast.Assign) and dotted(s.targets[0]) == "self._should_only_rule" and dotted(s.value) == "should_only_rule" for s in own_nodes(init.node))
    res.add("C07.R3", f"{dr.module.relpath}::DiagramRule.__init__::default mode", ok, "default mode is should-only and the flag is stored" if ok else "the default mode is not should-only (or the flag is not stored)", kind="structural")
    # pipeline
    aa = dr.methods.get("assert_applies")
    stages = []
    for s in aa.body:
        c = s.value if isinstance(s, (ast.Assign, ast.AnnAssign, ast.Expr)) else None
        if isinstance(c, ast.Call):
            tgt = dotted(s.targets[0]) if isinstance(s, ast.Assign) else dotted(s.target) if isinstance(s, ast.AnnAssign) else None
            stages.append((tgt, c))
    names = [c.func.attr if isinstance(c.func, ast.Attribute) else dotted(c.func) for _t, c in stages]
    ok = names == ["_assert_required_configuration_present", "parse", "_add_base_module_path", "_convert_to_rules", "_apply_rules"]
    if ok:
        ok = dotted(stages[2][1].args[0]) == stages[1][0] and dotted(stages[3][1].args[0]) == stages[2][0] and dotted(stages[4][1].args[0]) == stages[3][0] and dotted(stages[4][1].args[1]) == aa.param_names[1] and norm(stages[1][1].args[0]) == "self._file_path"
    res.add("C07.R3", f"{aa.relpath}::{aa.qualname}::pipeline", ok, "check -> parse(file) -> prefix -> convert -> apply(evaluable), each stage consuming its predecessor" if ok else f"the diagram-rule pipeline is {names}: a stage is skipped or does not consume its predecessor's result", where(aa, aa.node), kind="flow")
    for mname, want in (("_add_base_module_path", "self._name_relative_to_root"), ("_convert_to_rules", "self._should_only_rule")):
        m = dr.methods.get(mname)
        ok = m is not None and any(want in norm(c, 200) for c in calls_in(m.node))
        res.add("C07.R3", f"{dr.module.relpath}::DiagramRule.{mname}::uses {want}", ok, f"{mname} uses {want}" if ok else f"{mname} does not use {want}", kind="flow")
    ar = dr.methods.get("_apply_rules")
    ok = ar is not None and any(isinstance(c.func, ast.Attribute) and c.func.attr == "assert_applies" and isinstance(c.func.value, ast.Call) and dotted(c.func.value.func) == "MultipleRuleApplier" and dotted(c.func.value.args[0]) == ar.param_names[1] and dotted(c.args[0]) == ar.param_names[2] for c in calls_in(ar.node))
    res.add("C07.R3", f"{dr.module.relpath}::DiagramRule._apply_rules::all rules applied to the evaluable", ok, "all generated rules are applied together" if ok else "the generated rules are not all applied through MultipleRuleApplier(rules).assert_applies(evaluable)", kind="flow")
    return res


def _derives_from(f: FuncInfo, e: ast.expr | None, param: str, attr: str) -> bool:
    """Syntactic confirmation (the flow result feeds back through the dataclass field): the expression iterates `<param>.<attr>`."""
    if e is None:
        return False
    seen = set()
    work = [e]
    while work:
        x = work.pop()
        for n in ast.walk(x):
            if isinstance(n, ast.Attribute) and dotted(n.value) == param and n.attr == attr:
                return True
            if isinstance(n, ast.Name) and n.id not in seen:
                seen.add(n.id)
                for s in own_nodes(f.node):
                    if isinstance(s, ast.Assign) and dotted(s.targets[0]) == n.id:
                        work.append(s.value)
    return False
