"""Finite-model comparison of two normal forms (rules/c07_norm.py) - the semantic back-stop of the C07 rules.

When the normal form of the analysed code and of the specification differ *syntactically*, both are interpreted over small finite
models of the symbolic inputs (all component sets over <= 3 names, dependency maps over them, both modes, with / without prefix,
rule lists of <= 3 rules each of which may fail or pass).  Equal on every model: the difference is a spelling the normaliser does
not unify (no alarm).  Different on some model: a genuine difference, reported with that model as counterexample.  Terms are
interpreted, never code of /repo; unknown functions (`<convert>(...)`, caught exceptions, results of calls) are uninterpreted but
congruent (equal arguments -> equal value).  A term with an opaque part cannot be interpreted (`Cannot`): no verdict from here.
"""

from __future__ import annotations

import itertools
import random
import zlib
from collections import Counter

NAMES = ("a", "b", "c")


class Cannot(Exception):
    pass


def _h(*key) -> int:
    return zlib.crc32(repr(key).encode())


def subsets(xs):
    for r in range(len(xs) + 1):
        for c in itertools.combinations(xs, r):
            yield frozenset(c)


def value_for(name: str, choice: dict):
    """Value of a symbolic input under the finite choice (per base name; tagged names like `M<...>` get derived values)."""
    base = name.split("<")[0]
    salt = "" if base == name else name
    # the diagram parsed from another path: other names (one mark per distinct path term)
    mark = "" if not salt else "'" if salt[len(base):] == "<PATH2>" else "'" + str(_h(salt[len(base):]) % 89)
    if base == "M":
        ms = choice["M"]
        return ms if not salt else frozenset(x + mark for x in ms)
    if base == "D":
        d = choice["D"]
        return d if not salt else {k + mark: frozenset(x + mark for x in v) for k, v in d.items()}
    if base == "FLAG":
        return choice["FLAG"]
    if base == "P":
        return choice["P"]
    if base == "R":
        return choice["R"]
    return ("tok", name)


def all_models(syms: set[str], limit: int = 400):
    bases = {s.split("<")[0] for s in syms}
    dims = []
    if "M" in bases:
        dims.append(("M", list(subsets(NAMES))))
    if "D" in bases:
        per_key = [None, *subsets(NAMES)]
        ds = []
        for combo in itertools.product(per_key, repeat=len(NAMES)):
            ds.append({k: v for k, v in zip(NAMES, combo) if v is not None})
        dims.append(("D", ds))
    if "FLAG" in bases:
        dims.append(("FLAG", [True, False]))
    if "P" in bases:
        dims.append(("P", [None, "p"]))
    if "R" in bases:
        dims.append(("R", [(), ("r1",), ("r1", "r2"), ("r1", "r2", "r3")]))
    total = 1
    for _n, vs in dims:
        total *= len(vs)
    if total <= limit:
        for combo in itertools.product(*[vs for _n, vs in dims]):
            yield {n: v for (n, _vs), v in zip(dims, combo)}
        return
    # all models over two names exhaustively, then a fixed pseudo-random sample of the rest

    def small(ch) -> bool:
        if "c" in ch.get("M", ()):
            return False
        d = ch.get("D", {})
        return "c" not in d and all("c" not in v for v in d.values())

    for combo in itertools.product(*[vs for _n, vs in dims]):
        ch = {n: v for (n, _vs), v in zip(dims, combo)}
        if small(ch):
            yield ch
    rnd = random.Random(7)
    for _ in range(limit):
        yield {n: rnd.choice(vs) for n, vs in dims}


class Interp:
    def __init__(self, choice: dict, salt: int = 0) -> None:
        self.choice = choice
        self.salt = salt

    def oracle(self, *key) -> bool:
        return bool(_h(self.salt, *key) & 1)

    # ------------------------------------------------------------------ values
    def val(self, t, env):
        if not isinstance(t, tuple) or not t:
            raise Cannot(f"non-term {t!r}")
        tag = t[0]
        if tag == "sym":
            return value_for(t[1], self.choice)
        if tag == "const":
            return t[1]
        if tag in ("class", "func", "builtin", "ext"):
            return ("tok", f"{tag} {t[1]}")  # a named thing of the program: itself
        if tag == "var":
            if t not in env:
                raise Cannot("unbound variable")
            return env[t]
        if tag == "tuple":
            return tuple(self.val(x, env) for x in t[1])
        if tag in ("pair", "pairacc"):
            return ("pair", self.freeze(self.val(t[1], env)), self.freeze(self.val(t[2], env)))
        if tag == "idx":
            x = self.freeze(self.val(t[1], env))
            if len(t) > 3 and t[3] is not None:
                # position of the element in the enumerated sequence (every sequence over a model set is in the model's one order)
                seq = [self.freeze(y) for y in self.iterate(self.val(t[3], env) if t[3][0] != "bag" else self.bag(t[3], env, multiset=False))]
                if x in seq:
                    return seq.index(x)
            return ("position", x)  # the model lists have no duplicates: one position per element
        if tag == "dictview":
            # a dict filled by `d[k] = v` stores: a later store to an equal key replaces the earlier one
            store: dict = {}
            for g in t[2][1]:
                self.gen_pairs(g, 0, dict(env), store)
            if t[1] == "values":
                return ("seq", tuple(store.values()))
            if t[1] == "items":
                return ("seq", tuple((k, v) for k, v in store.items()))
            return ("seq", tuple(store))
        if tag == "fstr":
            return "".join(self.as_str(self.val(p, env)) for p in t[1])
        if tag == "bag":
            return self.bag(t, env, multiset=False)
        if tag == "valof":
            d, k = self.val(t[1], env), self.val(t[2], env)
            if isinstance(d, dict):
                return d[k] if k in d else ("KeyError", k)
            return ("valof", self.freeze(d), k)
        if tag in ("getempty", "getnone"):
            d, k = self.val(t[1], env), self.val(t[2], env)
            if isinstance(d, dict):
                return d.get(k, frozenset() if tag == "getempty" else None)
            raise Cannot("get on a non-dict")
        if tag == "keys":
            d = self.val(t[1], env)
            return frozenset(d) if isinstance(d, dict) else ("keys", self.freeze(d))
        if tag == "ite":
            return self.val(t[2], env) if self.cond(t[1], env) else self.val(t[3], env)
        if tag == "fluent":
            root = (t[1][0], tuple(self.freeze(self.val(a, env)) for a in t[1][1]), tuple((k, self.freeze(self.val(v, env))) for k, v in t[1][2]))
            steps = tuple((m, tuple(self.freeze(self.val(a, env)) for a in args), tuple((k, self.freeze(self.val(v, env))) for k, v in kw)) for m, args, kw in t[2])
            return ("fluent", root, steps)
        if tag == "inst":
            return ("inst", t[1], tuple((k, self.freeze(self.val(v, env))) for k, v in t[2]))
        if tag == "stage":
            return ("stage", t[1], tuple(self.freeze(self.val(a, env)) for a in t[2]), tuple((k, self.freeze(self.val(v, env))) for k, v in t[3]))
        if tag == "exc":
            return ("exc", t[1], tuple(self.freeze(self.val(a, env)) for a in t[2]))
        if tag == "caught":
            return ("caught", t[1], t[2], self.scope(env))
        if tag == "result":
            return ("result", t[2], self.scope(env))
        if tag == "join":
            sep = self.val(t[1], env)
            parts = self.bag(t[2], env, multiset=True) if t[2][0] == "bag" else self.iterate(self.val(t[2], env))
            return ("joined", sep, tuple(sorted(self.as_str(x) for x in (parts.elements() if isinstance(parts, Counter) else parts))))
        if tag == "attr":
            v = self.freeze(self.val(t[1], env))
            if rooted_at_caught_value(v) or (isinstance(v, tuple) and v and v[0] == "caught"):
                return ("attr", v, t[2])
            # an attribute of an unknown object is an uninterpreted function that need not be injective: two different rules
            # may have the same subject (two values per attribute name)
            # (odd assignments: every object has the same value - e.g. all rules share one subject)
            return ("attrval", t[2], 0 if self.salt % 2 else _h(self.salt, "attr", v, t[2]) % 2)
        if tag == "index":
            v, i = self.val(t[1], env), self.val(t[2], env)
            if isinstance(v, tuple) and v and v[0] not in ("attr", "caught", "result", "tok", "pair", "fluent", "stage", "inst", "exc", "joined", "index") and isinstance(i, int):
                return v[i] if -len(v) <= i < len(v) else ("IndexError",)
            return ("index", self.freeze(v), i)  # positional access to an unordered collection: uninterpreted
        if tag == "slice":
            v = self.val(t[1], env) if t[1][0] != "bag" else self.bag(t[1], env, multiset=False)
            lo, hi, step = (self.val(x, env) for x in t[2:5])
            if lo in (None, 0) and hi is None and step in (None, 1):
                return v
            if len(t) > 5 and t[5].startswith("?"):
                raise Cannot("a slice whose bounds are " + t[5][1:])
            ints = all(x is None or (isinstance(x, int) and not isinstance(x, bool)) for x in (lo, hi, step))
            if ints and step != 0 and (isinstance(v, (frozenset, dict)) or (isinstance(v, tuple) and len(v) == 2 and v[0] == "seq")):
                return frozenset(self.freeze(x) for x in self.iterate(v)[lo:hi:step])  # selected in the model's one order
            if ints and step != 0 and isinstance(v, tuple) and all(isinstance(x, str) for x in v):
                return v[lo:hi:step]  # a model list (the rules R): in list order
            raise Cannot("an order-dependent selection (slice) of a sequence that is not a model collection")
        if tag == "arith":
            a, b = self.val(t[2], env), self.val(t[3], env)
            if isinstance(a, int) and isinstance(b, int):
                return a + b if t[1] == "+" else a - b
            return ("arith", t[1], self.freeze(a), self.freeze(b))  # arithmetic on a position: uninterpreted
        if tag == "len":
            v = t[1]
            if v[0] == "bag":
                return sum(self.bag(v, env, multiset=True).values())
            return len(self.iterate(self.val(v, env)))
        if tag == "str":
            return self.as_str(self.val(t[1], env))
        if tag == "effect":
            return ("effect", self.freeze(self.val(t[1], env)), t[2], tuple(self.freeze(self.val(a, env)) for a in t[3]), tuple((k, self.freeze(self.val(v, env))) for k, v in t[4]), t[5])
        if tag == "raise":
            return ("raise", self.freeze(self.val(t[1], env)))
        if tag in ("not", "and", "or", "truthy", "cmp", "in", "is", "raised", "isinstance", "any", "all"):
            return self.cond(t, env)
        raise Cannot(f"term `{tag}` cannot be interpreted")

    @staticmethod
    def scope(env) -> tuple:
        # only the bound *values* (variable identities differ between the two sides of a comparison)
        return tuple(sorted(repr(v) for v in env.values()))

    @staticmethod
    def as_str(v) -> str:
        if isinstance(v, str):
            return v
        if v is None or isinstance(v, (bool, int)):
            return str(v)
        return "<" + repr(v) + ">"

    def freeze(self, v):
        if isinstance(v, dict):
            return ("dict", tuple(sorted((k, self.freeze(x)) for k, x in v.items())))
        if isinstance(v, Counter):
            return ("bag", tuple(sorted((repr(k), n) for k, n in v.items())))
        if isinstance(v, (set, frozenset)):
            return frozenset(self.freeze(x) for x in v)
        if isinstance(v, list):
            return tuple(self.freeze(x) for x in v)
        return v

    def gen_pairs(self, g, i, env, store) -> None:
        _g, elt, fors, c = g
        if i == len(fors):
            if self.cond(c, env) and elt[0] in ("pair", "pairacc"):
                store[self.freeze(self.val(elt[1], env))] = self.freeze(self.val(elt[2], env))
            elif elt[0] not in ("pair", "pairacc"):
                raise Cannot("dict with a non-pair element")
            return
        v, src = fors[i]
        for x in self.iterate(self.val(src, env)):
            env2 = dict(env)
            env2[v] = x
            self.gen_pairs(g, i + 1, env2, store)

    def iterate(self, v):
        """Elements of a value used as an iterable (deterministic order)."""
        if isinstance(v, tuple) and len(v) == 2 and v[0] == "seq":
            return list(v[1])
        if isinstance(v, dict):
            return sorted(v)
        if isinstance(v, (frozenset, set)):
            return sorted(v, key=repr)
        if isinstance(v, Counter):
            return sorted(v.elements(), key=repr)
        if isinstance(v, tuple) and v and v[0] in ("stage", "valof", "attr", "index", "keys", "tok", "slice", "attrval", "elt"):
            # uninterpreted iterable: two distinct elements that depend on it
            return [("elt", v, 0), ("elt", v, 1)]
        if isinstance(v, tuple) and not (v and isinstance(v[0], str) and v[0] in ("pair", "fluent", "inst", "exc", "caught", "result", "joined", "KeyError")):
            return list(v)
        if v is None:
            return []
        raise Cannot(f"iteration over {v!r}")

    def bag(self, t, env, multiset: bool):
        out = Counter()
        for g in t[1]:
            self.gen(g, 0, dict(env), out)
        return out if multiset else frozenset(out)

    def gen(self, g, i, env, out) -> None:
        _g, elt, fors, c = g
        if i == len(fors):
            if self.cond(c, env):
                out[self.freeze(self.val(elt, env))] += 1
            return
        v, src = fors[i]
        for x in self.iterate(self.val(src, env)):
            env2 = dict(env)
            env2[v] = x
            self.gen(g, i + 1, env2, out)

    # ------------------------------------------------------------------ conditions
    def cond(self, c, env) -> bool:
        tag = c[0]
        if tag == "const":
            return bool(c[1])
        if tag == "not":
            return not self.cond(c[1], env)
        if tag == "and":
            return all(self.cond(x, env) for x in c[1])
        if tag == "or":
            return any(self.cond(x, env) for x in c[1])
        if tag == "truthy":
            if c[1][0] == "bag":
                return bool(self.bag(c[1], env, multiset=True))
            v = self.val(c[1], env)
            if v is None or isinstance(v, (bool, int, str, frozenset, dict, Counter)):
                return bool(v)
            if rooted_at_caught_value(v):
                return True  # the message of a violated rule is a non-empty string
            if isinstance(v, tuple) and len(v) == 3 and v[0] == "joined":
                return any(v[2]) or (len(v[2]) > 1 and bool(v[1]))  # the joined string is not empty
            if isinstance(v, tuple) and v and v[0] in ("tok", "attr", "index", "result", "valof", "caught", "elt", "attrval"):
                return self.oracle("truthy", v)
            return bool(v)
        if tag == "in":
            x = self.freeze(self.val(c[1], env))
            s = c[2]
            if s[0] == "bag":
                return x in self.bag(s, env, multiset=False)
            sv = self.val(s, env)
            if isinstance(sv, (frozenset, dict)):
                return x in sv
            if sv is None:
                return False
            if isinstance(sv, str) and isinstance(x, str):
                return x in sv
            return self.oracle("in", x, self.freeze(sv))
        if tag == "cmp":
            a, b = self.freeze(self.val(c[2], env)), self.freeze(self.val(c[3], env))
            if c[1] == "==":
                return a == b
            try:
                return {"<": a < b, "<=": a <= b, ">": a > b, ">=": a >= b}[c[1]]
            except (TypeError, KeyError):
                return self.oracle("cmp", c[1], a, b)
        if tag == "is":
            a, b = self.val(c[1], env), self.val(c[2], env)
            if a is None or b is None:
                return a is b
            return self.freeze(a) == self.freeze(b)
        if tag == "raised" and len(c[2]) == 1 and c[2][0].startswith("not "):
            # left by an exception that is no instance of the named classes
            if self.salt < 2 or any(self.cond(("raised", c[1], (x,)), env) for x in c[2][0][4:].split("|")):
                return False
            return self.oracle("raised", c[1], c[2], self.scope(env))
        if tag == "raised":
            if self.salt < 2:
                return True  # the first two assignments: every rule is violated
            return self.oracle("raised", c[1], c[2], self.scope(env))
        if tag in ("any", "all"):
            vals = [bool(x) for x in self.iterate(self.val(c[1], env))]
            return any(vals) if tag == "any" else all(vals)
        if tag == "isinstance":
            return self.oracle("isinstance", self.freeze(self.val(c[1], env)), repr(c[2]))
        if tag == "cut-short":
            return self.oracle("cut-short", self.scope(env))  # a loop left by `break`: some elements are not processed
        raise Cannot(f"condition `{tag}` cannot be interpreted")


def rooted_at_caught_value(v) -> bool:
    while isinstance(v, tuple) and v and v[0] in ("index", "attr") and len(v) > 1:
        v = v[1]
    return isinstance(v, tuple) and bool(v) and v[0] == "caught"


def syms_in(t, out=None) -> set[str]:
    out = out if out is not None else set()
    if isinstance(t, tuple) and t:
        if t[0] == "sym":
            out.add(t[1])
        else:
            for x in t:
                if isinstance(x, tuple):
                    syms_in(x, out)
    return out


def top(interp: Interp, n):
    if n[0] == "bag":
        return interp.bag(n, {}, multiset=True)
    v = interp.val(n, {})
    if isinstance(v, (frozenset, dict)):
        return Counter(interp.freeze(x) if not isinstance(v, dict) else ("pair", x, interp.freeze(v[x])) for x in v)
    return Counter([interp.freeze(v)])


def show_choice(ch: dict) -> str:
    parts = []
    for k, v in ch.items():
        if isinstance(v, frozenset):
            parts.append(f"{k}={{{', '.join(sorted(v))}}}")
        elif isinstance(v, dict):
            parts.append(f"{k}={{" + ", ".join(f"{a}: {{{', '.join(sorted(b))}}}" for a, b in sorted(v.items())) + "}")
        else:
            parts.append(f"{k}={v!r}")
    return ", ".join(parts)


def semantic_compare(na, ne, fixed: dict | None = None):
    """('equal', n models) | ('differ', text) | ('unknown', reason)."""
    syms = syms_in(na) | syms_in(ne)
    n = 0
    try:
        for ch in all_models(syms):
            if fixed and any(ch.get(k, v) != v for k, v in fixed.items()):
                continue
            for salt in range(8):  # eight assignments of the uninterpreted predicates (which rule fails, ...) per model
                ia, ie = Interp(ch, salt), Interp(ch, salt)
                a, e = top(ia, na), top(ie, ne)
                n += 1
                if a != e:
                    only_e = list((e - a).elements())[:2]
                    only_a = list((a - e).elements())[:2]
                    return "differ", f"for {show_choice(ch) or 'the symbolic inputs'}: specified but not computed {brief(only_e)}; computed but not specified {brief(only_a)}"
                if not any(s.split('<')[0] == "R" for s in syms) and salt == 0 and not has_oracle(na) and not has_oracle(ne):
                    break
    except Cannot as ex:
        return "unknown", str(ex)
    except (RecursionError, TypeError, KeyError, IndexError, ValueError) as ex:
        return "unknown", f"{type(ex).__name__}: {ex}"
    return "equal", n


def has_oracle(t) -> bool:
    if isinstance(t, tuple) and t:
        if t[0] in ("raised", "caught", "result", "stage"):
            return True
        return any(has_oracle(x) for x in t if isinstance(x, tuple))
    return False


def brief(xs) -> str:
    if not xs:
        return "nothing"
    return "; ".join(pretty(x)[:260] for x in xs)


def pretty(v) -> str:
    if isinstance(v, frozenset):
        return "{" + ", ".join(sorted(pretty(x) for x in v)) + "}"
    if isinstance(v, tuple) and v and v[0] == "fluent":
        root = v[1][0] + "(" + ", ".join(pretty(a) for a in v[1][1]) + ")"
        return root + "".join("." + m + "(" + ", ".join(pretty(a) for a in args) + ")" for m, args, _kw in v[2])
    if isinstance(v, tuple) and v and v[0] == "pair":
        return f"{pretty(v[1])}: {pretty(v[2])}"
    if isinstance(v, tuple) and v and v[0] == "tok":
        return v[1]
    if isinstance(v, tuple) and v and v[0] == "effect":
        return f"call {pretty(v[1])}.{v[2]}({', '.join(pretty(a) for a in v[3])}) [handlers: {', '.join(v[5]) or 'none'}]"
    if isinstance(v, tuple) and v and v[0] == "raise":
        return "raise " + pretty(v[1])
    if isinstance(v, tuple) and v and v[0] == "exc":
        return v[1] + "(" + ", ".join(pretty(a) for a in v[2]) + ")"
    if isinstance(v, tuple) and v and v[0] == "joined":
        return repr(v[1]) + ".join(" + ", ".join(x if not x.startswith("<('index'") else "<message>" for x in v[2]) + ")"
    if isinstance(v, tuple) and len(v) == 3 and v[0] == "index" and isinstance(v[1], tuple) and v[1][:1] == ("attr",) and isinstance(v[1][1], tuple) and v[1][1][:1] == ("caught",):
        scope = v[1][1][3]
        return "<message of " + (", ".join(val.strip("'") for val in scope) or "the failing rule") + ">"
    if isinstance(v, tuple) and v and v[0] == "elt":
        return f"element#{v[2]}"
    if isinstance(v, tuple):
        return "(" + ", ".join(pretty(x) for x in v) + ")"
    return repr(v)
