"""Normal form and comparison of the terms produced by rules/c07_sym.py.

Collections are compared as *bags modulo order*: every collection becomes a union of generators
    elt  for v0 in S0  for v1 in S1 ...  if cond
over atomic sources (a symbolic set, the keys of a symbolic dict, the value of a symbolic dict at a bound key, ...).  Nested
comprehensions / loops over already built collections are fused, `sorted`/`list`/`set`/... wrappers are dropped, set difference /
union / intersection become conditions, `D.items()` becomes `(k, D[k]) for k in D`, conditionals are split into guarded generators.
Conditions are compared by exhaustive evaluation over their atoms (core.guards).
"""

from __future__ import annotations

import itertools

from core.guards import atom as g_atom
from core.guards import equivalent as g_equivalent
from core.guards import f_and as g_and
from core.guards import f_not as g_not
from core.guards import f_or as g_or
from core.guards import satisfiable as g_satisfiable

from .c07_sym import COND_TAGS, FALSE, NONE, TRUE, WRAPPERS, c_and, c_not, c_or

EMPTY = ("bag", ())


class Norm:
    def __init__(self, assume: dict[str, bool] | None = None, cut_loops: set[int] | None = None, dict_syms: set[str] | None = None) -> None:
        self.assume = assume or {}
        self.dict_syms = dict_syms or set()
        self.list_syms = {"R"}  # symbolic inputs that may contain an element twice
        self.cut_loops = cut_loops or set()
        self.opaque: list[str] = []
        self.keyvars: dict = {}  # var -> name of the symbolic dict whose keys it ranges over
        self.srcof: dict = {}  # bound variable -> the source it ranges over
        self.n = 0

    def fresh(self):
        self.n += 1
        return ("var", -self.n)

    # ------------------------------------------------------------------ terms
    def N(self, t, sub=None):
        sub = sub or {}
        if not isinstance(t, tuple) or not t:
            return t
        tag = t[0]
        if tag in ("sym", "const", "caught", "result", "class", "func", "closure", "builtin", "ext", "reraise"):
            return t
        if tag == "var":
            return sub.get(t, t)
        if tag in COND_TAGS or tag in ("any", "all", "opaque-exit"):
            return self.simp(self.cond(t, sub))
        if tag in ("tuple",):
            return ("tuple", tuple(self.N(x, sub) for x in t[1]))
        if tag == "pair":
            return ("pair", self.N(t[1], sub), self.N(t[2], sub))
        if tag == "acc":  # d.setdefault(k, []).append(x): the entry of k accumulates
            return ("pairacc", self.N(t[1], sub), ("bag", (("g", self.N(t[2], sub), (), TRUE),)))
        if tag == "accsplat":
            return ("pairacc", self.N(t[1], sub), self.N(t[2], sub) if self.is_coll(self.N(t[2], sub)) else self.bag(t[2], sub))
        if tag == "index":
            v, i = self.N(t[1], sub), self.N(t[2], sub)
            if v[0] in ("tuple",) and i[0] == "const" and isinstance(i[1], int) and -len(v[1]) <= i[1] < len(v[1]):
                return v[1][i[1]]
            if v[0] == "pair" and i[0] == "const" and i[1] in (0, 1):
                return v[1 + i[1]]
            if v[0] == "ite":
                return self.N(("ite", v[1], ("index", v[2], i), ("index", v[3], i)), {})
            if v[0] == "sym":
                return ("valof", v, i)
            if v[0] == "bag" and not (i[0] == "const" and isinstance(i[1], int)):
                self.opaque.append("lookup in a constructed dict")
            return ("index", v, i)
        if tag == "get":
            d, k, dflt = self.N(t[1], sub), self.N(t[2], sub), self.N(t[3], sub)
            if d[0] == "sym":
                if k[0] == "var" and self.keyvars.get(k) == d:
                    return ("valof", d, k)
                if dflt == EMPTY or dflt == ("tuple", ()):
                    return ("getempty", d, k)
                if dflt == NONE:
                    return ("getnone", d, k)
            if d[0] == "bag":
                self.opaque.append("lookup in a constructed dict")
            return ("lookup", d, k, dflt)
        if tag == "attr":
            v = self.N(t[1], sub)
            if v[0] == "inst":
                for k, x in v[2]:
                    if k == t[2]:
                        return x
            if v[0] == "ite":
                return self.N(("ite", v[1], ("attr", v[2], t[2]), ("attr", v[3], t[2])), {})
            return ("attr", v, t[2])
        if tag == "fluent":
            root = (t[1][0], tuple(self.N(a, sub) for a in t[1][1]), tuple((k, self.N(v, sub)) for k, v in t[1][2]))
            steps = tuple((m, tuple(self.N(a, sub) for a in args), tuple((k, self.N(v, sub)) for k, v in kw)) for m, args, kw in t[2])
            return self.lift(("fluent", root, steps))
        if tag == "fstr":
            parts = []
            for p in t[1]:
                q = self.N(p, sub)
                if q[0] == "fstr":
                    parts.extend(q[1])
                else:
                    parts.append(q)
            merged = []
            for p in parts:
                if p[0] == "const" and isinstance(p[1], str) and merged and merged[-1][0] == "const" and isinstance(merged[-1][1], str):
                    merged[-1] = ("const", merged[-1][1] + p[1])
                else:
                    merged.append(p)
            if len(merged) == 1 and merged[0][0] in ("sym", "var"):
                return ("fstr", tuple(merged))
            return self.lift(("fstr", tuple(merged)))
        if tag == "ite":
            c = self.simp(self.cond(t[1], sub))
            if c == TRUE:
                return self.N(t[2], sub)
            if c == FALSE:
                return self.N(t[3], sub)
            a, b = self.N(t[2], sub), self.N(t[3], sub)
            if a == b:
                return a
            strong = ("bag", "valof", "getempty", "getnone", "keys")
            if (a[0] in strong or b[0] in strong) and self.is_coll(a) and self.is_coll(b):
                return self.bag(("ite", t[1], t[2], t[3]), sub)
            return ("ite", c, a, b)
        if tag in ("coll", "wrap", "setop", "concat", "keys", "values", "items", "flatten", "enumerate", "splatted", "perm", "comb", "product", "groupby"):
            if tag == "wrap" and t[1] not in WRAPPERS:
                self.opaque.append(f"wrapper {t[1]}")
            return self.bag(t, sub)
        if tag == "join":
            return ("join", self.N(t[1], sub), self.N(t[2], sub))
        if tag == "exc":
            return ("exc", t[1], tuple(self.N(a, sub) for a in t[2]))
        if tag == "stage":
            return ("stage", t[1], tuple(self.N(a, sub) for a in t[2]), tuple((k, self.N(v, sub)) for k, v in t[3]))
        if tag == "inst":
            return ("inst", t[1], tuple((k, self.N(v, sub)) for k, v in t[2]))
        if tag in ("len", "str"):
            return (tag, self.N(t[1], sub))
        if tag == "slice":
            base, lo, hi, st = (self.N(x, sub) for x in t[1:5])
            seq = t[5] if len(t) > 5 else self.seq_tag(t[1])
            # bounds that are positions must be positions in this very sequence (same elements, same order)
            for ix in subterms_tagged((lo, hi), "idx"):
                if len(ix) < 4 or ix[2] != seq or ix[3] is None or self.as_source(ix[3]) != self.as_source(base):
                    seq = "?positions of another sequence"
            return ("slice", base, lo, hi, st, seq)
        if tag == "arith":
            a, b = self.N(t[2], sub), self.N(t[3], sub)
            if a[0] == "const" and b[0] == "const" and isinstance(a[1], int) and isinstance(b[1], int):
                return ("const", a[1] + b[1] if t[1] == "+" else a[1] - b[1])
            if t[1] == "+" and a[0] == "const":
                a, b = b, a  # the constant last
            if b == ("const", 0):
                return a
            return ("arith", t[1], a, b)
        if tag == "opaque":
            self.opaque.append(t[1])
            return ("opaque", t[1], tuple(self.N(k, sub) for k in t[2]))
        if tag == "effect":
            return ("effect", self.N(t[1], sub), t[2], tuple(self.N(a, sub) for a in t[3]), tuple((k, self.N(v, sub)) for k, v in t[4]), t[5])
        if tag == "raise":
            return ("raise", self.N(t[1], sub))
        if tag == "boolop":
            vals = [self.N(x, sub) for x in t[2]]
            if t[1] == "or" and len(vals) == 2 and vals[1] == EMPTY:
                if vals[0][0] == "getnone":
                    return ("getempty", vals[0][1], vals[0][2])
                if self.is_coll(vals[0]):
                    return vals[0]  # `x or set()` for a collection x
            # python semantics: `a or b` is a when a is true, else b (`and` dually)
            rest = t[2][1] if len(t[2]) == 2 else ("boolop", t[1], t[2][1:])
            c = ("truthy", t[2][0])
            return self.N(("ite", c, t[2][0], rest) if t[1] == "or" else ("ite", c, rest, t[2][0]), sub)
        if tag in ("attrcall", "partial", "bound", "module", "starred", "valof", "getnone", "getempty", "lookup", "bag", "idx", "dictview", "pairacc", "methodcaller", "attrgetter", "itemgetter"):
            return tuple(self.N(x, sub) if isinstance(x, tuple) else x for x in t) if tag != "bag" else t
        self.opaque.append(f"term {tag}")
        return ("opaque", f"term {tag}", ())

    @staticmethod
    def is_coll(n) -> bool:
        return n[0] in ("bag", "valof", "getempty", "getnone", "keys") or (n[0] == "sym")

    def lift(self, t):
        """Hoists a conditional found directly among the arguments / parts of a term to the top."""
        tag = t[0]
        if tag == "fstr":
            for i, p in enumerate(t[1]):
                if p[0] == "ite":
                    a = ("fstr", t[1][:i] + (p[2],) + t[1][i + 1:])
                    b = ("fstr", t[1][:i] + (p[3],) + t[1][i + 1:])
                    return ("ite", p[1], self.renorm_fstr(a), self.renorm_fstr(b))
            return self.renorm_fstr(t)
        if tag == "fluent":
            for si, (m, args, kw) in enumerate(t[2]):
                for ai, a in enumerate(args):
                    if a[0] == "ite":
                        mk = lambda x: ("fluent", t[1], t[2][:si] + ((m, args[:ai] + (x,) + args[ai + 1:], kw),) + t[2][si + 1:])  # noqa: E731
                        return ("ite", a[1], self.lift(mk(a[2])), self.lift(mk(a[3])))
        return t

    def renorm_fstr(self, t):
        parts = []
        for p in t[1]:
            if p[0] == "fstr":
                parts.extend(p[1])
            else:
                parts.append(p)
        merged = []
        for p in parts:
            if p[0] == "const" and isinstance(p[1], str) and merged and merged[-1][0] == "const" and isinstance(merged[-1][1], str):
                merged[-1] = ("const", merged[-1][1] + p[1])
            else:
                merged.append(p)
        if len(merged) == 1 and merged[0][0] in ("sym", "var", "const") and not (merged[0][0] == "const" and not isinstance(merged[0][1], str)):
            return merged[0]  # f"{x}" of a string is the string
        for p in merged:
            if p[0] == "ite":
                return self.lift(("fstr", tuple(merged)))
        return ("fstr", tuple(merged))

    # ------------------------------------------------------------------ collections
    def bag(self, t, sub):
        gs = self.gens(t, sub)
        out = []
        for elt, fors, conds in gs:
            c = self.simp(c_and(conds))
            if c == FALSE:
                continue
            if elt[0] == "ite":
                # conditional element: two guarded generators
                out.append((elt[2], fors, self.simp(c_and([c, elt[1]]))))
                out.append((elt[3], fors, self.simp(c_and([c, c_not(elt[1])]))))
                continue
            out.append((elt, fors, c))
        # inside an iteration over a source, that source is not empty
        out = [(e, f, self.simp(nonempty_sources(c, f))) if f and c != TRUE else (e, f, c) for e, f, c in out]
        # the element is only looked at under the generator's condition
        out = [(restrict(e, c), f, c) if c != TRUE else (e, f, c) for e, f, c in out]
        out = [g for g in out if g[2] != FALSE and self.feasible(g)]
        out = self.merge_exclusive(self.use_equalities(out))
        if len(out) == 1:
            elt, fors, c = out[0]
            if c == TRUE and len(fors) == 1:
                v, src = fors[0]
                if elt == v:
                    return src
                if src[0] == "keys" and elt == ("pair", v, ("valof", src[1], v)):
                    return src[1]
        return ("bag", tuple(("g", e, f, c) for e, f, c in out))

    @staticmethod
    def use_equalities(gens):
        """A generator guarded by `a == b` (two symbolic inputs) may be written with either of them: choose the spelling that
        another generator of the bag already has, so that `e(a) if a == b` and `e(b) if not a == b` become one generator."""
        if len(gens) < 2:
            return gens
        heads = [canon_gen(("g", e, f, TRUE), {}, 0, with_cond=False) for e, f, _c in gens]
        out = list(gens)
        for i, (e, f, c) in enumerate(gens):
            lits = c[1] if c[0] == "and" else (c,)
            for lit in lits:
                if lit[0] == "cmp" and lit[1] == "==" and lit[2][0] == "sym" and lit[3][0] == "sym":
                    pairs = ((lit[2], lit[3]), (lit[3], lit[2]))
                elif lit[0] == "is" and lit[1][0] == "sym" and lit[2] == NONE:
                    pairs = ((NONE, lit[1]),)  # under `x is None` every None may be spelled x
                else:
                    continue
                done = False
                for a, b in pairs:
                    e2, f2 = replace_term(e, a, b), replace_term(f, a, b)
                    h2 = canon_gen(("g", e2, f2, TRUE), {}, 0, with_cond=False)
                    if h2 != heads[i] and any(h2 == h for j, h in enumerate(heads) if j != i):
                        rest = c_and([replace_term(x, a, b) if x != lit else x for x in lits])
                        out[i] = (e2, f2, rest)
                        done = True
                        break
                if done:
                    break
        return out

    def merge_exclusive(self, gens):
        """`e for v in S if c1` and `e for v in S if c2` with c1, c2 mutually exclusive are one generator `... if c1 or c2`."""
        if len(gens) < 2:
            return gens
        out: list = []
        heads: list = []
        for e, f, c in gens:
            head = canon_gen(("g", e, f, TRUE), {}, 0, with_cond=False)
            merged = False
            for i, h in enumerate(heads):
                if h != head:
                    continue
                e0, f0, c0 = out[i]
                ren = {v: v0 for (v, _s), (v0, _s0) in zip(f, f0)}
                c2 = subst(c, ren)
                names = {v: f"v{k}" for k, (v, _s) in enumerate(f0)}
                try:
                    exclusive = not g_satisfiable(g_and([to_formula(c0, names, len(f0)), to_formula(c2, names, len(f0))]))
                except Exception:  # noqa: BLE001
                    exclusive = False
                if exclusive:
                    out[i] = (e0, f0, self.simp(c_or([c0, c2])))
                    merged = True
                    break
            if not merged:
                out.append((e, f, c))
                heads.append(head)
        return out

    @staticmethod
    def feasible(g) -> bool:
        """False when the condition of a generator is contradictory (decided over the canonical text of its atoms)."""
        _e, fors, c = g
        if c[0] != "and":
            return True
        names = {v: f"v{i}" for i, (v, _s) in enumerate(fors)}
        try:
            return g_satisfiable(to_formula(c, names, len(fors)))
        except Exception:  # noqa: BLE001 - too many atoms
            return True

    def unique_keys(self, d) -> bool:
        """Keys of a dict in normal form that provably never collide (or entries that accumulate instead of overwriting)."""
        gens = d[1]
        if all(g[1][0] == "pairacc" for g in gens):
            return True
        if all(not g[2] for g in gens):
            keys = [g[1][1] for g in gens if g[1][0] == "pair"]
            return len(keys) == len(gens) and all(k[0] == "const" for k in keys) and len(set(keys)) == len(keys)
        if len(gens) != 1 or gens[0][1][0] != "pair":
            return False
        _g, elt, fors, _c = gens[0]
        return self.injective(elt[1], fors)

    def injective(self, key, fors) -> bool:
        if key[0] == "idx":
            return True  # position in an enumeration
        if key[0] == "tuple":
            return any(self.injective(x, fors) for x in key[1])
        if len(fors) != 1:
            return False
        v, src = fors[0]
        setlike = src[0] in ("keys", "valof", "getempty") or (src[0] == "sym" and src[1] not in self.list_syms)
        if not setlike:
            return False
        if key == v:
            return True
        if key[0] == "fstr":
            hits = [p for p in key[1] if p == v]
            others = [p for p in key[1] if p != v]
            return len(hits) == 1 and not any(has_var(p) for p in others)
        return False

    def atomic(self, n):
        v = self.fresh()
        if n[0] == "sym" and n[1] in self.dict_syms:
            n = ("keys", n)
        if n[0] == "keys":
            self.keyvars[v] = n[1]
        self.srcof[v] = n
        return [(v, ((v, n),), [])]

    # sequences: positions and slices ------------------------------------
    @staticmethod
    def seq_tag(t) -> str:
        """What fixes the order of a sequence term: its wrapper chain down to (and including) the first `sorted`; copies (`list`,
        `tuple`, `iter`) keep the order.  Two iterations of the same unmodified collection under the same tag visit the same
        sequence."""
        chain = []
        while True:
            if t[0] == "wrap" and t[1] in WRAPPERS:
                name, t = t[1] + (":" + t[3] if len(t) > 3 else ""), t[2]
            elif t[0] == "coll" and t[1] in ("list", "set") and len(t[2]) == 1 and t[2][0][0] == "splat":
                name, t = t[1], t[2][0][1]
            else:
                break
            if name in ("list", "tuple", "iter"):
                continue
            chain.append(name)
            if name.startswith("sorted"):
                break
        return "/".join(chain)

    def distinct_source(self, src) -> bool:
        """A source without duplicates: a symbolic set, the keys of a dict, a set stored in a symbolic dict."""
        return src[0] in ("keys", "valof", "getempty") or (src[0] == "sym" and src[1] not in self.list_syms)

    def as_source(self, n):
        return ("keys", n) if n[0] == "sym" and n[1] in self.dict_syms else n

    def complement_of_position(self, p, q, sub):
        """`S[:i] + S[i+1:]` where i is the position of the element x in an enumeration of the same sequence S of distinct
        elements: every element of S except x.  Returns the generators or None."""
        if p[0] != "slice" or q[0] != "slice":
            return None
        lo1, hi1, st1 = (self.N(x, sub) for x in p[2:5])
        lo2, hi2, st2 = (self.N(x, sub) for x in q[2:5])
        unit = (NONE, ("const", 1))
        if lo1 not in (NONE, ("const", 0)) or st1 not in unit or st2 not in unit or hi2 != NONE:
            return None
        if hi1[0] != "idx" or hi1[1][0] != "var" or lo2 != ("arith", "+", hi1, ("const", 1)):
            return None
        x, tag = hi1[1], hi1[2] if len(hi1) > 2 else None
        if tag is None or self.seq_tag(p[1]) != tag or self.seq_tag(q[1]) != tag:
            return None
        s1, s2 = self.as_source(self.N(p[1], sub)), self.as_source(self.N(q[1], sub))
        if s1 != s2 or self.srcof.get(x) != s1 or not self.distinct_source(s1):
            return None
        out = []
        for e, f, cs in self.atomic(s1):
            out.append((e, f, cs + [c_not(self.eq(e, x))]))
        return out

    # grouping -------------------------------------------------------------
    @staticmethod
    def component(elt, k):
        if k == "self":
            return elt
        if elt[0] == "tuple" and isinstance(k, int) and 0 <= k < len(elt[1]):
            return elt[1][k]
        return ("index", elt, ("const", k))

    def runs_by(self, raw, k, sub) -> bool:
        """True when, in the sequence `raw` (a term of the evaluator, order still visible), elements with equal component k are
        next to each other and come from ONE pass over a source of distinct values - so that itertools.groupby(raw, component k)
        yields exactly one group per value."""
        if raw[0] == "wrap" and raw[1] in ("list", "tuple", "iter"):
            return self.runs_by(raw[2], k, sub)
        if raw[0] == "wrap" and raw[1] == "sorted":
            how = raw[3] if len(raw) > 3 else ""
            how = how[:-3] if how.endswith("rev") else how
            # sorted by that very component, or sorted as tuples (the first component leads)
            return how == (f"key{k}" if k != "self" else "") or (how == "" and k == 0)
        if raw[0] in ("perm", "comb", "product") and k == 0:
            first = raw[1] if raw[0] != "product" else raw[1][0]
            return self.distinct_source(self.as_source(self.N(first, sub)))
        if raw[0] == "coll" and raw[1] in ("list", "iter") and len(raw[2]) == 1:
            it = raw[2][0]
            if it[0] == "splat":
                return self.runs_by(it[1], k, sub)
            if it[0] == "gen" and it[2] and it[2][0][0] == "for" and not (isinstance(it[1], tuple) and it[1] and it[1][0] == "splatted"):
                _f, var, src, _loop = it[2][0]
                key = self.component(it[1], k)
                if key == var and self.distinct_source(self.as_source(self.N(src, sub))):
                    return True  # outermost loop over distinct values; whatever is nested inside stays together
                rest_are_filters = all(b[0] == "if" for b in it[2][1:])
                if rest_are_filters:
                    if key == var:
                        return self.runs_by(src, "self", sub)
                    if key[0] == "index" and key[1] == var and key[2][0] == "const":
                        return self.runs_by(src, key[2][1], sub)  # a filter / a map that keeps the component
        return False

    def groups(self, t, sub):
        """Generators of `groupby(X, key)`: one (key, group) per value of the key - when X has one generator whose outermost
        variable is the key and `runs_by` holds."""
        _t, raw, k = t
        if k is None or not self.runs_by(raw, k, sub):
            return None
        gs = self.gens(raw, sub)
        if len(gs) != 1:
            return None
        elt, fors, conds = gs[0]
        if not fors or not self.distinct_source(fors[0][1]):
            return None
        outer = fors[0][0]
        if self.component(elt, k) != outer:
            return None
        inner_fors = fors[1:]
        group = ("bag", (("g", elt, tuple(inner_fors), self.simp(c_and(conds))),))
        return [(("tuple", (outer, group)), (fors[0],), [self.truthy(group)])]

    def concat_parts(self, t) -> list:
        if t[0] == "concat":
            return self.concat_parts(t[1]) + self.concat_parts(t[2])
        if t[0] == "coll" and t[1] in ("list", "iter") and t[2] and all(it[0] == "splat" for it in t[2]):
            return [x for it in t[2] for x in self.concat_parts(it[1])]
        return [t]

    def gens_concat(self, parts, sub):
        out = []
        i = 0
        while i < len(parts):
            hit = self.complement_of_position(parts[i], parts[i + 1], sub) if i + 1 < len(parts) else None
            if hit is not None:
                out.extend(hit)
                i += 2
                continue
            p = parts[i]
            # a part that is itself a chain of splats was flattened by concat_parts: it cannot recurse into gens_concat again
            out.extend(self.gens(p, sub) if p[0] != "concat" else self.gens_concat(self.concat_parts(p), sub))
            i += 1
        return out

    def refresh(self, g):
        """Fresh copy of a generator of an already normalised bag (its bound variables renamed)."""
        _g, elt, fors, c = g
        ren = {}
        nf = []
        for v, src in fors:
            w = self.fresh()
            src2 = subst(src, ren)
            if src2[0] == "keys":
                self.keyvars[w] = src2[1]
            self.srcof[w] = src2
            ren[v] = w
            nf.append((w, src2))
        return (subst(elt, ren), tuple(nf), [subst(c, ren)])

    def gens_nf(self, n):
        if n[0] == "bag":
            return [self.refresh(g) for g in n[1]]
        if n[0] == "sym":
            return self.atomic(n)
        if n[0] == "ite":
            a = [(e, f, cs + [n[1]]) for e, f, cs in self.gens_nf(n[2])]
            b = [(e, f, cs + [c_not(n[1])]) for e, f, cs in self.gens_nf(n[3])]
            return a + b
        if n[0] in ("getempty", "getnone"):
            return [(e, f, cs + [self.member(n[2], ("keys", n[1]))]) for e, f, cs in self.atomic(("valof", n[1], n[2]))]
        if n[0] in ("const",) and n[1] is None:
            self.opaque.append("iteration over None")
        if n[0] in ("tuple",):
            return [(x, (), []) for x in n[1]]
        return self.atomic(n)

    def gens(self, t, sub):
        tag = t[0]
        if tag == "coll":
            parts = self.concat_parts(t)
            if len(parts) > 1 and any(p[0] == "slice" for p in parts):
                return self.gens_concat(parts, sub)
            out = []
            for it in t[2]:
                if it[0] == "elem":
                    out.append((self.N(it[1], sub), (), []))
                elif it[0] == "splat":
                    out.extend(self.gens(it[1], sub))
                else:
                    out.extend(self.expand(it[1], it[2], sub))
            return out
        if tag == "wrap":
            return self.gens(t[2], sub)
        if tag == "splatted":
            return self.gens(t[1], sub)
        if tag == "concat":
            return self.gens_concat(self.concat_parts(t), sub)
        if tag == "setop":
            a = self.gens(t[2], sub)
            if t[1] == "|":
                return a + self.gens(t[3], sub)
            nb = self.N(t[3], sub)
            if t[1] == "-":
                return [(e, f, cs + [c_not(self.member(e, nb))]) for e, f, cs in a]
            if t[1] == "&":
                return [(e, f, cs + [self.member(e, nb)]) for e, f, cs in a]
            self.opaque.append("symmetric difference")
            return self.atomic(("opaque", "symmetric difference", ()))
        if tag == "ite":
            c = self.simp(self.cond(t[1], sub))
            a = [] if c == FALSE else [(e, f, cs + [c]) for e, f, cs in self.gens(t[2], sub)]
            b = [] if c == TRUE else [(e, f, cs + [c_not(c)]) for e, f, cs in self.gens(t[3], sub)]
            return a + b
        if tag in ("keys", "values", "items"):
            d = self.N(t[1], sub)
            if d[0] == "sym":
                k = self.fresh()
                self.keyvars[k] = d
                self.srcof[k] = ("keys", d)
                val = ("valof", d, k)
                elt = {"keys": k, "values": val, "items": ("tuple", (k, val))}[tag]
                return [(elt, ((k, ("keys", d)),), [])]
            if d[0] == "bag" and tag != "keys" and not self.unique_keys(d):
                # `d[k] = v` overwrites: with keys that may collide the dict is not the bag of its stores
                return self.atomic(("dictview", tag, d))
            if d[0] == "bag":
                out = []
                for e, f, cs in self.gens_nf(d):
                    if e[0] == "pairacc":
                        e = ("pair", e[1], e[2])
                    if e[0] == "pair":
                        out.append(({"keys": e[1], "values": e[2], "items": ("tuple", (e[1], e[2]))}[tag], f, cs))
                    else:
                        self.opaque.append("dict view of a non-pair element")
                        out.append((("opaque", "dict view", (e,)), f, cs))
                return out
            return self.atomic((tag, d))
        if tag == "flatten":
            out = []
            for e, f, cs in self.gens(t[1], sub):
                for e2, f2, cs2 in self.gens_nf(e):
                    out.append((e2, f + f2, cs + cs2))
            return out
        if tag == "perm":
            # permutations(S, 2) of a sequence of distinct elements: the ordered pairs of different elements, first component outermost
            src = self.as_source(self.N(t[1], sub))
            if t[2] == 2 and self.distinct_source(src):
                out = []
                for e1, f1, c1 in self.gens(t[1], sub):
                    for e2, f2, c2 in self.gens(t[1], sub):
                        out.append((("tuple", (e1, e2)), f1 + f2, c1 + c2 + [c_not(self.eq(e1, e2))]))
                return out
            self.opaque.append("itertools.permutations of a sequence that may contain an element twice / of another length than 2")
            return self.atomic(("opaque", "permutations", (src,)))
        if tag == "comb":
            # combinations(S, 2): the pairs whose first element comes earlier in S
            src = self.as_source(self.N(t[1], sub))
            seq = self.seq_tag(t[1])
            if self.distinct_source(src):
                out = []
                for e1, f1, c1 in self.gens(t[1], sub):
                    for e2, f2, c2 in self.gens(t[1], sub):
                        if e1[0] != "var" or e2[0] != "var":
                            break
                        earlier = ("cmp", "<", ("idx", e1, seq, self.srcof.get(e1)), ("idx", e2, seq, self.srcof.get(e2)))
                        out.append((("tuple", (e1, e2)), f1 + f2, c1 + c2 + [earlier]))
                    else:
                        continue
                    break
                else:
                    return out
            self.opaque.append("itertools.combinations of a sequence that may contain an element twice")
            return self.atomic(("opaque", "combinations", (src,)))
        if tag == "product":
            out = [(("tuple", ()), (), [])]
            for seq in t[1]:
                out = [(("tuple", e[1] + (e2,)), f + f2, c + c2) for e, f, c in out for e2, f2, c2 in self.gens(seq, sub)]
            return out
        if tag == "groupby":
            hit = self.groups(t, sub)
            if hit is not None:
                return hit
            self.opaque.append("itertools.groupby over a sequence that is not known to keep equal keys together")
            return self.atomic(("opaque", "groupby", (self.N(t[1], sub),)))  # the inputs stay visible: nothing is "lost"
        if tag == "enumerate":
            seq = self.seq_tag(t[1])
            return [(("tuple", (("idx", e, seq, self.srcof.get(e) if e[0] == "var" else None), e)), f, cs) for e, f, cs in self.gens(t[1], sub)]
        if tag == "boolop":
            n = self.N(t, sub)
            return self.gens_nf(n)
        # anything else: normalise, then iterate the normal form
        return self.gens_nf(self.N(t, sub))

    def expand(self, elt, binders, sub):
        states = [(dict(sub), (), [])]
        for b in binders:
            nxt = []
            if b[0] == "if":
                for s, f, cs in states:
                    nxt.append((s, f, cs + [self.cond(b[1], s)]))
            else:
                _tag, var, it, loopid = b
                for s, f, cs in states:
                    for e2, f2, cs2 in self.gens(it, s):
                        if e2[0] in ("pair", "pairacc"):
                            e2 = e2[1]  # iterating a dict yields its keys
                        s2 = dict(s)
                        s2[var] = e2
                        extra = [("cut-short",)] if loopid in self.cut_loops else []
                        nxt.append((s2, f + f2, cs + cs2 + extra))
            states = nxt
        out = []
        for s, f, cs in states:
            if isinstance(elt, tuple) and elt and elt[0] == "splatted":
                for e2, f2, cs2 in self.gens(elt[1], s):
                    out.append((e2, f + f2, cs + cs2))
            else:
                out.append((self.N(elt, s), f, cs))
        return out

    def member(self, x, coll):
        """Condition `x in coll` for a normalised collection."""
        if x[0] == "ite":
            return c_or([c_and([x[1], self.member(x[2], coll)]), c_and([c_not(x[1]), self.member(x[3], coll)])])
        if coll[0] == "ite":
            return c_or([c_and([coll[1], self.member(x, coll[2])]), c_and([c_not(coll[1]), self.member(x, coll[3])])])
        if coll[0] in ("getempty", "getnone"):
            return c_and([self.member(coll[2], ("keys", coll[1])), ("in", x, ("valof", coll[1], coll[2]))])
        if coll[0] == "sym" and coll[1] in self.dict_syms:
            coll = ("keys", coll)
        if coll[0] == "keys" and x[0] == "var" and self.keyvars.get(x) == coll[1]:
            return TRUE
        if coll[0] == "bag":
            alts = []
            for g in coll[1]:
                elt, fors, cs = self.refresh(g)
                c = cs[0]
                if not fors:
                    alts.append(c_and([c, self.eq(x, elt)]))
                elif len(fors) == 1 and elt == fors[0][0]:
                    alts.append(c_and([("in", x, fors[0][1]), subst(c, {elt: x})]))
                else:
                    return ("in", x, coll)
            return c_or(alts)
        return ("in", x, coll)

    @staticmethod
    def eq(a, b):
        if a == b:
            return TRUE
        if a[0] == "const" and b[0] == "const":
            return ("const", a[1] == b[1])
        return ("cmp", "==", a, b)

    # ------------------------------------------------------------------ conditions
    def cond(self, c, sub):
        tag = c[0]
        if tag == "const":
            return ("const", bool(c[1]))
        if tag == "not":
            return c_not(self.cond(c[1], sub))
        if tag == "and":
            return c_and([self.cond(x, sub) for x in c[1]])
        if tag == "or":
            return c_or([self.cond(x, sub) for x in c[1]])
        if tag == "truthy":
            return self.truthy(self.N(c[1], sub))
        if tag == "in":
            coll = self.N(c[2], sub)
            return self.member(self.N(c[1], sub), coll)
        if tag in ("cmp", "is"):
            ops = [self.N(x, sub) for x in (c[2:4] if tag == "cmp" else c[1:3])]
            for i, o in enumerate(ops):
                if o[0] == "ite":
                    mk = lambda v: (("cmp", c[1], v, ops[1]) if i == 0 else ("cmp", c[1], ops[0], v)) if tag == "cmp" else (("is", v, ops[1]) if i == 0 else ("is", ops[0], v))  # noqa: E731,B023
                    return c_or([c_and([o[1], self.cond(mk(o[2]), {})]), c_and([c_not(o[1]), self.cond(mk(o[3]), {})])])
        if tag == "cmp":
            a, b = self.N(c[2], sub), self.N(c[3], sub)
            if c[1] == "==":
                return self.eq(a, b)
            return ("cmp", c[1], a, b)
        if tag == "is":
            a, b = self.N(c[1], sub), self.N(c[2], sub)
            if a == b:
                return TRUE
            if a[0] == "const" and b[0] == "const":
                return ("const", a[1] is b[1])
            for x, y in ((a, b), (b, a)):
                if y == NONE and x[0] in ("bag", "fstr", "inst", "fluent", "tuple", "stage"):
                    return FALSE
                if y == NONE and rooted_at_caught(x):
                    return FALSE  # the message of a caught AssertionError is a string
                if y == NONE and x[0] == "getnone":
                    return c_not(self.member(x[2], ("keys", x[1])))
                if y == NONE and x[0] in ("getempty", "valof"):
                    return FALSE
            return ("is", a, b)
        if tag in ("any", "all"):
            n = self.N(c[1], sub)
            if n[0] == "bag" and all(not g[2] for g in n[1]):
                parts = [c_and([g[3], self.truthy(g[1])]) if tag == "any" else c_or([c_not(g[3]), self.truthy(g[1])]) for g in n[1]]
                return c_or(parts) if tag == "any" else c_and(parts)
            return (tag, n)
        if tag == "isinstance":
            return ("isinstance", self.N(c[1], sub), self.N(c[2], sub))
        if tag in ("raised", "opaque-exit", "cut-short"):
            return c
        return self.truthy(self.N(c, sub))

    def truthy(self, n):
        tag = n[0]
        if tag == "const":
            return ("const", bool(n[1]))
        if tag in COND_TAGS or tag in ("any", "all"):
            return n
        if tag == "bag":
            if not n[1]:
                return FALSE
            if any(not g[2] and g[3] == TRUE for g in n[1]):
                return TRUE
            # whether a collection is empty does not depend on what its elements are
            gens = []
            for g in n[1]:
                u = ("g", ("const", "*"), g[2], g[3])
                if u not in gens:
                    gens.append(u)
            return ("truthy", ("bag", tuple(gens)))
        if tag == "len":
            return self.truthy(n[1])
        if tag in ("getnone", "getempty"):
            return c_and([self.member(n[2], ("keys", n[1])), ("truthy", ("valof", n[1], n[2]))])
        if tag == "join" and n[2][0] == "bag" and all(rooted_at_caught(g[1]) and g[1][0] != "caught" for g in n[2][1]):
            return self.truthy(n[2])  # joined messages of violated rules (non-empty strings): empty iff there is none
        if tag in ("inst", "fluent", "stage", "exc"):
            return TRUE
        if rooted_at_caught(n) and n[0] != "caught":
            return TRUE  # the message of a violated rule is a non-empty string
        if tag == "ite":
            return c_or([c_and([n[1], self.truthy(n[2])]), c_and([c_not(n[1]), self.truthy(n[3])])])
        return ("truthy", n)

    def simp(self, c):
        """Canonical form of a condition: constants folded (with the assumed atoms), then the disjunction of all prime
        implicants (Blake canonical form) - equivalent conditions over the same atoms get the same structure."""
        return blake(self.simp0(c))

    def simp0(self, c):
        tag = c[0]
        if tag == "const":
            return c
        if tag == "not":
            x = c[1]
            if x[0] == "not":
                return self.simp0(x[1])
            if x[0] == "and":
                return self.simp0(("or", tuple(c_not(y) for y in x[1])))
            if x[0] == "or":
                return self.simp0(("and", tuple(c_not(y) for y in x[1])))
            return c_not(self.simp0(x))
        if tag in ("and", "or"):
            parts = []
            for x in c[1]:
                s = self.simp0(x)
                if s[0] == tag:
                    parts.extend(s[1])
                else:
                    parts.append(s)
            seen = []
            for p in parts:
                if p not in seen:
                    seen.append(p)
            if tag == "and":
                # a non-empty collection built from a source implies that the source is not empty
                implied = set()
                for p in seen:
                    if p[0] == "truthy" and p[1][0] == "bag" and p[1][1]:
                        per_gen = []
                        for g in p[1][1]:
                            srcs = set()
                            for _v, src in g[2]:
                                srcs.add(("truthy", src))
                                if src[0] == "keys":
                                    srcs.add(("truthy", src[1]))
                            per_gen.append(srcs)
                        implied |= set.intersection(*per_gen)
                seen = [p for p in seen if p not in implied]
            if tag == "and" and any(c_not(p) in seen for p in seen):
                return FALSE
            if tag == "and":
                # an exception that is an instance of A is not "an exception that is no instance of A" (with statements)
                for p in seen:
                    if p[0] == "raised" and len(p[2]) == 1 and p[2][0].startswith("not "):
                        excluded = set(p[2][0][4:].split("|"))
                        if any(q[0] == "raised" and q[1] == p[1] and q is not p and set(q[2]) <= excluded for q in seen):
                            return FALSE
            if tag == "or" and any(c_not(p) in seen for p in seen):
                return TRUE
            return c_and(seen) if tag == "and" else c_or(seen)
        key = canon(c, {}, 0)
        if key in self.assume:
            return ("const", self.assume[key])
        return c


def blake(c):
    if c[0] not in ("and", "or", "not"):
        return c
    atoms: list = []

    def collect(x):
        if x[0] in ("and", "or"):
            for y in x[1]:
                collect(y)
        elif x[0] == "not":
            collect(x[1])
        elif x[0] != "const" and x not in atoms:
            atoms.append(x)

    collect(c)
    n = len(atoms)
    if n == 0 or n > 8:
        return c

    def ev(x, env):
        if x[0] == "const":
            return x[1]
        if x[0] == "not":
            return not ev(x[1], env)
        if x[0] == "and":
            return all(ev(y, env) for y in x[1])
        if x[0] == "or":
            return any(ev(y, env) for y in x[1])
        return env[atoms.index(x)]

    minterms = [bits for bits in itertools.product([False, True], repeat=n) if ev(c, bits)]
    if not minterms:
        return FALSE
    if len(minterms) == 2 ** n:
        return TRUE
    # Quine-McCluskey: all prime implicants (None = don't care)
    current = {tuple(m) for m in minterms}
    primes = set()
    while current:
        used = set()
        nxt = set()
        cur = list(current)
        for a_i in range(len(cur)):
            for b_i in range(a_i + 1, len(cur)):
                a, b = cur[a_i], cur[b_i]
                diff = [k for k in range(n) if a[k] != b[k]]
                if len(diff) == 1 and a[diff[0]] is not None and b[diff[0]] is not None:
                    m = list(a)
                    m[diff[0]] = None
                    nxt.add(tuple(m))
                    used.add(a)
                    used.add(b)
        primes |= current - used
        current = nxt
    terms = []
    for p in sorted(primes, key=lambda t: tuple(2 if v is None else int(v) for v in t)):
        lits = [atoms[k] if p[k] else c_not(atoms[k]) for k in range(n) if p[k] is not None]
        terms.append(c_and(lits))
    return c_or(terms)


def restrict(t, c):
    """Resolves conditionals inside `t` that the condition `c` (a literal or a conjunction of literals) decides."""
    known = set(c[1]) if c[0] == "and" else {c}

    def walk(x):
        if not isinstance(x, tuple) or not x:
            return x
        if x[0] == "ite":
            if x[1] in known:
                return walk(x[2])
            if c_not(x[1]) in known:
                return walk(x[3])
        if x[0] == "bag":
            return x  # nested collections carry their own conditions
        return tuple(walk(y) if isinstance(y, tuple) else y for y in x)

    return walk(t)


def nonempty_sources(c, fors):
    known = set()
    for _v, src in fors:
        known.add(("truthy", src))
        if src[0] == "keys":
            known.add(("truthy", src[1]))

    def walk(x):
        if x in known:
            return TRUE
        if x[0] == "not":
            return c_not(walk(x[1]))
        if x[0] == "and":
            return c_and([walk(y) for y in x[1]])
        if x[0] == "or":
            return c_or([walk(y) for y in x[1]])
        return x

    return walk(c)


def replace_term(t, a, b):
    if t == a:
        return b
    if isinstance(t, tuple) and len(t) == 2 and t[0] == "sym" and a[0] == "sym" and b[0] == "sym":
        # inputs derived from a (the diagram parsed from path a is `M<a>`, `D<a>`; plain `M`, `D` for the path PATH)
        name = t[1]
        if a[1] == "PATH" and "<" not in name and name in ("M", "D"):
            return ("sym", f"{name}<{b[1]}>")
        if name.endswith(f"<{a[1]}>"):
            return ("sym", name[: -len(a[1]) - 2] + ("" if b[1] == "PATH" else f"<{b[1]}>"))
        return t
    if isinstance(t, tuple):
        return tuple(replace_term(x, a, b) if isinstance(x, tuple) else x for x in t)
    return t


def subterms_tagged(t, tag: str):
    if isinstance(t, tuple) and t:
        if t[0] == tag:
            yield t
        for x in t:
            if isinstance(x, tuple):
                yield from subterms_tagged(x, tag)


def has_var(t) -> bool:
    if isinstance(t, tuple) and t:
        if t[0] == "var":
            return True
        return any(has_var(x) for x in t if isinstance(x, tuple))
    return False


def rooted_at_caught(x) -> bool:
    while isinstance(x, tuple) and x and x[0] in ("index", "attr", "str"):
        x = x[1]
    return isinstance(x, tuple) and bool(x) and x[0] == "caught"


# ---------------------------------------------------------------------- substitution on normal forms


def subst(t, ren: dict):
    if not ren or not isinstance(t, tuple) or not t:
        return t
    if t[0] == "var":
        return ren.get(t, t)
    if t[0] in ("sym", "const"):
        return t
    return tuple(subst(x, ren) if isinstance(x, tuple) else ([subst(y, ren) for y in x] if isinstance(x, list) else x) for x in t)


# ---------------------------------------------------------------------- canonical text


def canon(t, names: dict, k: int) -> str:
    if not isinstance(t, tuple) or not t:
        return repr(t)
    tag = t[0]
    if not isinstance(tag, str):
        return "(" + ", ".join(canon(x, names, k) if isinstance(x, tuple) else repr(x) for x in t) + ")"
    if tag == "sym":
        return t[1]
    if tag == "const":
        return repr(t[1])
    if tag == "var":
        return names.get(t, f"?{t[1]}")
    if tag == "bag":
        gs = sorted(canon_gen(g, names, k) for g in t[1])
        return "{" + " | ".join(gs) + "}" if gs else "{}"
    if tag == "fluent":
        root = t[1][0] + "(" + ", ".join([canon(a, names, k) for a in t[1][1]] + [f"{kk}={canon(v, names, k)}" for kk, v in t[1][2]]) + ")"
        return root + "".join("." + m + "(" + ", ".join([canon(a, names, k) for a in args] + [f"{kk}={canon(v, names, k)}" for kk, v in kw]) + ")" for m, args, kw in t[2])
    if tag == "fstr":
        return 'f"' + "".join(p[1] if p[0] == "const" and isinstance(p[1], str) else "{" + canon(p, names, k) + "}" for p in t[1]) + '"'
    if tag == "tuple":
        return "(" + ", ".join(canon(x, names, k) for x in t[1]) + ")"
    if tag == "pair":
        return canon(t[1], names, k) + ": " + canon(t[2], names, k)
    if tag == "valof":
        return f"{canon(t[1], names, k)}[{canon(t[2], names, k)}]"
    if tag == "getempty":
        return f"{canon(t[1], names, k)}.get({canon(t[2], names, k)}, {{}})"
    if tag == "getnone":
        return f"{canon(t[1], names, k)}.get({canon(t[2], names, k)})"
    if tag == "keys":
        return f"keys({canon(t[1], names, k)})"
    if tag == "dictview":
        return f"{t[1]}(dict {canon(t[2], names, k)})"
    if tag == "pairacc":
        return canon(t[1], names, k) + " +: " + canon(t[2], names, k)
    if tag == "idx":
        return f"position({canon(t[1], names, k)})"
    if tag == "ite":
        return f"({canon(t[2], names, k)} if {canon(t[1], names, k)} else {canon(t[3], names, k)})"
    if tag == "not":
        return "not " + canon(t[1], names, k)
    if tag in ("and", "or"):
        return "(" + f" {tag} ".join(sorted(canon(x, names, k) for x in t[1])) + ")"
    if tag == "truthy":
        return f"nonempty({canon(t[1], names, k)})"
    if tag == "cmp":
        a, b = canon(t[2], names, k), canon(t[3], names, k)
        if t[1] == "==":
            a, b = sorted([a, b])
        return f"{a} {t[1]} {b}"
    if tag == "in":
        return f"{canon(t[1], names, k)} in {canon(t[2], names, k)}"
    if tag == "is":
        return f"{canon(t[1], names, k)} is {canon(t[2], names, k)}"
    if tag == "raised":
        return f"raised#{names.get(('try', t[1]), t[1])}[{','.join(t[2])}]"
    if tag == "caught":
        return f"caught#{names.get(('try', t[1]), t[1])}[{','.join(t[2])}]"
    if tag == "inst":
        return t[1] + "(" + ", ".join(f"{kk}={canon(v, names, k)}" for kk, v in t[2]) + ")"
    if tag == "stage":
        return f"<{t[1]}>(" + ", ".join([canon(a, names, k) for a in t[2]] + [f"{kk}={canon(v, names, k)}" for kk, v in t[3]]) + ")"
    if tag == "exc":
        return t[1] + "(" + ", ".join(canon(a, names, k) for a in t[2]) + ")"
    if tag == "join":
        return f"{canon(t[1], names, k)}.join({canon(t[2], names, k)})"
    if tag == "effect":
        args = ", ".join([canon(a, names, k) for a in t[3]] + [f"{kk}={canon(v, names, k)}" for kk, v in t[4]])
        return f"call {canon(t[1], names, k)}.{t[2]}({args}) [handlers: {', '.join(t[5]) or 'none'}]"
    if tag == "raise":
        return "raise " + canon(t[1], names, k)
    if tag == "attr":
        return f"{canon(t[1], names, k)}.{t[2]}"
    if tag == "index":
        return f"{canon(t[1], names, k)}[{canon(t[2], names, k)}]"
    if tag == "result":
        return f"<result of {t[2]}>"
    if tag == "opaque":
        return f"<?{t[1]}>(" + ", ".join(canon(x, names, k) for x in t[2]) + ")"
    return tag + "(" + ", ".join(canon(x, names, k) if isinstance(x, tuple) else repr(x) for x in t[1:]) + ")"


def canon_gen(g, names: dict, k: int, with_cond: bool = True) -> str:
    _g, elt, fors, c = g
    names = dict(names)
    parts = []
    for v, src in fors:
        s = canon(src, names, k)
        names[v] = f"v{k}"
        parts.append(f"for v{k} in {s}")
        k += 1
    head = canon(elt, names, k) + (" " + " ".join(parts) if parts else "")
    if with_cond and c != TRUE:
        head += " if " + canon(c, names, k)
    return head


def to_formula(c, names: dict, k: int):
    tag = c[0]
    if tag == "const":
        return ("const", bool(c[1]))
    if tag == "not":
        return g_not(to_formula(c[1], names, k))
    if tag == "and":
        return g_and([to_formula(x, names, k) for x in c[1]])
    if tag == "or":
        return g_or([to_formula(x, names, k) for x in c[1]])
    return g_atom(canon(c, names, k))


def gen_key(g, k: int = 0):
    """(text of element and sources, condition formula) of a generator under canonical variable names."""
    _g, elt, fors, c = g
    names: dict = {}
    kk = k
    for v, _src in fors:
        names[v] = f"v{kk}"
        kk += 1
    return canon_gen(g, {}, k, with_cond=False), to_formula(c, names, kk)


def try_names(n, names=None):
    """Numbers the try statements of a trace in order of first appearance (try ids are run specific)."""
    names = names if names is not None else {}

    def walk(t):
        if isinstance(t, tuple) and t:
            if t[0] in ("raised", "caught") and ("try", t[1]) not in names:
                names[("try", t[1])] = len(names)
            for x in t:
                walk(x)

    walk(n)
    return names


def diff_bags(actual, expected, names=None) -> tuple[list[str], list[str], list[str]]:
    """Generators of `actual` without counterpart in `expected` and vice versa, and all generators of `expected` (as text)."""

    def as_gens(n):
        if n[0] == "bag":
            return list(n[1])
        v = ("var", 0)
        return [("g", v, ((v, n),), TRUE)]

    A = [(g, rename_try(g, names)) for g in as_gens(actual)]
    E = [(g, rename_try(g, names)) for g in as_gens(expected)]
    ka = [gen_key(r) for _g, r in A]
    ke = [gen_key(r) for _g, r in E]
    used = set()
    extra = []
    for i, (head, f) in enumerate(ka):
        hit = None
        for j, (h2, f2) in enumerate(ke):
            if j in used or h2 != head:
                continue
            try:
                same = g_equivalent(f, f2)
            except Exception:  # noqa: BLE001 - too many atoms: compare the text
                same = canon(A[i][1][3], {}, 0) == canon(E[j][1][3], {}, 0)
            if same:
                hit = j
                break
        if hit is None:
            extra.append(canon_gen(A[i][1], {}, 0))
        else:
            used.add(hit)
    missing = [canon_gen(E[j][1], {}, 0) for j in range(len(E)) if j not in used]
    return extra, missing, [canon_gen(r, {}, 0) for _g, r in E]


def rename_try(t, names):
    if not names or not isinstance(t, tuple) or not t:
        return t
    if t[0] in ("raised", "caught"):
        return (t[0], names.get(("try", t[1]), t[1]), t[2])
    return tuple(rename_try(x, names) if isinstance(x, tuple) else x for x in t)


def cases(atoms: list) -> list[dict[str, bool]]:
    keys = [canon(a, {}, 0) for a in atoms]
    return [dict(zip(keys, vals)) for vals in itertools.product([True, False], repeat=len(keys))]
