"""Symbolic evaluator for the diagram-rule mechanism (C07).  Nothing of /repo is imported or executed: this module *interprets
the AST abstractly* over symbolic inputs and produces terms.

Why: the C07 rules compare what `DependencyToRuleConverter.convert`, `ModulePrefixer.prefix`, `MultipleRuleApplier.assert_applies`
and `DiagramRule.assert_applies` compute with a specification, independent of how the computation is spelled (loop / comprehension /
generator / helper method / closure / conditional expression / early return / renamed private names).

Values (hashable tuples):
  ("sym", name)                      symbolic input
  ("const", v)                       python constant
  ("var", n)                         variable bound by a `for` binder
  ("obj", oid) / ("mcoll", cid)      references into the heap (instances of repo classes / mutable list, set, dict being built)
  ("coll", kind, items)              snapshot of a collection; items: ("elem", v) | ("gen", elt, binders) | ("splat", coll)
                                     binders: ("for", var, iterable, loopid) | ("if", cond); dict elements are ("pair", k, v)
  ("fluent", root, steps)            call chain on an opaque builder (`Rule()...`): steps = ((method, args, kwargs), ...)
  ("closure", fid) ("class", fq) ("func", fq) ("bound", recv, fq) ("builtin", name) ("ext", dotted)
  ("ite", cond, a, b) ("tuple", items) ("fstr", parts) ("attr", v, name) ("index", v, i) ("slice", v, lo, hi, step)
  ("wrap", fn, v) ("setop", op, a, b) ("concat", a, b) ("get", d, k, default) ("keys", d) ("values", d) ("items", d) ("join", sep, v)
  ("exc", type, args) ("caught", tryid, types) ("result", n, what) ("stage", name, args...) ("opaque", why, kids)
conditions: ("not", c) ("and", cs) ("or", cs) ("truthy", v) ("cmp", op, a, b) ("in", a, b) ("is", a, b) ("raised", tryid, types) ("isinstance", v, t)

Effects that cannot be evaluated (a method call on a symbolic receiver, a `raise`) are appended as elements to the *trace*, a list
collection created before the run: ("effect", receiver, method, args, handlers) / ("raise", exception).  They carry the binders
(loops, conditions) under which they happen, exactly like elements appended to a list.
"""

from __future__ import annotations

import ast
from dataclasses import dataclass, field
from typing import Any

from core.loader import ClassInfo, FuncInfo, ModuleInfo, Repo

from .common import loop_carried

WRAPPERS = {"sorted", "list", "set", "frozenset", "tuple", "iter", "reversed"}
MAX_DEPTH = 12
MAX_STEPS = 20000

STR_METHODS = {"strip", "lstrip", "rstrip", "lower", "upper", "split", "rsplit", "replace", "removeprefix", "removesuffix", "partition", "rpartition", "title", "capitalize", "encode", "splitlines", "casefold", "zfill", "ljust", "rjust", "center", "count", "find", "index", "format"}

NONE = ("const", None)
TRUE = ("const", True)
FALSE = ("const", False)


def c_not(c):
    if c[0] == "const":
        return ("const", not c[1])
    if c[0] == "not":
        return c[1]
    return ("not", c)


def c_and(cs):
    out = []
    for c in cs:
        if c == TRUE:
            continue
        if c == FALSE:
            return FALSE
        out.append(c)
    if not out:
        return TRUE
    return out[0] if len(out) == 1 else ("and", tuple(out))


def c_or(cs):
    out = []
    for c in cs:
        if c == FALSE:
            continue
        if c == TRUE:
            return TRUE
        out.append(c)
    if not out:
        return FALSE
    return out[0] if len(out) == 1 else ("or", tuple(out))


COND_TAGS = {"not", "and", "or", "truthy", "cmp", "in", "is", "raised", "isinstance"}


@dataclass
class MColl:
    cid: int
    kind: str  # list | set | dict | iter
    items: list
    depth: int  # length of the context stack when it was created
    origin: Any = None
    default_kind: str | None = None  # defaultdict(list / set): a missing key yields an accumulator
    run_depth: int = 0  # number of loops being executed when it was created
    filled_in: set = field(default_factory=set)  # loops (executions) that added elements


@dataclass
class Obj:
    oid: int
    cls: ClassInfo
    fields: dict


@dataclass
class Closure:
    fid: int
    node: ast.AST
    fi: FuncInfo | None
    env: "Env"
    module: ModuleInfo | None
    cls: ClassInfo | None


class Env:
    def __init__(self, parent: "Env | None" = None) -> None:
        self.vars: dict[str, Any] = {}
        self.parent = parent

    def lookup(self, name: str):
        e: Env | None = self
        while e is not None:
            if name in e.vars:
                return e.vars[name]
            e = e.parent
        return None

    def has(self, name: str) -> bool:
        return self.lookup(name) is not None


@dataclass
class Frame:
    fi: FuncInfo | None
    module: ModuleInfo | None
    cls: ClassInfo | None
    base: int
    env: Env
    exits: list = field(default_factory=list)  # (kind, cond relative to frame/loop base)
    returns: list = field(default_factory=list)  # (cond, value)
    gen: MColl | None = None
    loop_bases: list = field(default_factory=list)
    nonlocals: set = field(default_factory=set)
    own_loops: list = field(default_factory=list)
    at_yield: Any = None  # body of the `with` statement that runs a @contextmanager generator (called at its `yield`)


class Evaluator:
    def __init__(self, repo: Repo, opaque_classes: set[str] | None = None, stages: dict[str, str] | None = None, fluent_roots: set[str] | None = None) -> None:
        self.repo = repo
        self.heap_objs: dict[int, Obj] = {}
        self.heap_colls: dict[int, MColl] = {}
        self.closures: dict[int, Closure] = {}
        self.ctx: list = []
        self.frames: list[Frame] = []
        self.n = 0
        self.trys: list = []  # (tryid, types)
        self.problems: list[str] = []  # unsupported constructs met (taint the run)
        self.reads: list = []  # (cid, active loop ids)
        self.running: list[int] = []  # executions of loop bodies in progress (one id per execution, also for re-entered generators)
        self.try_ids: dict = {}
        self.cut_loops: set[int] = set()
        self.opaque_classes = opaque_classes or set()  # fq class names whose instances are opaque fluent builders
        self.fluent_roots = fluent_roots or set()
        self.stages = stages or {}  # fq function name -> stage name (summarised calls)
        self.stage_hook = None  # (evaluator, stage name, bound arguments, node) -> value | None
        self.set_syms = {"M", "D"}  # symbolic inputs without duplicates (sets, dict keys); `R` is a list
        self.expected_effects = {"assert_applies"}  # method calls on symbolic receivers that are part of the analysed protocol
        self.skipped: list[str] = []  # code that was not evaluated at all (hard problems)
        self.steps = 0
        self.trace = self.new_coll("list")
        self.origins: dict = {}  # id-ish keys -> (fi, node) for diagnostics
        self.shared: dict = {}  # id(expression of a module constant / class attribute) -> its one value
        self.cur: tuple = (None, None)

    # ------------------------------------------------------------------ helpers
    def fresh(self) -> int:
        self.n += 1
        return self.n

    def problem(self, why: str, node: ast.AST | None = None, soft: bool = False) -> tuple:
        """Records a construct the evaluator cannot model.  soft: the data flow is still complete (only precision is lost);
        otherwise code was skipped and nothing definite can be said about the run."""
        fi = self.frames[-1].fi if self.frames else None
        loc = f"{fi.relpath}:{getattr(node, 'lineno', 0)}" if fi is not None and node is not None else ""
        msg = f"{why} [{loc}]" if loc else why
        if msg not in self.problems:
            self.problems.append(msg)
        if not soft and msg not in self.skipped:
            self.skipped.append(msg)
        return ("opaque", why, ())

    def new_coll(self, kind: str, origin=None) -> MColl:
        m = MColl(self.fresh(), kind, [], len(self.ctx), origin, run_depth=len(self.running))
        self.heap_colls[m.cid] = m
        return m

    def active_loops(self) -> set[int]:
        return set(self.running)

    def add_item(self, m: MColl, elt, splat: bool = False) -> None:
        d = min(m.depth, len(self.ctx))
        binders = tuple(self.ctx[d:])
        loops = set(self.running[min(m.run_depth, len(self.running)):])
        m.filled_in |= loops
        for cid, act in self.reads:
            if cid == m.cid and act & loops:
                self.problem("a collection is read inside the loop that fills it (loop-carried state)", soft=True)
        item = ("splat", elt) if splat else ("elem", elt)
        if binders:
            item = ("gen", elt, binders) if not splat else ("gen", ("splatted", elt), binders)
        m.items.append(item)

    def snapshot(self, v, eager: bool = True):
        """Replaces references to mutable collections by their current content (recursively)."""
        if not isinstance(v, tuple):
            return v
        if v and v[0] == "mcoll":
            m = self.heap_colls[v[1]]
            act = self.active_loops()
            if eager:
                self.reads.append((m.cid, frozenset(act)))
            carried = bool(m.filled_in & act)
            snap = ("coll", m.kind, tuple(self.snapshot(it, eager) for it in m.items))
            if carried and eager:
                self.problem("a collection is read inside the loop that fills it (loop-carried state)", soft=True)
                return ("opaque", "loop-carried", (snap,))
            return snap
        if v and v[0] == "obj":
            o = self.heap_objs[v[1]]
            return ("inst", o.cls.name, tuple((k, self.snapshot(x, eager)) for k, x in sorted(o.fields.items())))
        if v and v[0] == "closure":
            return v
        return tuple(self.snapshot(x, eager) for x in v)

    def resolve(self, v):
        """Final (lazy) resolution at the end of a run."""
        return self.snapshot(v, eager=False)

    # ------------------------------------------------------------------ conditions
    def truth(self, v):
        if not isinstance(v, tuple):
            return self.problem("non-term condition")
        t = v[0]
        if t in COND_TAGS:
            return v
        if t == "const":
            return ("const", bool(v[1]))
        if t in ("obj", "closure", "class", "func", "bound", "builtin", "fluent", "exc"):
            return TRUE
        if t == "mcoll":
            s = self.snapshot(v)
            return self.truth(s)
        if t == "coll":
            if not v[2]:
                return FALSE
            if any(it[0] == "elem" for it in v[2]):
                return TRUE
            return ("truthy", v)
        if t == "tuple":
            return ("const", bool(v[1]))
        if t == "ite":
            return c_or([c_and([v[1], self.truth(v[2])]), c_and([c_not(v[1]), self.truth(v[3])])])
        if t == "boolop":
            parts = [self.truth(x) for x in v[2]]
            return c_and(parts) if v[1] == "and" else c_or(parts)
        if t == "len":
            return self.truth(v[1])
        return ("truthy", v)

    def known_conds(self) -> set:
        out = set()
        for e in self.ctx:
            if e[0] == "if":
                c = e[1]
                out.add(c)
                if c[0] == "and":
                    out.update(c[1])
                if c[0] == "not" and c[1][0] == "or":
                    out.update(c_not(x) for x in c[1][1])
        return out

    def reduce_cond(self, c):
        """Folds a condition that the current path already decides."""
        if c[0] == "const":
            return c
        known = self.known_conds()
        if not known:
            return c

        def red(x):
            if x in known:
                return TRUE
            if c_not(x) in known:
                return FALSE
            if x[0] == "not":
                return c_not(red(x[1]))
            if x[0] == "and":
                return c_and([red(y) for y in x[1]])
            if x[0] == "or":
                return c_or([red(y) for y in x[1]])
            return x

        return red(c)

    def reduce(self, v):
        while isinstance(v, tuple) and v and v[0] == "ite":
            c = self.reduce_cond(v[1])
            if c == TRUE:
                v = v[2]
            elif c == FALSE:
                v = v[3]
            else:
                break
        return v

    def path_cond(self, base: int):
        return c_and([e[1] for e in self.ctx[base:] if e[0] == "if"])

    # ------------------------------------------------------------------ events
    def emit(self, elt) -> None:
        self.add_item(self.trace, elt)

    def handlers(self) -> tuple:
        out = []
        for _tid, types in self.trys:
            out.extend(types)
        return tuple(sorted(set(out)))

    # ------------------------------------------------------------------ name resolution
    def global_name(self, module: ModuleInfo | None, name: str):
        if module is not None:
            if name in module.classes:
                return ("class", module.classes[name].fq)
            if name in module.functions:
                return ("func", module.functions[name].fq)
            if name in module.imports:
                fq = self.repo._canonical(module.imports[name])
                if fq in self.repo.classes:
                    return ("class", fq)
                mod, _, attr = fq.rpartition(".")
                f = self.repo.funcs.get(f"{mod}::{attr}")
                if f is not None:
                    return ("func", f.fq)
                if fq in self.repo.modules:
                    return ("module", fq)
                m = self.repo.modules.get(mod)
                if m is not None and attr in m.constants:
                    return self.eval_once(m, m.constants[attr])
                return ("ext", fq)
            if name in module.constants:
                return self.eval_once(module, module.constants[name])
        if name in ("True", "False", "None"):
            return ("const", {"True": True, "False": False, "None": None}[name])
        return ("builtin", name)

    def eval_in_module(self, m: ModuleInfo, e: ast.expr):
        fr = Frame(None, m, None, len(self.ctx), Env())
        self.frames.append(fr)
        try:
            return self.eval(e)
        finally:
            self.frames.pop()

    def eval_once(self, m: ModuleInfo, e: ast.expr):
        """Value of a module-level constant / class attribute: evaluated once per run, outside every loop and condition - an
        object or collection created there is *shared* by everything that reads the name (state kept at class / module level)."""
        key = id(e)
        if key not in self.shared:
            ctx, running, trys = self.ctx, self.running, self.trys
            self.ctx, self.running, self.trys = [], [], []
            try:
                self.shared[key] = self.eval_in_module(m, e)
            finally:
                self.ctx, self.running, self.trys = ctx, running, trys
        return self.shared[key]

    # ------------------------------------------------------------------ expressions
    def eval(self, e: ast.expr):
        self.steps += 1
        if self.steps > MAX_STEPS:
            raise RuntimeError("symbolic evaluation exceeds the step bound")
        fr = self.frames[-1]
        m = getattr(self, "e_" + type(e).__name__, None)
        if m is None:
            return self.problem(f"unsupported expression {type(e).__name__}", e)
        return m(e, fr)

    def e_Constant(self, e, fr):
        if isinstance(e.value, (str, int, bool, float, bytes)) or e.value is None:
            return ("const", e.value)
        return self.problem("unsupported constant", e)

    def e_Name(self, e, fr):
        v = fr.env.lookup(e.id)
        if v is not None:
            return v
        return self.global_name(fr.module, e.id)

    def e_NamedExpr(self, e, fr):
        v = self.eval(e.value)
        fr.env.vars[e.target.id] = v
        return v

    def e_JoinedStr(self, e, fr):
        parts = []
        for p in e.values:
            if isinstance(p, ast.Constant):
                parts.append(("const", p.value))
            else:
                if p.format_spec is not None or p.conversion not in (-1, 115):
                    parts.append(self.problem("format spec in f-string", e))
                parts.append(self.snapshot(self.eval(p.value)))
        return self.mk_fstr(parts)

    @staticmethod
    def mk_fstr(parts):
        out = []
        for p in parts:
            if p[0] == "fstr":
                out.extend(p[1])
            else:
                out.append(p)
        merged = []
        for p in out:
            if p[0] == "const" and isinstance(p[1], str) and merged and merged[-1][0] == "const" and isinstance(merged[-1][1], str):
                merged[-1] = ("const", merged[-1][1] + p[1])
            elif p == ("const", ""):
                continue
            else:
                merged.append(p)
        if len(merged) == 1 and merged[0][0] == "const" and isinstance(merged[0][1], str):
            return merged[0]
        return ("fstr", tuple(merged))

    def e_Tuple(self, e, fr):
        if any(isinstance(x, ast.Starred) for x in e.elts):
            return self.e_List(e, fr)
        return ("tuple", tuple(self.eval(x) for x in e.elts))

    def e_List(self, e, fr):
        m = self.new_coll("set" if isinstance(e, ast.Set) else "list", e)
        for x in e.elts:
            if isinstance(x, ast.Starred):
                self.add_item(m, self.eval(x.value), splat=True)
            else:
                self.add_item(m, self.eval(x))
        return ("mcoll", m.cid)

    e_Set = e_List

    def e_Dict(self, e, fr):
        m = self.new_coll("dict", e)
        for k, v in zip(e.keys, e.values):
            if k is None:
                self.add_item(m, self.eval(v), splat=True)
            else:
                self.add_item(m, ("pair", self.eval(k), self.eval(v)))
        return ("mcoll", m.cid)

    def e_IfExp(self, e, fr):
        c = self.reduce_cond(self.truth(self.eval(e.test)))
        if c == TRUE:
            return self.eval(e.body)
        if c == FALSE:
            return self.eval(e.orelse)
        n = len(self.ctx)
        self.ctx.append(("if", c))
        a = self.eval(e.body)
        del self.ctx[n:]
        self.ctx.append(("if", c_not(c)))
        b = self.eval(e.orelse)
        del self.ctx[n:]
        return a if a == b else ("ite", c, a, b)

    def e_BoolOp(self, e, fr):
        vals = []
        n = len(self.ctx)
        is_and = isinstance(e.op, ast.And)
        for x in e.values:
            v = self.eval(x)
            t = self.truth(v)
            if t[0] == "const" and t[1] != is_and:
                vals.append(v)  # short circuit: decides
                break
            if t[0] == "const":
                if x is e.values[-1]:
                    vals.append(v)
                continue
            vals.append(v)
            self.ctx.append(("if", t if is_and else c_not(t)))
        del self.ctx[n:]
        if not vals:
            return ("const", is_and)
        if len(vals) == 1:
            return vals[0]
        if all(v[0] in COND_TAGS or v[0] == "const" for v in vals):
            ts = [self.truth(v) for v in vals]
            return c_and(ts) if is_and else c_or(ts)
        return ("boolop", "and" if is_and else "or", tuple(self.snapshot(v) for v in vals))

    def e_UnaryOp(self, e, fr):
        v = self.eval(e.operand)
        if isinstance(e.op, ast.Not):
            return c_not(self.truth(v))
        if isinstance(e.op, ast.USub) and v[0] == "const" and isinstance(v[1], (int, float)):
            return ("const", -v[1])
        return ("opaque", "unary", (self.snapshot(v),))

    def e_Compare(self, e, fr):
        left = self.eval(e.left)
        parts = []
        for op, r in zip(e.ops, e.comparators):
            right = self.eval(r)
            parts.append(self.compare(op, left, right))
            left = right
        return c_and(parts)

    def compare(self, op, a, b):
        neg = isinstance(op, (ast.IsNot, ast.NotEq, ast.NotIn))
        if isinstance(op, (ast.Is, ast.IsNot)):
            r = self.is_(a, b)
        elif isinstance(op, (ast.Eq, ast.NotEq)):
            r = self.eq(a, b)
        elif isinstance(op, (ast.In, ast.NotIn)):
            r = self.contains(b, a)
        else:
            name = {ast.Lt: "<", ast.LtE: "<=", ast.Gt: ">", ast.GtE: ">="}[type(op)]
            r = self.order(name, a, b)
        return c_not(r) if neg else r

    def is_(self, a, b):
        for x, y in ((a, b), (b, a)):
            if y[0] == "const" and y[1] is None:
                if x[0] == "const":
                    return ("const", x[1] is None)
                if x[0] in ("obj", "mcoll", "coll", "closure", "fluent", "class", "func", "bound", "tuple", "fstr", "exc", "stage", "exctype", "caught"):
                    return FALSE
                if x[0] == "ite":
                    return c_or([c_and([x[1], self.is_(x[2], y)]), c_and([c_not(x[1]), self.is_(x[3], y)])])
            if y[0] == "const" and isinstance(y[1], bool) and x[0] == "const":
                return ("const", x[1] is y[1])
            if y[0] == "const" and isinstance(y[1], bool):
                t = self.truth(x)
                return t if y[1] else c_not(t)  # bool-typed operands: `x is True` == truthiness
        if a == b and a[0] in ("obj", "mcoll", "sym", "var"):
            return TRUE
        return ("is", self.snapshot(a), self.snapshot(b))

    def eq(self, a, b):
        if a[0] == "const" and b[0] == "const":
            return ("const", a[1] == b[1])
        for x, y in ((a, b), (b, a)):
            if y[0] == "const" and isinstance(y[1], bool):
                t = self.truth(x)
                return t if y[1] else c_not(t)
            if y[0] == "const" and y[1] is None and x[0] != "const":
                return self.is_(x, y)
            if y[0] in ("mcoll", "coll") and not self.snapshot(y)[2] and x[0] not in ("const",):
                return c_not(self.truth(x))  # x == [] / set() / {}
            if x[0] == "len" and y[0] == "const" and y[1] == 0:
                return c_not(self.truth(x[1]))
        sa, sb = self.snapshot(a), self.snapshot(b)
        if sa == sb:
            return TRUE
        if sa[0] == "tuple" and sb[0] == "tuple":
            if len(sa[1]) != len(sb[1]):
                return FALSE
            return c_and([self.eq(x, y) for x, y in zip(sa[1], sb[1])])
        return ("cmp", "==", sa, sb)

    def order(self, name, a, b):
        if a[0] == "const" and b[0] == "const":
            try:
                return ("const", {"<": a[1] < b[1], "<=": a[1] <= b[1], ">": a[1] > b[1], ">=": a[1] >= b[1]}[name])
            except TypeError:
                pass
        flip = {"<": ">", "<=": ">=", ">": "<", ">=": "<="}
        for x, y, op in ((a, b, name), (b, a, flip[name])):
            if x[0] == "len" and y[0] == "const" and isinstance(y[1], int):
                t = self.truth(x[1])
                if (op == ">" and y[1] == 0) or (op == ">=" and y[1] == 1):
                    return t
                if (op == "<" and y[1] == 1) or (op == "<=" and y[1] == 0):
                    return c_not(t)
        return ("cmp", name, self.snapshot(a), self.snapshot(b))

    def contains(self, container, x):
        if container[0] == "mcoll" and self.heap_colls[container[1]].kind == "dict":
            table = self.term_table(self.heap_colls[container[1]])
            if table is not None:
                k = self.snapshot(x)
                if any(kk == k for kk, _v in table):
                    return TRUE
                if all(kk[0] == "const" for kk, _v in table) and k[0] == "const":
                    return FALSE
            stores = self.cond_table(self.heap_colls[container[1]])
            if stores:
                # the key is there iff it equals the key of one of the stores (that happened)
                k = self.snapshot(x)
                return self.reduce_cond(c_or([c_and([c, self.eq(kk, k)]) for kk, _v, c in stores]))
        c = self.snapshot(container)
        if c[0] == "coll" and not c[2]:
            return FALSE
        return ("in", self.snapshot(x), c)

    def e_BinOp(self, e, fr):
        a, b = self.eval(e.left), self.eval(e.right)
        return self.binop(e.op, a, b, e)

    def binop(self, op, a, b, node=None):
        if isinstance(op, ast.Add):
            if a[0] == "const" and b[0] == "const" and isinstance(a[1], (str, int)) and type(a[1]) is type(b[1]):
                return ("const", a[1] + b[1])
            if (a[0] in ("fstr",) or (a[0] == "const" and isinstance(a[1], str))) or (b[0] == "fstr" or (b[0] == "const" and isinstance(b[1], str))):
                return self.mk_fstr([self.snapshot(a), self.snapshot(b)])
            if _is_int(a) or _is_int(b):
                return ("arith", "+", self.snapshot(a), self.snapshot(b))
            return ("concat", self.snapshot(a), self.snapshot(b))
        if isinstance(op, ast.Mod) and a[0] == "const" and isinstance(a[1], str):
            vals = list(b[1]) if b[0] == "tuple" else [b]
            if a[1].count("%s") == len(vals) and a[1].count("%") == len(vals):
                lit = a[1].split("%s")
                out = []
                for i, piece in enumerate(lit):
                    out.append(("const", piece))
                    if i < len(vals):
                        out.append(self.snapshot(vals[i]))
                return self.mk_fstr(out)
        if isinstance(op, ast.Sub):
            if a[0] == "const" and b[0] == "const" and _is_int(a) and _is_int(b):
                return ("const", a[1] - b[1])
            if _is_int(a) or _is_int(b):
                return ("arith", "-", self.snapshot(a), self.snapshot(b))
            return ("setop", "-", self.snapshot(a), self.snapshot(b))
        if isinstance(op, ast.BitOr):
            return ("setop", "|", self.snapshot(a), self.snapshot(b))
        if isinstance(op, ast.BitAnd):
            return ("setop", "&", self.snapshot(a), self.snapshot(b))
        if isinstance(op, ast.BitXor):
            return ("setop", "^", self.snapshot(a), self.snapshot(b))
        return ("opaque", "binop " + type(op).__name__, (self.snapshot(a), self.snapshot(b)))

    def e_Attribute(self, e, fr):
        v = self.eval(e.value)
        return self.getattr(v, e.attr, e)

    def getattr(self, v, name: str, node=None):
        t = v[0]
        if t == "obj":
            o = self.heap_objs[v[1]]
            if name in o.fields:
                return self.reduce(o.fields[name])
            m = self.repo.lookup_method(o.cls, name)
            if m is not None:
                if m.is_property or "cached_property" in m.decorators:
                    return self.call_function(m, [v], {}, node)
                if m.is_staticmethod:
                    return ("func", m.fq)
                if m.is_classmethod:
                    return ("bound", ("class", o.cls.fq), m.fq)
                return ("bound", v, m.fq)
            for c in self.repo.mro(o.cls):
                if name in c.class_attrs:
                    return self.eval_once(c.module, c.class_attrs[name])
            return self.problem(f"attribute {name} of {o.cls.name} unknown", node)
        if t == "class":
            ci = self.repo.classes[v[1]]
            if ci.fq in self.opaque_classes or ci.name in self.fluent_roots:
                return ("unbound", ci.name, name)  # `Rule.should(subject)` is `subject.should()`
            m = self.repo.lookup_method(ci, name)
            if m is not None:
                if m.is_staticmethod:
                    return ("func", m.fq)
                if m.is_classmethod:
                    return ("bound", v, m.fq)
                return ("func", m.fq)
            for c in self.repo.mro(ci):
                if name in c.class_attrs:
                    return self.eval_once(c.module, c.class_attrs[name])
            return self.problem(f"class attribute {ci.name}.{name} unknown", node)
        if t == "module":
            mod = self.repo.modules[v[1]]
            return self.global_name(mod, name)
        if t == "super":
            start = self.repo.classes[v[1]]
            me = v[2]
            mro = self.repo.mro(self.heap_objs[me[1]].cls) if me[0] == "obj" else self.repo.mro(start)
            after = mro[mro.index(start) + 1:] if start in mro else []
            for c in after:
                if name in c.methods:
                    m = c.methods[name]
                    return ("func", m.fq) if m.is_staticmethod else ("bound", me, m.fq)
            if name in ("__init__", "__post_init__", "__init_subclass__"):
                return ("builtin", "<noop>")
            return self.problem(f"super().{name} not found", node)
        if t == "ext":
            return ("ext", v[1] + "." + name)
        if t == "ite":
            a, b = self.getattr(v[2], name, node), self.getattr(v[3], name, node)
            return a if a == b else ("ite", v[1], a, b)
        if t == "inst":
            for k, x in v[2]:
                if k == name:
                    return x
        return ("attr", v, name)

    def getattr_value(self, v, name: str, node=None):
        """`v.name` for any value (`getattr` plus the reading of `("attr", ...)` as a method of a non-object receiver)."""
        v = self.reduce(v)
        if v[0] == "ite":
            a, b = self.getattr_value(v[2], name, node), self.getattr_value(v[3], name, node)
            return a if a == b else ("ite", v[1], a, b)
        return self.getattr(v, name, node)

    def e_Subscript(self, e, fr):
        v = self.eval(e.value)
        if isinstance(e.slice, ast.Slice):
            parts = [self.eval(x) if x is not None else NONE for x in (e.slice.lower, e.slice.upper, e.slice.step)]
            return ("slice", self.snapshot(v), *parts)
        i = self.eval(e.slice)
        return self.index(v, i)

    def index(self, v, i):
        if v[0] == "tuple" and i[0] == "const" and isinstance(i[1], int) and -len(v[1]) <= i[1] < len(v[1]):
            return v[1][i[1]]
        if v[0] == "obj" and i[0] == "const" and isinstance(i[1], int):
            o = self.heap_objs[v[1]]
            if any(b.split(".")[-1] == "NamedTuple" for b in self.repo.external_bases(o.cls)):
                names = [k for c in reversed(self.repo.mro(o.cls)) for k in c.ann_attrs]
                if 0 <= i[1] < len(names) and names[i[1]] in o.fields:
                    return o.fields[names[i[1]]]
        if v[0] == "mcoll" and self.heap_colls[v[1]].default_kind is not None:
            return ("slot", v[1], self.snapshot(i))
        if v[0] == "mcoll" and self.heap_colls[v[1]].kind == "dict":
            hit = self.lookup_by_binder(self.heap_colls[v[1]], i)
            if hit is not None:
                return hit
            table = self.term_table(self.heap_colls[v[1]])
            if table:
                k = self.snapshot(i)
                for kk, val in reversed(table):
                    if kk == k:
                        return val  # syntactically the same key
                    if not (kk[0] == "const" and k[0] == "const"):
                        break  # may or may not be the same key
            items = self.heap_colls[v[1]].items
            if items and all(it[0] == "elem" and it[1][0] == "pair" and it[1][1][0] == "const" for it in items):
                table = {it[1][1][1]: it[1][2] for it in items}
                if i[0] == "const" and i[1] in table:
                    return table[i[1]]
                if set(table) == {True, False} and i[0] != "const":
                    return ("ite", self.truth(i), table[True], table[False])
            stores = self.cond_table(self.heap_colls[v[1]])
            if stores:
                # the value of the last store (that happened) to an equal key
                k = self.snapshot(i)
                out = missing = ("index", self.snapshot(v), k)
                for kk, val, c in stores:
                    hit = self.reduce_cond(c_and([c, self.eq(kk, k)]))
                    if hit == TRUE:
                        out = val
                    elif hit != FALSE:
                        out = ("ite", hit, val, out)
                if out is not missing:
                    return out
        if v[0] == "ite":
            return ("ite", v[1], self.index(v[2], i), self.index(v[3], i))
        return ("index", self.snapshot(v), self.snapshot(i))

    def e_Lambda(self, e, fr):
        return self.make_closure(e, fr)

    def make_closure(self, node, fr):
        c = Closure(self.fresh(), node, getattr(node, "_func", None), fr.env, fr.module, fr.cls)
        self.closures[c.fid] = c
        return ("closure", c.fid)

    # comprehensions ------------------------------------------------------
    def comp(self, e, fr, kind, emit):
        m = self.new_coll(kind, e)
        env = Env(fr.env)
        saved = fr.env
        fr.env = env
        n = len(self.ctx)
        try:
            self.comp_gens(e.generators, 0, fr, lambda: emit(m))
        finally:
            del self.ctx[n:]
            fr.env = saved
        return ("mcoll", m.cid)

    def comp_gens(self, gens, i, fr, body):
        if i == len(gens):
            body()
            return
        g = gens[i]
        it = self.eval(g.iter)

        def inner():
            n = len(self.ctx)
            for c in g.ifs:
                t = self.truth(self.eval(c))
                self.ctx.append(("if", t))
            self.comp_gens(gens, i + 1, fr, body)
            del self.ctx[n:]

        self.iterate(it, g.target, fr, inner, g)

    def e_ListComp(self, e, fr):
        return self.comp(e, fr, "list", lambda m: self.add_item(m, self.eval(e.elt)))

    def e_SetComp(self, e, fr):
        return self.comp(e, fr, "set", lambda m: self.add_item(m, self.eval(e.elt)))

    def e_GeneratorExp(self, e, fr):
        return self.comp(e, fr, "iter", lambda m: self.add_item(m, self.eval(e.elt)))

    def e_DictComp(self, e, fr):
        return self.comp(e, fr, "dict", lambda m: self.add_item(m, ("pair", self.eval(e.key), self.eval(e.value))))

    # iteration -----------------------------------------------------------
    def iterate(self, it, target, fr, body, node, stmts=None) -> None:
        """Runs `body()` once per (symbolic) element of `it` with `target` bound.

        A collection that was built by this evaluator is iterated *through its generators*: the binders (loops, conditions) under
        which an element was added are entered again and the target is bound to the element itself - so objects, closures and tuples
        put into a list keep their identity for the consumer (loop fusion).  Anything else binds a fresh variable over the iterable."""
        snap = self.snapshot(it)
        core = snap
        while core[0] == "wrap" and core[1] in WRAPPERS:
            core = core[2]
        # a dict built by this evaluator (or a view of it): iterate through its generators as well
        view = core[0] if core[0] in ("items", "keys", "values") else "keys"
        dcore = core[1] if core[0] in ("items", "keys", "values") else core
        if dcore[0] == "coll" and dcore[1] == "dict" and all(x[0] in ("elem", "gen") and x[1][0] == "pair" for x in dcore[2]):
            raw = it
            while raw[0] == "wrap" and raw[1] in WRAPPERS:
                raw = raw[2]
            if raw[0] in ("items", "keys", "values"):
                raw = raw[1]
            items = self.heap_colls[raw[1]].items if raw[0] == "mcoll" else dcore[2]
            if not self.unique_keys(items):
                # a later store may overwrite an earlier one: the dict is not the bag of its stores; left to the normal form
                self.iterate_var(snap, target, fr, body)
                return
            for item in list(items):
                pair = item[1]
                elt = {"items": ("tuple", (pair[1], pair[2])), "keys": pair[1], "values": pair[2]}[view]
                self.iterate_item((item[0], elt) + tuple(item[2:]), target, fr, body, node)
            return
        if core[0] == "tuple":
            core = ("coll", "list", tuple(("elem", x) for x in core[1]))
        if core[0] == "coll" and core[1] != "dict":
            raw = it
            while raw[0] == "wrap" and raw[1] in WRAPPERS:
                raw = raw[2]
            items = self.heap_colls[raw[1]].items if raw[0] == "mcoll" else core[2]
            for item in list(items):
                self.iterate_item(item, target, fr, body, node)
            return
        self.iterate_var(snap, target, fr, body)

    def iterate_var(self, snap, target, fr, body) -> None:
        var = ("var", self.fresh())
        loopid = var[1]
        n = len(self.ctx)
        self.ctx.append(("for", var, snap, loopid))
        self.bind(target, var, fr)
        self.run_iteration(fr, body, n, loopid)

    def run_iteration(self, fr, body, n, loopid=None) -> None:
        fr.loop_bases.append(len(self.ctx))
        fr.own_loops.append(loopid)  # None: an iteration re-entered through the generators of a collection (another loop's binders)
        self.running.append(self.fresh())
        try:
            body()
        finally:
            self.running.pop()
            fr.loop_bases.pop()
            fr.own_loops.pop()
            del self.ctx[n:]

    def iterate_item(self, item, target, fr, body, node) -> None:
        n = len(self.ctx)
        if item[0] == "elem":
            self.bind(target, item[1], fr)
            if fr.loop_bases or True:
                self.run_iteration(fr, body, n)
            return
        if item[0] == "splat":
            self.iterate(item[1], target, fr, body, node)
            return
        _g, elt, binders = item
        self.ctx.extend(binders)
        if isinstance(elt, tuple) and elt and elt[0] == "splatted":
            try:
                self.iterate(elt[1], target, fr, body, node)
            finally:
                del self.ctx[n:]
            return
        self.bind(target, elt, fr)
        self.run_iteration(fr, body, n)

    def bind(self, target, v, fr) -> None:
        if isinstance(target, ast.Name):
            if target.id in fr.nonlocals:
                e = fr.env.parent
                while e is not None and target.id not in e.vars:
                    e = e.parent
                if e is not None:
                    if any(x[0] in ("for", "if") for x in self.ctx[fr.base:]):
                        self.problem("nonlocal variable assigned under a condition / in a loop", target)
                    e.vars[target.id] = v
                    return
            fr.env.vars[target.id] = v
        elif isinstance(target, (ast.Tuple, ast.List)):
            if any(isinstance(x, ast.Starred) for x in target.elts):
                self.problem("starred unpacking", target)
                return
            for i, x in enumerate(target.elts):
                self.bind(x, self.index(v, ("const", i)) if v[0] != "pair" else v[1 + i], fr)
        elif isinstance(target, ast.Attribute):
            o = self.eval(target.value)
            self.setattr(o, target.attr, v, target)
        elif isinstance(target, ast.Subscript):
            o = self.eval(target.value)
            k = self.eval(target.slice)
            if o[0] == "mcoll" and self.heap_colls[o[1]].kind == "dict":
                self.add_item(self.heap_colls[o[1]], ("pair", k, v))
            else:
                self.problem("subscript store on a non-dict", target)
        else:
            self.problem("unsupported assignment target", target)

    def setattr(self, o, name, v, node=None) -> None:
        if o[0] != "obj":
            self.problem("attribute store on a non-object", node)
            return
        ob = self.heap_objs[o[1]]
        if any(e[0] == "for" for e in self.ctx):
            ob.fields[name] = ("opaque", "field written in a loop", (self.snapshot(v),))
            self.problem("object field written inside a loop", node, soft=True)
            return
        c = self.path_cond(0)
        old = ob.fields.get(name)
        if c == TRUE or old is None:
            ob.fields[name] = v
        else:
            ob.fields[name] = v if v == old else ("ite", c, v, old)

    # ------------------------------------------------------------------ calls
    def e_Call(self, e, fr):
        self.cur = (fr.fi, e)
        f = self.eval(e.func)
        args: list = []
        for a in e.args:
            if isinstance(a, ast.Starred):
                v = self.snapshot(self.eval(a.value))
                if v[0] == "tuple":
                    args.extend(v[1])
                elif v[0] == "coll" and all(x[0] == "elem" for x in v[2]):
                    args.extend(x[1] for x in v[2])
                else:
                    args.append(("starred", v))
            else:
                args.append(self.eval(a))
        kwargs = {}
        for k in e.keywords:
            if k.arg is None:
                self.problem("**kwargs in a call", e)
                continue
            kwargs[k.arg] = self.eval(k.value)
        return self.call(f, args, kwargs, e)

    def call(self, f, args, kwargs, node):
        f = self.reduce(f)
        t = f[0]
        if t == "ite":
            n = len(self.ctx)
            self.ctx.append(("if", f[1]))
            a = self.call(f[2], args, kwargs, node)
            del self.ctx[n:]
            self.ctx.append(("if", c_not(f[1])))
            b = self.call(f[3], args, kwargs, node)
            del self.ctx[n:]
            return a if a == b else ("ite", f[1], a, b)
        if t == "func":
            return self.call_function(self.repo.funcs[f[1]], args, kwargs, node)
        if t == "bound":
            return self.call_function(self.repo.funcs[f[2]], [f[1], *args], kwargs, node)
        if t == "closure":
            return self.call_closure(self.closures[f[1]], args, kwargs, node)
        if t == "class":
            return self.construct(self.repo.classes[f[1]], args, kwargs, node)
        if t == "builtin":
            return self.call_builtin(f[1], args, kwargs, node)
        if t == "ext":
            return self.call_ext(f[1], args, kwargs, node)
        if t == "attr":
            return self.call_method(f[1], f[2], args, kwargs, node)
        if t == "partial":
            return self.call(f[1], [*f[2], *args], {**dict(f[3]), **kwargs}, node)
        if t == "methodcaller" and len(args) == 1 and not kwargs:
            # operator.methodcaller(name, *a, **k)(x) is x.name(*a, **k)
            return self.call(self.getattr_value(args[0], f[1], node), list(f[2]), dict(f[3]), node)
        if t == "attrgetter" and len(args) == 1 and not kwargs:
            vals = []
            for dotted in f[1]:
                v = args[0]
                for part in dotted.split("."):
                    v = self.getattr_value(v, part, node)
                vals.append(v)
            return vals[0] if len(vals) == 1 else ("tuple", tuple(vals))
        if t == "itemgetter" and len(args) == 1 and not kwargs:
            vals = [self.index(args[0], k) for k in f[1]]
            return vals[0] if len(vals) == 1 else ("tuple", tuple(vals))
        if t == "unbound" and args:
            return self.call_method(args[0], f[2], args[1:], kwargs, node)
        if t == "obj":
            m = self.repo.lookup_method(self.heap_objs[f[1]].cls, "__call__")
            if m is not None:
                return self.call_function(m, [f, *args], kwargs, node)
        return self.problem(f"call of a {t} value", node)

    def bind_params(self, a: ast.arguments, args, kwargs, env: Env, module, node) -> bool:
        pos = [*a.posonlyargs, *a.args]
        if any(x[0] == "starred" for x in args):
            # `f(*pair)`: a single trailing starred value fills the remaining required positional parameters
            required = len(pos) - len(a.defaults)
            if args[-1][0] == "starred" and sum(1 for x in args if x[0] == "starred") == 1 and a.vararg is None and required >= len(args) - 1:
                v = args[-1][1]
                args[-1:] = [self.index(v, ("const", i)) for i in range(required - (len(args) - 1))]
            else:
                self.problem("*args of unknown length", node)
                return False
        if len(args) > len(pos) and a.vararg is None:
            self.problem("too many positional arguments", node)
            return False
        for p, v in zip(pos, args):
            env.vars[p.arg] = v
        if a.vararg is not None:
            env.vars[a.vararg.arg] = ("tuple", tuple(args[len(pos):]))
        names = {p.arg for p in [*pos, *a.kwonlyargs]}
        extra = {}
        for k, v in kwargs.items():
            if k in names:
                env.vars[k] = v
            else:
                extra[k] = v
        if extra and a.kwarg is None:
            self.problem("unknown keyword argument", node)
            return False
        if a.kwarg is not None:
            m = self.new_coll("dict")
            for k, v in extra.items():
                self.add_item(m, ("pair", ("const", k), v))
            env.vars[a.kwarg.arg] = ("mcoll", m.cid)
        for p, d in zip(pos[len(pos) - len(a.defaults):], a.defaults):
            if p.arg not in env.vars:
                env.vars[p.arg] = self.eval_default(d, module)
        for p, d in zip(a.kwonlyargs, a.kw_defaults):
            if p.arg not in env.vars and d is not None:
                env.vars[p.arg] = self.eval_default(d, module)
        for p in [*pos, *a.kwonlyargs]:
            if p.arg not in env.vars:
                self.problem(f"parameter {p.arg} not bound", node)
                return False
        return True

    def eval_default(self, d, module):
        if module is not None:
            return self.eval_once(module, d)  # a default value is created once, when the function is defined
        return self.eval(d)

    def call_function(self, fi: FuncInfo, args, kwargs, node):
        if fi.fq in self.stages:
            names = fi.param_names
            bound = {names[i] if i < len(names) else f"#{i}": a for i, a in enumerate(args)}
            bound.update(kwargs)
            if self.stage_hook is not None:
                r = self.stage_hook(self, self.stages[fi.fq], bound, node)
                if r is not None:
                    return r
            return ("stage", self.stages[fi.fq], (), tuple(sorted((k, self.snapshot(v)) for k, v in bound.items())))
        if fi.is_abstract:
            return self.effect_call(args[0] if args else NONE, fi.name, args[1:], kwargs, node)
        if "contextmanager" in fi.decorators:
            return ("ctxgen", fi.fq, tuple(args), tuple(sorted(kwargs.items())))
        if fi.is_classmethod and (not args or args[0][0] != "class"):
            args = [("class", fi.cls.fq), *args] if fi.cls is not None else args
        env = Env()
        return self.run_body(fi.node, fi, fi.module, fi.cls, env, args, kwargs, node)

    def call_closure(self, c: Closure, args, kwargs, node):
        env = Env(c.env)
        return self.run_body(c.node, c.fi, c.module, c.cls, env, args, kwargs, node)

    def run_body(self, fnode, fi, module, cls, env, args, kwargs, node):
        if len(self.frames) > MAX_DEPTH or sum(1 for f in self.frames if f.fi is not None and fi is not None and f.fi.fq == fi.fq) >= 2:
            return self.problem("recursion / call depth bound reached", node)
        if not self.bind_params(fnode.args, list(args), dict(kwargs), env, module, node):
            return ("opaque", "call not bound", ())
        fr = Frame(fi, module, cls, len(self.ctx), env)
        if isinstance(fnode, ast.Lambda):
            self.frames.append(fr)
            try:
                r = self.eval(fnode.body)
            finally:
                self.frames.pop()
                del self.ctx[fr.base:]
            self.propagate_raises(fr)
            return r
        is_gen = any(isinstance(n, (ast.Yield, ast.YieldFrom)) for n in _own(fnode))
        if is_gen:
            fr.gen = self.new_coll("iter", fnode)
        self.frames.append(fr)
        try:
            done = self.block(fnode.body, fr)
        finally:
            self.frames.pop()
            del self.ctx[fr.base:]
        self.propagate_raises(fr)
        if is_gen:
            return ("mcoll", fr.gen.cid)
        return self.result_of(fr, done)

    def result_of(self, fr: Frame, done: bool):
        rets = list(fr.returns)
        if not done:
            rets.append((TRUE, NONE))
        out = None
        for cond, v in reversed(rets):
            out = v if out is None else (v if v == out else ("ite", cond, v, out))
        return out

    def propagate_raises(self, fr: Frame) -> None:
        """A callee that raised under a condition: the caller continues only when it did not."""
        if not self.frames:
            return
        caller = self.frames[-1]
        for kind, cond, _d in fr.exits:
            if kind == "raise" and cond != FALSE:
                full = c_and([self.path_cond(caller.base), cond])
                caller.exits.append(("raise", full, len(self.ctx)))
                self.ctx.append(("if", c_not(cond)))

    def run_stmts(self, stmts, variables: dict, module: ModuleInfo | None = None):
        """Executes synthetic driver / specification statements; returns (result value, frame)."""
        fr = Frame(None, module, None, len(self.ctx), Env())
        fr.env.vars.update(variables)
        self.frames.append(fr)
        try:
            done = self.block(stmts, fr)
        finally:
            self.frames.pop()
            del self.ctx[fr.base:]
        return self.result_of(fr, done), fr

    def construct(self, ci: ClassInfo, args, kwargs, node):
        if ci.fq in self.opaque_classes or ci.name in self.fluent_roots:
            return ("fluent", (ci.name, tuple(self.snapshot(a) for a in args), tuple(sorted((k, self.snapshot(v)) for k, v in kwargs.items()))), ())
        ext = self.repo.external_bases(ci)
        if any(b.split(".")[-1].endswith(("Exception", "Error")) for b in ext) or any(c.name.endswith(("Error", "Exception")) for c in self.repo.mro(ci)):
            return ("exc", ci.name, tuple(self.snapshot(a) for a in args))
        o = Obj(self.fresh(), ci, {})
        self.heap_objs[o.oid] = o
        ref = ("obj", o.oid)
        init = self.repo.lookup_method(ci, "__init__")
        if init is not None:
            self.call_function(init, [ref, *args], kwargs, node)
        elif any(c.is_dataclass for c in self.repo.mro(ci)) or any(b.split(".")[-1] == "NamedTuple" for b in self.repo.external_bases(ci)):
            names = []
            for c in reversed(self.repo.mro(ci)):
                for k in c.ann_attrs:
                    if k not in names:
                        names.append(k)
            if len(args) > len(names) or any(k not in names for k in kwargs):
                self.problem("dataclass construction does not bind", node)
            for k, v in zip(names, args):
                o.fields[k] = v
            for k, v in kwargs.items():
                o.fields[k] = v
            for k in names:
                if k not in o.fields:
                    d = next((c.class_attrs[k] for c in self.repo.mro(ci) if k in c.class_attrs), None)
                    if d is None:
                        self.problem(f"dataclass field {k} not bound", node)
                    else:
                        o.fields[k] = self.eval_in_module(ci.module, d)
            post = self.repo.lookup_method(ci, "__post_init__")
            if post is not None:
                self.call_function(post, [ref], {}, node)
        elif args or kwargs:
            self.problem(f"constructor of {ci.name} without __init__ called with arguments", node)
        return ref

    def effect_call(self, recv, meth, args, kwargs, node):
        n = self.fresh()
        if meth not in self.expected_effects:
            # not the protocol under analysis: most likely a value whose identity the evaluator lost
            self.problem(f"method .{meth}() called on a value that is not tracked", node, soft=True)
        elt = ("effect", self.snapshot(recv), meth, tuple(self.snapshot(a) for a in args), tuple(sorted((k, self.snapshot(v)) for k, v in kwargs.items())), self.handlers())
        self.emit(elt)
        self.origins[("effect", n)] = self.cur
        # anything after a call that may raise inside a `try` body only happens when it did not raise
        if self.trys:
            tid, types = self.trys[-1]
            self.ctx.append(("if", c_not(("raised", tid, types))))
        return ("result", n, meth)

    # method calls on non-object receivers ---------------------------------
    def call_method(self, recv, name, args, kwargs, node):
        recv = self.reduce(recv)
        t = recv[0]
        if t == "slot":
            m = self.heap_colls[recv[1]]
            if name in ("append", "add") and len(args) == 1:
                self.add_item(m, ("acc", recv[2], args[0]))
                return NONE
            if name in ("extend", "update") and len(args) == 1:
                self.add_item(m, ("accsplat", recv[2], args[0]))
                return NONE
            return self.problem(f"method {name} on a dict entry that accumulates", node)
        if t == "ite":
            n = len(self.ctx)
            self.ctx.append(("if", recv[1]))
            a = self.call_method(recv[2], name, args, kwargs, node)
            del self.ctx[n:]
            self.ctx.append(("if", c_not(recv[1])))
            b = self.call_method(recv[3], name, args, kwargs, node)
            del self.ctx[n:]
            return a if a == b else ("ite", recv[1], a, b)
        if t == "obj":
            return self.call(self.getattr(recv, name, node), args, kwargs, node)
        if t == "fluent":
            step = (name, tuple(self.snapshot(a) for a in args), tuple(sorted((k, self.snapshot(v)) for k, v in kwargs.items())))
            return ("fluent", recv[1], recv[2] + (step,))
        if t == "mcoll":
            return self.mcoll_method(self.heap_colls[recv[1]], recv, name, args, kwargs, node)
        if t == "const" and isinstance(recv[1], str):
            if name == "join" and len(args) == 1:
                a = self.snapshot(args[0])
                parts = list(a[1]) if a[0] == "tuple" else [x[1] for x in a[2]] if a[0] == "coll" and a[1] == "list" and all(x[0] == "elem" for x in a[2]) else None
                if parts is not None:
                    out = []
                    for i, x in enumerate(parts):
                        out += ([recv] if i else []) + [x]
                    return self.mk_fstr(out)
                return ("join", recv, a)
            if name == "format" and not kwargs and recv[1].count("{}") == len(args) and recv[1].count("{") == len(args):
                lit = recv[1].split("{}")
                out = []
                for i, piece in enumerate(lit):
                    out.append(("const", piece))
                    if i < len(args):
                        out.append(self.snapshot(args[i]))
                return self.mk_fstr(out)
            if name == "format" and not kwargs:
                import string

                try:
                    fields = list(string.Formatter().parse(recv[1]))
                except ValueError:
                    fields = None
                if fields is not None and all(spec in ("", None) and conv in (None, "s") for _l, _f, spec, conv in fields):
                    out, auto, ok = [], 0, True
                    for lit, fld, _spec, _conv in fields:
                        out.append(("const", lit))
                        if fld is None:
                            continue
                        if fld == "":
                            k, auto = auto, auto + 1
                        elif fld.isdigit():
                            k = int(fld)
                        else:
                            ok = False
                            break
                        if k >= len(args):
                            ok = False
                            break
                        out.append(self.snapshot(args[k]))
                    if ok:
                        return self.mk_fstr(out)
            if name == "format":
                return ("opaque", "str.format", (recv, *map(self.snapshot, args)))
        if t == "wrap" and recv[1] in WRAPPERS and name == "copy" and not args:
            c = self.new_coll("set" if recv[1] in ("set", "frozenset") else "list")  # a fresh, mutable copy
            self.add_item(c, recv, splat=True)
            return ("mcoll", c.cid)
        if t in ("sym", "var", "index", "attr", "valof", "coll", "wrap", "setop", "get", "concat", "stage", "keys", "values", "items", "boolop", "inst"):
            r = self.pure_method(recv, name, args, kwargs, node)
            if r is not None:
                return r
        if name in STR_METHODS and t in ("sym", "var", "index", "attr", "fstr", "const", "result"):
            # a pure function of its operands; not modelled further
            self.problem(f"string method .{name}()", node, soft=True)
            return ("opaque", f"str.{name}", (self.snapshot(recv), *[self.snapshot(a) for a in args]))
        if t in ("sym", "var", "index", "result", "attr", "stage"):
            return self.effect_call(recv, name, args, kwargs, node)
        if t == "caught":
            return ("attrcall", recv, name)
        return self.problem(f"method {name} on a {t} value", node)

    def pure_method(self, recv, name, args, kwargs, node):
        s = self.snapshot(recv)
        a = [self.snapshot(x) for x in args]
        if name in ("items", "keys", "values") and not a:
            return (name, s)
        if name == "get" and 1 <= len(a) <= 2:
            return ("get", s, a[0], a[1] if len(a) == 2 else NONE)
        if name in ("difference", "union", "intersection", "symmetric_difference"):
            op = {"difference": "-", "union": "|", "intersection": "&", "symmetric_difference": "^"}[name]
            out = s
            for x in a:
                out = ("setop", op, out, x)
            return out
        if name == "copy" and not a:
            return s
        if name == "__contains__" and len(args) == 1:
            return self.contains(recv, args[0])
        if name in ("issubset", "issuperset", "isdisjoint", "startswith", "endswith", "__contains__"):
            return ("cmp", name, s, a[0]) if a else None
        return None

    def replace_content(self, m: MColl, ref, make, node) -> None:
        """In-place update that is not an addition (`-=`, discard, difference_update): new content = make(old content),
        guarded by the conditions entered since the collection was created."""
        cur = self.snapshot(ref)
        d = min(m.depth, len(self.ctx))
        since = self.ctx[d:]
        if any(e[0] == "for" for e in since):
            self.problem("elements removed from a collection inside a loop", node, soft=True)
        cond = c_and([e[1] for e in since if e[0] == "if"])
        new = make(cur)
        m.items = [("splat", new if cond == TRUE else ("ite", cond, new, cur))]

    def delete_at(self, m: MColl, ref, i, node):
        """`del xs[i]` / `xs.pop(i)` on a list: what remains is xs[:i] + xs[i+1:]; returns the removed element."""
        cur = self.snapshot(ref)
        pos = self.snapshot(i)
        removed = ("index", cur, pos)
        nxt = ("const", pos[1] + 1) if _is_int(pos) and pos[1] >= 0 else ("arith", "+", pos, ("const", 1))
        if _is_int(pos) and pos[1] < 0:
            self.problem("element removed at a position counted from the end", node)
            return removed
        self.replace_content(m, ref, lambda c: ("concat", ("slice", c, NONE, pos, NONE), ("slice", c, nxt, NONE, NONE)), node)
        return removed

    def unique_key(self, item) -> bool:
        """The key of `d[k] = v` stored under binders cannot collide with the key of another element: k is the loop variable
        (or the key half of an items() element) of a loop over a set / the keys of a dict - not over a list."""
        if item[0] == "elem":
            return item[1][0] == "pair" and item[1][1][0] == "const"
        if item[0] != "gen" or item[1][0] != "pair":
            return False
        key = item[1][1]
        halves = False
        if key[0] == "index" and key[2] == ("const", 0):
            key, halves = key[1], True
        if key[0] != "var":
            return False
        for b in item[2]:
            if b[0] == "for" and b[1] == key:
                it = b[2]
                while it[0] == "wrap" and it[1] in WRAPPERS:
                    it = it[2]
                if halves:
                    return it[0] == "items" and it[1][0] == "sym" and it[1][1] in self.set_syms
                if it[0] == "keys":
                    it = it[1]
                return it[0] == "sym" and it[1] in self.set_syms
        return False

    def unique_keys(self, items) -> bool:
        items = list(items)
        if all(it[0] == "elem" for it in items):
            keys = [it[1][1] for it in items if it[1][0] == "pair"]
            return len(keys) == len(items) and all(k[0] == "const" for k in keys) and len(set(keys)) == len(keys)
        return len(items) == 1 and self.unique_key(items[0])

    def lookup_by_binder(self, m: MColl, key):
        """d[k] while (re-)iterating the very loop that stored d[k] = v for the loop element k: that v.
        Only for keys that are the loop variable itself (or the key half of an `items()` element): one entry per element."""
        if key[0] == "index" and key[2] == ("const", 0):
            base = key[1]
        else:
            base = key
        if base[0] != "var":
            return None
        ctx = [e for e in self.ctx]
        found = None
        for it in m.items:
            if it[0] != "gen" or it[1][0] != "pair" or it[1][1] != key:
                continue
            if not any(b[0] == "for" and b[1] == base for b in it[2]) or not self.unique_key(it):
                continue
            if all(b in ctx for b in it[2]):
                found = it[1][2]  # the last store wins
        return found

    def term_table(self, m: MColl):
        """[(key term, value)] of a dict filled by plain stores outside loops / conditions, else None."""
        if m.kind != "dict":
            return None
        known = self.known_conds()
        out = []
        for it in m.items:
            if it[0] == "elem" and it[1][0] == "pair":
                out.append((self.snapshot(it[1][1]), it[1][2]))
            elif it[0] == "gen" and it[1][0] == "pair" and all(b[0] == "if" and b[1] in known for b in it[2]):
                out.append((self.snapshot(it[1][1]), it[1][2]))  # stored under conditions that hold on the current path
            else:
                return None
        return out

    def cond_table(self, m: MColl):
        """[(key term, value, condition of the store)] of a dict filled by plain stores outside loops with keys that are closed
        terms (no loop variable), else None."""
        if m.kind != "dict" or m.default_kind is not None:
            return None
        out = []
        for it in m.items:
            if it[0] == "elem" and it[1][0] == "pair":
                pair, c = it[1], TRUE
            elif it[0] == "gen" and it[1][0] == "pair" and all(b[0] == "if" for b in it[2]):
                pair, c = it[1], c_and([b[1] for b in it[2]])
            else:
                return None
            key = self.snapshot(pair[1])
            if _has_tag(key, ("var", "opaque")):
                return None
            out.append((key, pair[2], c))
        return out

    def const_table(self, m: MColl):
        """{constant key: value} of a dict that was only filled with constant keys outside loops, else None."""
        if m.kind != "dict" or not all(it[0] == "elem" and it[1][0] == "pair" and it[1][1][0] == "const" for it in m.items):
            return None
        return {it[1][1][1]: it[1][2] for it in m.items}

    def mcoll_method(self, m: MColl, ref, name, args, kwargs, node):
        if name == "get" and 1 <= len(args) <= 2 and args[0][0] == "const":
            table = self.const_table(m)
            if table is not None:
                return table.get(args[0][1], args[1] if len(args) == 2 else NONE)
        if name == "get" and 1 <= len(args) <= 2 and m.kind == "dict":
            hit = self.lookup_by_binder(m, args[0])
            if hit is not None:
                return hit
        if name in ("append", "add") and len(args) == 1:
            self.add_item(m, args[0])
            return NONE
        if name in ("extend", "update") and len(args) == 1 and not kwargs:
            self.add_item(m, args[0], splat=True)
            return NONE
        if name == "update" and m.kind == "dict" and not args:
            for k, v in kwargs.items():
                self.add_item(m, ("pair", ("const", k), v))
            return NONE
        if name == "insert" and len(args) == 2:
            self.add_item(m, args[1])
            return NONE
        if name == "setdefault" and m.kind == "dict" and 1 <= len(args) <= 2:
            d = self.snapshot(args[1]) if len(args) == 2 else NONE
            if d[0] == "coll" and not d[2] and d[1] in ("list", "set"):
                # `d.setdefault(k, []).append(x)`: the entry of k accumulates
                return ("slot", m.cid, self.snapshot(args[0]))
            self.problem("dict.setdefault with a default that is not an empty list / set", node)
            return ("opaque", "setdefault", ())
        if name in ("discard", "remove") and len(args) == 1 and m.kind == "set":
            single = ("coll", "set", (("elem", self.snapshot(args[0])),))
            self.replace_content(m, ref, lambda cur: ("setop", "-", cur, single), node)
            return NONE
        if name in ("difference_update", "intersection_update") and args and m.kind == "set":
            op = "-" if name == "difference_update" else "&"
            others = [self.snapshot(x) for x in args]

            def make(cur):
                for x in others:
                    cur = ("setop", op, cur, x)
                return cur

            self.replace_content(m, ref, make, node)
            return NONE
        if name == "copy" and not args:
            c = self.new_coll(m.kind)
            self.add_item(c, ref, splat=True)
            return ("mcoll", c.cid)
        if name in ("sort", "reverse"):
            return NONE
        if name in ("pop", "__delitem__") and len(args) == 1 and m.kind == "list" and not kwargs:
            return self.delete_at(m, ref, args[0], node)
        if name in ("pop", "popitem", "clear", "__delitem__"):
            return self.problem(f"{name}() on a collection being built", node)
        r = self.pure_method(ref, name, args, kwargs, node)
        if r is not None:
            return r
        return self.problem(f"method {name} on a collection", node)

    # builtins ------------------------------------------------------------
    def call_builtin(self, name, args, kwargs, node):
        a = args
        if name in WRAPPERS:
            if not a:
                return ("mcoll", self.new_coll("list" if name in ("list", "tuple", "sorted") else "set" if name in ("set", "frozenset") else "iter").cid)
            if name in ("list", "set") and len(a) == 1:
                # a fresh mutable copy
                c = self.new_coll(name)
                self.add_item(c, a[0], splat=True)
                return ("mcoll", c.cid)
            if name == "sorted" and kwargs:
                # the order: by which component, ascending or not ("key?" = by something this evaluator does not name)
                pos = self.key_position(kwargs["key"]) if "key" in kwargs and kwargs["key"] != NONE else "self"
                how = ("" if pos == "self" else f"key{pos if pos is not None else '?'}") + ("" if kwargs.get("reverse", FALSE) == FALSE else "rev")
                if how:
                    return ("wrap", name, self.snapshot(a[0]), how)
            return ("wrap", name, self.snapshot(a[0]))
        if name == "dict":
            c = self.new_coll("dict")
            if a:
                self.add_item(c, a[0], splat=True)
            for k, v in kwargs.items():
                self.add_item(c, ("pair", ("const", k), v))
            return ("mcoll", c.cid)
        if name == "len" and len(a) == 1:
            return ("len", self.snapshot(a[0]))
        if name == "bool" and len(a) == 1:
            return self.truth(a[0])
        if name == "str" and len(a) == 1:
            s = self.snapshot(a[0])
            return s if s[0] == "fstr" or (s[0] == "const" and isinstance(s[1], str)) else ("str", s)
        if name == "issubclass" and len(a) == 2 and a[0][0] == "exctype":
            names = self.exc_type_names(a[1])
            if names is not None:
                return c_or([self.exc_is(a[0], n) for n in names])
        if name == "isinstance" and len(a) == 2 and a[0][0] == "caught":
            names = self.exc_type_names(a[1])
            if names is not None:
                return c_or([self.exc_is(self.class_of_caught(a[0]), n) for n in names])
        if name == "isinstance" and len(a) == 2 and a[0] == NONE and self.exc_type_names(a[1]) is not None:
            return FALSE
        if name == "type" and len(a) == 1 and a[0][0] == "caught":
            return self.class_of_caught(a[0])
        if name == "isinstance" and len(a) == 2:
            if a[0][0] == "obj" and a[1][0] == "class":
                return ("const", self.repo.is_subclass(self.heap_objs[a[0][1]].cls, a[1][1]))
            return ("isinstance", self.snapshot(a[0]), self.snapshot(a[1]))
        if name == "getattr" and len(a) >= 2:
            nm = a[1]
            if nm[0] == "const" and isinstance(nm[1], str):
                return self.getattr(a[0], nm[1], node)
            if nm[0] == "ite" and nm[2][0] == "const" and nm[3][0] == "const":
                return ("ite", nm[1], self.getattr(a[0], nm[2][1], node), self.getattr(a[0], nm[3][1], node))
            return self.problem("getattr with a computed name", node)
        if name == "setattr" and len(a) == 3 and a[1][0] == "const":
            self.setattr(a[0], a[1][1], a[2], node)
            return NONE
        if name == "enumerate" and a:
            return ("enumerate", self.snapshot(a[0]))
        if name in ("map", "filter") and len(a) == 2:
            m = self.new_coll("iter")
            fr = self.frames[-1]
            tgt = ast.Name(id=f"__{name}{self.fresh()}", ctx=ast.Store())

            def body():
                x = fr.env.vars[tgt.id]
                if name == "map":
                    self.add_item(m, self.call(a[0], [x], {}, node))
                else:
                    n = len(self.ctx)
                    t = self.truth(self.call(a[0], [x], {}, node)) if a[0] != NONE else self.truth(x)
                    self.ctx.append(("if", t))
                    self.add_item(m, x)
                    del self.ctx[n:]

            self.iterate(a[1], tgt, fr, body, node)
            fr.env.vars.pop(tgt.id, None)
            return ("mcoll", m.cid)
        if name in ("any", "all") and len(a) == 1:
            return (name, self.snapshot(a[0]))
        if name == "next" and a:
            return ("opaque", "next()", (self.snapshot(a[0]),))
        if name == "sum" and len(a) == 2:
            s = self.snapshot(a[0])
            return ("flatten", s)
        if name in ("AssertionError", "Exception", "ValueError", "TypeError", "KeyError", "RuntimeError", "BaseException", "NotImplementedError"):
            return ("exc", name, tuple(self.snapshot(x) for x in a))
        if name in ("print", "<noop>"):
            return NONE
        if name == "super" and not a:
            fr = self.frames[-1]
            me = fr.env.lookup(fr.fi.param_names[0]) if fr.fi is not None and fr.fi.param_names else None
            if fr.cls is not None and me is not None:
                return ("super", fr.cls.fq, me)
            return self.problem("super() outside a method", node)
        return ("opaque", f"builtin {name}", tuple(self.snapshot(x) for x in a))

    def key_position(self, key):
        """k when `key(x)` is `x[k]` (itemgetter(k), a lambda / function returning its argument's k-th component), "self" for the
        identity, else None."""
        key = self.reduce(key)
        if key == NONE:
            return "self"
        if key[0] == "itemgetter" and len(key[1]) == 1 and _is_int(key[1][0]):
            return key[1][0][1]
        if key[0] in ("closure", "func", "partial", "bound"):
            probe = ("var", self.fresh())
            saved = self.save_state()
            try:
                r = self.call(key, [probe], {}, None)
                hard = len(self.skipped) > len(saved["skipped"])
            finally:
                self.restore_state(saved)
            if hard or not isinstance(r, tuple):
                return None
            if r == probe:
                return "self"
            if r[0] == "index" and r[1] == probe and _is_int(r[2]):
                return r[2][1]
        return None

    def filter_like(self, pred, iterable, negate: bool, node):
        m = self.new_coll("iter")
        fr = self.frames[-1]
        tgt = ast.Name(id=f"__filter{self.fresh()}", ctx=ast.Store())

        def body():
            x = fr.env.vars[tgt.id]
            n = len(self.ctx)
            t = self.truth(self.call(pred, [x], {}, node)) if pred != NONE else self.truth(x)
            self.ctx.append(("if", c_not(t) if negate else t))
            self.add_item(m, x)
            del self.ctx[n:]

        self.iterate(iterable, tgt, fr, body, node)
        fr.env.vars.pop(tgt.id, None)
        return ("mcoll", m.cid)

    def call_ext(self, dotted, args, kwargs, node):
        a = [self.snapshot(x) for x in args]
        short = dotted.split(".")[-1]
        if dotted in ("itertools.chain",):
            c = self.new_coll("iter")
            for x in args:
                self.add_item(c, x, splat=True)
            return ("mcoll", c.cid)
        if dotted in ("itertools.chain.from_iterable",) and len(a) == 1:
            return ("flatten", a[0])
        if dotted == "itertools.starmap" and len(args) == 2 and not kwargs:
            m = self.new_coll("iter")
            fr = self.frames[-1]
            tgt = ast.Name(id=f"__starmap{self.fresh()}", ctx=ast.Store())

            def body():
                x = fr.env.vars[tgt.id]
                x = self.snapshot(x)
                self.add_item(m, self.call(args[0], list(x[1]) if x[0] == "tuple" else [("starred", x)], {}, node))

            self.iterate(args[1], tgt, fr, body, node)
            fr.env.vars.pop(tgt.id, None)
            return ("mcoll", m.cid)
        if dotted == "itertools.permutations" and args and not kwargs and (len(args) == 1 or _is_int(args[1])):
            return ("perm", a[0], args[1][1] if len(args) == 2 else None)
        if dotted == "itertools.combinations" and len(args) == 2 and not kwargs and args[1] == ("const", 2):
            return ("comb", a[0], 2)
        if dotted == "itertools.product" and args and (not kwargs or (set(kwargs) == {"repeat"} and _is_int(kwargs["repeat"]) and len(args) == 1)):
            seqs = tuple(a) * (kwargs["repeat"][1] if kwargs else 1)
            return ("product", seqs)
        if dotted == "itertools.groupby" and args and len(args) <= 2 and set(kwargs) <= {"key"}:
            key = kwargs.get("key", args[1] if len(args) == 2 else NONE)
            return ("groupby", a[0], self.key_position(key))
        if dotted == "itertools.filterfalse" and len(args) == 2 and not kwargs:
            return self.filter_like(args[0], args[1], True, node)
        if dotted == "contextlib.suppress" and not kwargs:
            names = self.exc_type_names(("tuple", tuple(args)))
            if names is not None:
                return ("suppress", names)
        if dotted == "contextlib.nullcontext" and len(args) <= 1 and not kwargs:
            return ("nullcontext", args[0] if args else NONE)
        if dotted == "functools.partial" and args:
            return ("partial", args[0], tuple(args[1:]), tuple(sorted(kwargs.items())))
        if dotted == "operator.methodcaller" and args and self.reduce(args[0])[0] == "ite":
            c = self.reduce(args[0])
            x = self.call_ext(dotted, [c[2], *args[1:]], kwargs, node)
            y = self.call_ext(dotted, [c[3], *args[1:]], kwargs, node)
            return x if x == y else ("ite", c[1], x, y)
        if dotted == "operator.methodcaller" and args and args[0][0] == "const" and isinstance(args[0][1], str):
            return ("methodcaller", args[0][1], tuple(args[1:]), tuple(sorted(kwargs.items())))
        if dotted == "operator.attrgetter" and args and not kwargs and all(x[0] == "const" and isinstance(x[1], str) for x in args):
            return ("attrgetter", tuple(x[1] for x in args))
        if dotted == "operator.itemgetter" and args and not kwargs:
            return ("itemgetter", tuple(args))
        if dotted == "dataclasses.replace" and args and args[0][0] == "obj":
            src = self.heap_objs[args[0][1]]
            o = Obj(self.fresh(), src.cls, dict(src.fields))
            self.heap_objs[o.oid] = o
            o.fields.update(kwargs)
            return ("obj", o.oid)
        if dotted == "collections.OrderedDict":
            c = self.new_coll("dict")
            if args:
                self.add_item(c, args[0], splat=True)
            return ("mcoll", c.cid)
        if dotted == "collections.defaultdict" and len(args) == 1 and args[0] in (("builtin", "list"), ("builtin", "set")):
            c = self.new_coll("dict")
            c.default_kind = args[0][1]
            return ("mcoll", c.cid)
        if dotted in ("collections.defaultdict",) or short in ("deque",):
            self.problem(f"{dotted} container", node)
        if dotted.startswith("typing.") and short == "cast" and len(args) == 2:
            return args[1]
        if dotted in ("copy.copy", "copy.deepcopy") and len(args) == 1 and args[0][0] != "obj":
            return a[0]
        self.problem(f"library call {dotted}", node, soft=True)
        return ("opaque", f"call {dotted}", tuple(a))

    # ------------------------------------------------------------------ statements
    def block(self, stmts, fr) -> bool:
        """Executes the statements; returns True when control cannot fall off the end."""
        for s in stmts:
            self.steps += 1
            if self.steps > MAX_STEPS:
                raise RuntimeError("symbolic evaluation exceeds the step bound")
            m = getattr(self, "s_" + type(s).__name__, None)
            if m is None:
                self.problem(f"unsupported statement {type(s).__name__}", s)
                continue
            if m(s, fr):
                return True
        return False

    def s_Expr(self, s, fr):
        if isinstance(s.value, ast.Constant):
            return False
        if isinstance(s.value, ast.Yield) and fr.at_yield is not None:
            fr.at_yield(self.eval(s.value.value) if s.value.value is not None else NONE)
            return False
        if isinstance(s.value, (ast.Yield, ast.YieldFrom)):
            y = s.value
            if isinstance(y, ast.Yield):
                self.add_item(fr.gen, self.eval(y.value) if y.value is not None else NONE)
            else:
                self.add_item(fr.gen, self.eval(y.value), splat=True)
            return False
        self.eval(s.value)
        return False

    def e_Yield(self, e, fr):
        return self.problem("yield used as an expression", e)

    e_YieldFrom = e_Yield

    def s_Pass(self, s, fr):
        return False

    def s_Nonlocal(self, s, fr):
        fr.nonlocals.update(s.names)
        return False

    def s_Assert(self, s, fr):
        return False

    def s_Import(self, s, fr):
        return False

    s_ImportFrom = s_Import

    def s_Assign(self, s, fr):
        v = self.eval(s.value)
        for t in s.targets:
            self.bind(t, v, fr)
        return False

    def s_AnnAssign(self, s, fr):
        if s.value is not None:
            self.bind(s.target, self.eval(s.value), fr)
        return False

    def s_AugAssign(self, s, fr):
        cur = self.eval(ast.copy_location(_load(s.target), s.target))
        v = self.eval(s.value)
        if cur[0] == "slot" and isinstance(s.op, (ast.Add, ast.BitOr)):
            self.add_item(self.heap_colls[cur[1]], ("accsplat", cur[2], v))
            return False
        if cur[0] == "mcoll":
            m = self.heap_colls[cur[1]]
            if isinstance(s.op, (ast.Add, ast.BitOr)):
                self.add_item(m, v, splat=True)
                return False
            if isinstance(s.op, ast.Sub) and m.kind == "set":
                other = self.snapshot(v)
                self.replace_content(m, cur, lambda c: ("setop", "-", c, other), s)
                return False
        self.bind(s.target, self.binop(s.op, cur, v, s), fr)
        return False

    def s_FunctionDef(self, s, fr):
        fr.env.vars[s.name] = self.make_closure(s, fr)
        return False

    def s_Return(self, s, fr):
        v = self.eval(s.value) if s.value is not None else NONE
        self.leave(fr, "return", v, s)
        return True

    def leave(self, fr, kind, v, node):
        in_loop = any(e[0] == "for" for e in self.ctx[fr.base:])
        if kind in ("return", "raise"):
            cond = self.path_cond(fr.base)
            if in_loop:
                cond = c_and([cond, ("opaque-exit", self.fresh())])
                if kind == "return":
                    self.problem("return inside a loop", node, soft=True)
                    # the remaining elements of the loops of this function are not processed (like `break`)
                    self.cut_loops.update(x for x in fr.own_loops if x is not None)
            if kind == "return":
                fr.returns.append((cond, v))
            fr.exits.append((kind, cond, len(self.ctx)))
        else:
            base = fr.loop_bases[-1] if fr.loop_bases else fr.base
            fr.exits.append((kind, self.path_cond(base), len(self.ctx)))

    def s_Raise(self, s, fr):
        exc = self.eval(s.exc) if s.exc is not None else ("reraise",)
        if exc[0] == "class":
            exc = self.construct(self.repo.classes[exc[1]], [], {}, s)
        if exc[0] == "builtin":
            exc = ("exc", exc[1], ())
        if self.trys:
            self.problem("raise inside a try body", s)
        self.emit(("raise", self.snapshot(exc)))
        self.origins[("raise", len(self.trace.items))] = (fr.fi, s)
        self.leave(fr, "raise", None, s)
        return True

    def s_Continue(self, s, fr):
        if not fr.loop_bases:
            self.problem("continue in an unrolled loop", s)
        self.leave(fr, "continue", None, s)
        return True

    def s_Break(self, s, fr):
        for e in reversed(self.ctx):
            if e[0] == "for":
                self.cut_loops.add(e[3])
                break
        else:
            self.problem("break in an unrolled loop", s)
        self.leave(fr, "continue", None, s)
        return True

    def s_If(self, s, fr):
        c = self.reduce_cond(self.truth(self.eval(s.test)))
        if c == TRUE:
            return self.block(s.body, fr)
        if c == FALSE:
            return self.block(s.orelse, fr)
        n = len(self.ctx)
        nex = len(fr.exits)
        before = dict(fr.env.vars)
        self.ctx.append(("if", c))
        t1 = self.block(s.body, fr)
        env1 = dict(fr.env.vars)
        del self.ctx[n:]
        fr.env.vars = dict(before)
        self.ctx.append(("if", c_not(c)))
        t2 = self.block(s.orelse, fr)
        env2 = dict(fr.env.vars)
        del self.ctx[n:]
        # the exits taken inside the branches restrict everything that follows
        for kind, cond, _d in fr.exits[nex:]:
            rel = cond
            # `cond` is relative to the frame / loop base: it already contains the enclosing conditions; adding its negation is sound
            self.ctx.append(("if", c_not(rel)))
        if t1 and t2:
            fr.env.vars = env1
            return True
        if t1:
            fr.env.vars = env2
        elif t2:
            fr.env.vars = env1
        else:
            merged = {}
            for k in {**env1, **env2}:
                a, b = env1.get(k), env2.get(k)
                if a is None or b is None:
                    merged[k] = a if b is None else b  # defined on one path only: a later read is the program's own business
                elif a == b:
                    merged[k] = a
                else:
                    merged[k] = ("ite", c, a, b)
            fr.env.vars = merged
        return False

    def s_For(self, s, fr):
        it = self.eval(s.iter)
        carried = loop_carried(s)
        for name in carried:
            v = fr.env.vars.get(name)
            if v is not None and v[0] != "mcoll":
                fr.env.vars[name] = ("opaque", "loop-carried variable", ())
                self.problem(f"variable `{name}` carries a value from one loop iteration to the next", s, soft=True)
            elif v is not None and v[0] == "mcoll" and _rebinds(s, name):
                self.problem(f"collection `{name}` is rebound inside the loop", s, soft=True)
        outer_n = len(self.ctx)

        def body():
            n = len(self.ctx)
            nex = len(fr.exits)
            self.block(s.body, fr)
            # exits of this iteration (continue) end here; returns / raises inside the loop stay recorded
            fr.exits[nex:] = [x for x in fr.exits[nex:] if x[0] != "continue"]
            del self.ctx[n:]

        self.iterate(it, s.target, fr, body, s)
        del self.ctx[outer_n:]
        if s.orelse:
            self.block(s.orelse, fr)
        return False

    def s_While(self, s, fr):
        self.problem("while loop", s)
        return False

    # with statements --------------------------------------------------------
    def s_With(self, s, fr):
        return self.with_items(s, 0, fr)

    def with_items(self, s, i, fr) -> bool:
        """`with m: body` is  v = m.__enter__(); try: body / except BaseException as e: if not m.__exit__(type(e), e, tb): raise /
        else: m.__exit__(None, None, None).  The exception classes that `__exit__` suppresses are read off a side-effect free trial
        evaluation of `__exit__` on a symbolic exception; then the body runs like the body of `try ... except <those classes>` and
        `__exit__` is evaluated once per way of leaving the body."""
        if i == len(s.items):
            return self.block(s.body, fr)
        item = s.items[i]
        mgr = self.reduce(self.eval(item.context_expr))

        def run_body() -> bool:
            return self.with_items(s, i + 1, fr)

        tid = self.try_ids.setdefault((id(s), i), len(self.try_ids) + 1)
        if mgr[0] == "nullcontext":
            if item.optional_vars is not None:
                self.bind(item.optional_vars, mgr[1], fr)
            return run_body()
        if mgr[0] == "suppress":
            if item.optional_vars is not None:
                self.bind(item.optional_vars, NONE, fr)
            n = len(self.ctx)
            self.trys.append((tid, mgr[1]))
            nex = len(fr.exits)
            run_body()
            self.trys.pop()
            del self.ctx[n:]
            for _kind, cond, _d in list(fr.exits[nex:]):
                self.ctx.append(("if", c_not(cond)))
            return False
        if mgr[0] == "ctxgen":
            return self.with_generator(s, item, mgr, fr, run_body)
        enter = exit_ = None
        if mgr[0] == "obj":
            cls = self.heap_objs[mgr[1]].cls
            enter, exit_ = self.repo.lookup_method(cls, "__enter__"), self.repo.lookup_method(cls, "__exit__")
        inherited_enter = enter is None and exit_ is not None and any(b.split(".")[-1] in ("AbstractContextManager", "ContextDecorator") for b in self.repo.external_bases(cls))
        if (enter is None and not inherited_enter) or exit_ is None:
            self.problem("with statement over a context manager that is not defined in the analysed code", s)
            return run_body()
        v = mgr if enter is None else self.call_function(enter, [mgr], {}, s)  # AbstractContextManager.__enter__ returns self
        if item.optional_vars is not None:
            self.bind(item.optional_vars, v, fr)
        types = self.probe_exit(exit_, mgr, tid, s)
        if types is None:
            self.problem("with statement whose __exit__ suppresses exceptions under a condition that is not a test of the exception class", s)
            return run_body()
        tb = ("opaque", "traceback", ())
        n = len(self.ctx)
        if types:
            self.trys.append((tid, types))
        nex_body = len(fr.exits)
        done = run_body()
        if types:
            self.trys.pop()
        body_exits = list(fr.exits[nex_body:])
        del self.ctx[n:]
        # left without an exception
        if types:
            self.ctx.append(("if", c_not(("raised", tid, types))))
        self.call_function(exit_, [mgr, NONE, NONE, NONE], {}, s)
        del self.ctx[n:]
        # left by an exception of a suppressed class
        if types:
            self.ctx.append(("if", ("raised", tid, types)))
            self.call_function(exit_, [mgr, ("exctype", tid, types, ()), ("caught", tid, types), tb], {}, s)
            del self.ctx[n:]
        # left by any other exception (it propagates once __exit__ is done)
        if types != ("BaseException",):
            other = ("not " + "|".join(types),) if types else ("BaseException",)
            self.ctx.append(("if", ("raised", tid, other)))
            nex = len(fr.exits)
            self.call_function(exit_, [mgr, ("exctype", tid, (), types), ("caught", tid, other), tb], {}, s)
            del fr.exits[nex:]
            del self.ctx[n:]
        for _kind, cond, _d in body_exits:
            self.ctx.append(("if", c_not(cond)))
        return done and not types

    def with_generator(self, s, item, mgr, fr, run_body) -> bool:
        """`with f(..): body` for a `@contextmanager` generator function f: the body runs where f yields."""
        fi = self.repo.funcs[mgr[1]]
        if len(self.frames) > MAX_DEPTH or any(f.fi is not None and f.fi.fq == fi.fq for f in self.frames):
            self.problem("recursion / call depth bound reached", s)
            return run_body()
        env = Env()
        if not self.bind_params(fi.node.args, list(mgr[2]), dict(mgr[3]), env, fi.module, s):
            self.problem("with statement: the context manager call does not bind", s)
            return run_body()
        fr2 = Frame(fi, fi.module, fi.cls, len(self.ctx), env)
        yields = [0]

        def at_yield(v) -> None:
            yields[0] += 1
            if item.optional_vars is not None:
                self.bind(item.optional_vars, v, fr)
            self.frames.append(fr)
            try:
                run_body()
            finally:
                self.frames.pop()

        fr2.at_yield = at_yield
        self.frames.append(fr2)
        try:
            self.block(fi.node.body, fr2)
        finally:
            self.frames.pop()
            del self.ctx[fr2.base:]
        self.propagate_raises(fr2)
        if yields[0] != 1:
            self.problem("@contextmanager function that does not yield exactly once on the evaluated path", s)
        return False

    def exc_type_names(self, v):
        v = self.reduce(v)
        if v[0] == "builtin":
            return (v[1],)
        if v[0] == "class":
            return (self.repo.classes[v[1]].name,)
        if v[0] == "ext":
            return (v[1].split(".")[-1],)
        if v[0] == "tuple":
            out: list = []
            for x in v[1]:
                names = self.exc_type_names(x)
                if names is None:
                    return None
                out.extend(names)
            return tuple(out)
        return None

    @staticmethod
    def class_of_caught(c):
        """("exctype", ...) of a ("caught", try id, classes) value; classes = ("not A|B",) says what it is not."""
        types = c[2]
        if len(types) == 1 and types[0].startswith("not "):
            return ("exctype", c[1], (), tuple(types[0][4:].split("|")))
        return ("exctype", c[1], types if types != ("BaseException",) else (), ())

    @staticmethod
    def exc_is(exctype, name: str):
        """Condition `issubclass(<class of the exception in flight>, name)`; exctype = ("exctype", try id, classes the exception is
        known to be an instance of one of, classes it is known not to be an instance of)."""
        import builtins

        _t, tid, pos, neg = exctype

        def cls(n):
            c = getattr(builtins, n, None)
            return c if isinstance(c, type) and issubclass(c, BaseException) else None

        if name == "BaseException":
            return TRUE
        if name in neg:
            return FALSE
        c = cls(name)
        if c is not None and any(cls(x) is not None and issubclass(c, cls(x)) for x in neg):
            return FALSE
        if len(pos) == 1:
            if pos[0] == name:
                return TRUE
            p = cls(pos[0])
            if p is not None and c is not None:
                if issubclass(p, c):
                    return TRUE
                if not issubclass(c, p):
                    return FALSE  # unrelated builtin classes
        return ("raised", tid, (name,))

    def probe_exit(self, exit_, mgr, tid, node):
        """The exception classes `mgr.__exit__` suppresses: a tuple of class names (() = none, ("BaseException",) = all), or None
        when the answer is not a test of the exception class.  The trial evaluation leaves no trace in the state."""
        saved = self.save_state()
        try:
            r = self.call_function(exit_, [mgr, ("exctype", tid, (), ()), ("caught", tid, ("BaseException",)), ("opaque", "traceback", ())], {}, node)
            cond = self.truth(self.reduce(r)) if isinstance(r, tuple) and r else None
            hard = len(self.skipped) > len(saved["skipped"])
        finally:
            self.restore_state(saved)
        if cond is None or hard:
            return None
        if cond == FALSE:
            return ()
        if cond == TRUE:
            return ("BaseException",)
        parts = cond[1] if cond[0] == "or" else (cond,)
        out: list = []
        for c in parts:
            if c[0] != "raised" or c[1] != tid:
                return None
            out.extend(x for x in c[2] if x not in out)
        return tuple(out)

    def save_state(self) -> dict:
        return {
            "objs": {k: dict(o.fields) for k, o in self.heap_objs.items()},
            "colls": {k: (list(m.items), set(m.filled_in)) for k, m in self.heap_colls.items()},
            "closures": set(self.closures),
            "problems": list(self.problems),
            "skipped": list(self.skipped),
            "reads": list(self.reads),
            "ctx": list(self.ctx),
            "cut": set(self.cut_loops),
            "origins": dict(self.origins),
            "shared": dict(self.shared),
            "trys": list(self.trys),
            "running": list(self.running),
            "frames": [(f, len(f.exits), len(f.returns), dict(f.env.vars), f.env) for f in self.frames],
            "nframes": len(self.frames),
        }

    def restore_state(self, st: dict) -> None:
        for k in list(self.heap_objs):
            if k not in st["objs"]:
                del self.heap_objs[k]
            else:
                self.heap_objs[k].fields = dict(st["objs"][k])
        for k in list(self.heap_colls):
            if k not in st["colls"]:
                del self.heap_colls[k]
            else:
                self.heap_colls[k].items = list(st["colls"][k][0])
                self.heap_colls[k].filled_in = set(st["colls"][k][1])
        for k in list(self.closures):
            if k not in st["closures"]:
                del self.closures[k]
        self.problems[:] = st["problems"]
        self.skipped[:] = st["skipped"]
        self.reads[:] = st["reads"]
        self.ctx[:] = st["ctx"]
        self.cut_loops = set(st["cut"])
        self.origins = dict(st["origins"])
        self.shared = dict(st["shared"])
        self.trys[:] = st["trys"]
        self.running[:] = st["running"]
        del self.frames[st["nframes"]:]
        for f, nex, nret, env_vars, env in st["frames"]:
            del f.exits[nex:]
            del f.returns[nret:]
            f.env = env
            f.env.vars = dict(env_vars)

    def s_Delete(self, s, fr):
        for t in s.targets:
            if isinstance(t, ast.Subscript) and not isinstance(t.slice, ast.Slice):
                o = self.eval(t.value)
                if o[0] == "mcoll" and self.heap_colls[o[1]].kind == "list":
                    self.delete_at(self.heap_colls[o[1]], o, self.eval(t.slice), s)
                    continue
            if isinstance(t, ast.Name) and t.id in fr.env.vars:
                del fr.env.vars[t.id]  # the name is gone; the value is untouched
                continue
            self.problem("del statement", s)
        return False

    def s_Try(self, s, fr):
        tid = self.try_ids.setdefault(id(s), len(self.try_ids) + 1)
        types = []
        for h in s.handlers:
            if h.type is None:
                types.append("BaseException")
            elif isinstance(h.type, ast.Tuple):
                types.extend(ast.unparse(x) for x in h.type.elts)
            else:
                types.append(ast.unparse(h.type))
        types = tuple(types)
        n = len(self.ctx)
        self.trys.append((tid, types))
        nex_body = len(fr.exits)
        t_body = self.block(s.body, fr)
        self.trys.pop()
        body_env = dict(fr.env.vars)
        del self.ctx[n:]
        if s.orelse:
            self.ctx.append(("if", c_not(("raised", tid, types))))
            self.block(s.orelse, fr)
            del self.ctx[n:]
        body_exits = list(fr.exits[nex_body:])  # continue / break / return in the body or the else branch
        for h in s.handlers:
            ht = ("BaseException",) if h.type is None else tuple(ast.unparse(x) for x in h.type.elts) if isinstance(h.type, ast.Tuple) else (ast.unparse(h.type),)
            self.ctx.append(("if", ("raised", tid, ht)))
            if h.name:
                fr.env.vars[h.name] = ("caught", tid, ht)
            nex = len(fr.exits)
            self.block(h.body, fr)
            del self.ctx[n:]
            for kind, cond, _d in fr.exits[nex:]:
                self.ctx.append(("if", c_not(cond)))
        if s.finalbody:
            self.block(s.finalbody, fr)
        # what follows the statement only happens when the body was not left by continue / break / return
        for _kind, cond, _d in body_exits:
            self.ctx.append(("if", c_not(cond)))
        if t_body and not s.handlers:
            return True
        return False


def _has_tag(t, tags) -> bool:
    if isinstance(t, tuple) and t:
        if t[0] in tags:
            return True
        return any(_has_tag(x, tags) for x in t if isinstance(x, tuple))
    return False


def _is_int(v) -> bool:
    return v[0] == "const" and isinstance(v[1], int) and not isinstance(v[1], bool)


def _own(fnode):
    body = [fnode.body] if isinstance(fnode, ast.Lambda) else list(fnode.body)
    stack = list(body)
    while stack:
        n = stack.pop()
        yield n
        if isinstance(n, (ast.FunctionDef, ast.AsyncFunctionDef, ast.Lambda, ast.ClassDef)):
            continue
        stack.extend(ast.iter_child_nodes(n))


def _load(t):
    if isinstance(t, ast.Name):
        return ast.Name(id=t.id, ctx=ast.Load())
    if isinstance(t, ast.Attribute):
        return ast.Attribute(value=t.value, attr=t.attr, ctx=ast.Load())
    if isinstance(t, ast.Subscript):
        return ast.Subscript(value=t.value, slice=t.slice, ctx=ast.Load())
    return t


def _rebinds(loop, name) -> bool:
    for n in ast.walk(loop):
        if isinstance(n, ast.Assign) and any(isinstance(t, ast.Name) and t.id == name for t in n.targets):
            return True
    return False
