"""Developer tool (not part of any tier): re-spellings of the C07 code that must leave the C07 check silent, and breaking changes
written in the same idioms that must still be reported.  Run:  /venv/bin/python engine/rules/c07_variants.py [name...]

Each variant replaces whole files of a scratch copy of /repo (tempfile, removed afterwards); nothing of /repo is executed.
"""

from __future__ import annotations

import shutil
import sys
import tempfile
from pathlib import Path

DCV = "src/pytestarch/diagram_extension/dependency_to_rule_converter.py"
DRU = "src/pytestarch/diagram_extension/diagram_rule.py"
MUL = "src/pytestarch/query_language/multiple_rule_applier.py"

CONV_HEAD = '''from __future__ import annotations
import itertools
from typing import Iterator, Iterable
from pytestarch.diagram_extension.parsed_dependencies import ParsedDependencies
from pytestarch.query_language.base_language import RuleApplier
from pytestarch.query_language.rule import Rule

'''

MUL_HEAD = '''from __future__ import annotations
from typing import Iterator, Optional
from pytestarch.eval_structure.evaluable_architecture import EvaluableArchitecture
from pytestarch.query_language.base_language import RuleApplier

'''

DRU_HEAD = '''from __future__ import annotations
import dataclasses
import functools
from pathlib import Path
from typing import Callable
from pytestarch.diagram_extension.dependency_to_rule_converter import DependencyToRuleConverter
from pytestarch.diagram_extension.diagram_parser import PumlParser
from pytestarch.diagram_extension.parsed_dependencies import ParsedDependencies
from pytestarch.eval_structure.evaluable_graph import EvaluableArchitecture
from pytestarch.query_language.base_language import BaseModuleSpecifier, FileRule, RuleApplier
from pytestarch.query_language.exceptions import ImproperlyConfigured
from pytestarch.query_language.multiple_rule_applier import MultipleRuleApplier

'''

DRULE_CLASS = '''
class DiagramRule(FileRule, BaseModuleSpecifier, RuleApplier):
    def __init__(self, should_only_rule: bool = True) -> None:
        self._file_path: Path | None = None
        self._name_relative_to_root: str | None = None
        self._should_only_rule = should_only_rule

    def from_file(self, file_path: Path) -> BaseModuleSpecifier:
        self._file_path = file_path
        return self

    def with_base_module(self, name_relative_to_root: str) -> RuleApplier:
        self._name_relative_to_root = name_relative_to_root
        return self

    def base_module_included_in_module_names(self) -> RuleApplier:
        return self

    def assert_applies(self, evaluable: EvaluableArchitecture) -> None:
        if self._file_path is None:
            raise ImproperlyConfigured("A file path pointing to the diagram has to be specified.")
        dependencies = PumlParser().parse(self._file_path)
        prefixed = ModulePrefixer.prefix(dependencies, self._name_relative_to_root)
        rules = DependencyToRuleConverter(self._should_only_rule).convert(prefixed)
        MultipleRuleApplier(rules).assert_applies(evaluable)
'''

PREFIXER_PLAIN = '''
class ModulePrefixer:
    @classmethod
    def prefix(cls, parsed_dependencies: ParsedDependencies, prefix: str | None) -> ParsedDependencies:
        return ParsedDependencies(
            all_modules={cls._add(m, prefix) for m in parsed_dependencies.all_modules},
            dependencies={cls._add(k, prefix): {cls._add(v, prefix) for v in vs} for k, vs in parsed_dependencies.dependencies.items()},
        )

    @classmethod
    def _add(cls, module_name: str, prefix: str | None) -> str:
        if prefix is None:
            return module_name
        return f"{prefix}.{module_name}"
'''

VARIANTS: dict[str, dict] = {}


def variant(name, files, expect="silent"):
    VARIANTS[name] = {"files": files, "expect": expect}


# ---------------------------------------------------------------------------------------------- converter
variant("conv-walrus-filter", {DCV: CONV_HEAD + '''
class DependencyToRuleConverter:
    def __init__(self, should_only_rule: bool) -> None:
        self._only = should_only_rule

    def convert(self, dependencies: ParsedDependencies) -> list[RuleApplier]:
        return list(itertools.chain(self._convert_should_rules(dependencies), self._convert_should_not_rules(dependencies)))

    def _subject(self, name: str):
        return Rule().modules_that().are_named(name)

    def _convert_should_rules(self, dependencies: ParsedDependencies) -> list[RuleApplier]:
        verb_name = "should_only" if self._only else "should"
        return [
            getattr(self._subject(importer), verb_name)().import_modules_that().are_named(list(importees))
            for importer, importees in dependencies.dependencies.items()
        ]

    @classmethod
    def _convert_should_not_rules(cls, parsed_dependencies: ParsedDependencies) -> list[RuleApplier]:
        modules = parsed_dependencies.all_modules
        drawn = parsed_dependencies.dependencies
        return [
            Rule().modules_that().are_named(m).should_not().import_modules_that().are_named(sorted(forbidden))
            for m in sorted(modules)
            if (forbidden := {o for o in modules if o != m and o not in drawn.get(m, set())})
        ]
'''})

variant("conv-loops-extend", {DCV: CONV_HEAD + '''
class DependencyToRuleConverter:
    def __init__(self, should_only_rule: bool) -> None:
        self._should_only_rule = should_only_rule

    def convert(self, dependencies: ParsedDependencies) -> list[RuleApplier]:
        rules: list[RuleApplier] = []
        rules.extend(self._convert_should_rules(dependencies))
        rules += self._convert_should_not_rules(dependencies)
        return rules

    def _convert_should_rules(self, dependencies: ParsedDependencies) -> list[RuleApplier]:
        result = []
        for importer in dependencies.dependencies:
            importees = dependencies.dependencies[importer]
            subject = Rule().modules_that().are_named(importer)
            verb = subject.should_only if self._should_only_rule is True else subject.should
            result.append(verb().import_modules_that().are_named(sorted(importees)))
        return result

    @classmethod
    def _convert_should_not_rules(cls, parsed_dependencies: ParsedDependencies) -> list[RuleApplier]:
        rules = []
        for possible_importer in sorted(parsed_dependencies.all_modules):
            if possible_importer in parsed_dependencies.dependencies:
                imported = parsed_dependencies.dependencies[possible_importer]
            else:
                imported = set()
            not_imported = parsed_dependencies.all_modules.difference({possible_importer}, imported)
            if len(not_imported) == 0:
                continue
            rules.append(cls._forbid(possible_importer, not_imported))
        return rules

    @staticmethod
    def _forbid(importer: str, importees: set[str]) -> RuleApplier:
        return Rule().modules_that().are_named(importer).should_not().import_modules_that().are_named(sorted(importees))
'''})

variant("conv-yield-from", {DCV: CONV_HEAD + '''
class DependencyToRuleConverter:
    def __init__(self, should_only_rule: bool) -> None:
        self._should_only_rule = should_only_rule

    def convert(self, dependencies: ParsedDependencies) -> list[RuleApplier]:
        return list(self._all_rules(dependencies))

    def _all_rules(self, dependencies: ParsedDependencies) -> Iterator[RuleApplier]:
        yield from self._convert_should_rules(dependencies)
        yield from self._convert_should_not_rules(dependencies)

    def _convert_should_rules(self, dependencies: ParsedDependencies) -> list[RuleApplier]:
        return list(map(lambda item: self._generate_rule(*item), dependencies.dependencies.items()))

    def _generate_rule(self, importer: str, importees: set[str]) -> RuleApplier:
        rule_subject = Rule().modules_that().are_named(importer)
        if not self._should_only_rule:
            return rule_subject.should().import_modules_that().are_named(list(importees))
        return rule_subject.should_only().import_modules_that().are_named(list(importees))

    @classmethod
    def _convert_should_not_rules(cls, parsed_dependencies: ParsedDependencies) -> list[RuleApplier]:
        def undrawn(module: str) -> set[str]:
            others = set(parsed_dependencies.all_modules)
            others.discard(module)
            return others - (parsed_dependencies.dependencies.get(module) or set())

        candidates = ((m, undrawn(m)) for m in sorted(parsed_dependencies.all_modules))
        return [
            Rule().modules_that().are_named(m).should_not().import_modules_that().are_named(sorted(targets))
            for m, targets in candidates
            if targets
        ]
'''})

variant("conv-BREAK-skip-importers", {DCV: CONV_HEAD + '''
class DependencyToRuleConverter:
    def __init__(self, should_only_rule: bool) -> None:
        self._should_only_rule = should_only_rule

    def convert(self, dependencies: ParsedDependencies) -> list[RuleApplier]:
        return [*self._convert_should_rules(dependencies), *self._convert_should_not_rules(dependencies)]

    def _convert_should_rules(self, dependencies: ParsedDependencies) -> list[RuleApplier]:
        return [self._generate_rule(k, v) for k, v in dependencies.dependencies.items()]

    def _generate_rule(self, importer: str, importees: set[str]) -> RuleApplier:
        s = Rule().modules_that().are_named(importer)
        return (s.should_only() if self._should_only_rule else s.should()).import_modules_that().are_named(list(importees))

    @classmethod
    def _convert_should_not_rules(cls, parsed_dependencies: ParsedDependencies) -> list[RuleApplier]:
        def gen():
            for m in sorted(parsed_dependencies.all_modules):
                rest = parsed_dependencies.all_modules - {m} - parsed_dependencies.dependencies.get(m, set())
                if rest and m not in parsed_dependencies.dependencies:
                    yield m, rest
        return [Rule().modules_that().are_named(m).should_not().import_modules_that().are_named(sorted(r)) for m, r in gen()]
'''}, expect="C07.R1")

variant("conv-BREAK-objects-all-modules", {DCV: CONV_HEAD + '''
class DependencyToRuleConverter:
    def __init__(self, should_only_rule: bool) -> None:
        self._should_only_rule = should_only_rule

    def convert(self, dependencies: ParsedDependencies) -> list[RuleApplier]:
        return [*self._convert_should_rules(dependencies), *self._convert_should_not_rules(dependencies)]

    def _convert_should_rules(self, dependencies: ParsedDependencies) -> list[RuleApplier]:
        return [self._generate_rule(k, v) for k, v in dependencies.dependencies.items()]

    def _generate_rule(self, importer: str, importees: set[str]) -> RuleApplier:
        s = Rule().modules_that().are_named(importer)
        return (s.should_only() if self._should_only_rule else s.should()).import_modules_that().are_named(list(importees))

    @classmethod
    def _convert_should_not_rules(cls, parsed_dependencies: ParsedDependencies) -> list[RuleApplier]:
        out = []
        for m in sorted(parsed_dependencies.all_modules):
            rest = {o for o in parsed_dependencies.all_modules if o != m or o not in parsed_dependencies.dependencies.get(m, set())}
            if rest:
                out.append(Rule().modules_that().are_named(m).should_not().import_modules_that().are_named(sorted(rest)))
        return out
'''}, expect="C07.R1")

# ---------------------------------------------------------------------------------------------- applier
variant("mra-optional-helper", {MUL: MUL_HEAD + '''
class MultipleRuleApplier(RuleApplier):
    def __init__(self, rule_appliers: list[RuleApplier]) -> None:
        self._rule_appliers = rule_appliers

    def assert_applies(self, evaluable: EvaluableArchitecture) -> None:
        outcomes = (self._violation_of(rule, evaluable) for rule in self._rule_appliers)
        messages = [m for m in outcomes if m is not None]
        self._raise_if_any(messages)

    @staticmethod
    def _violation_of(rule: RuleApplier, evaluable: EvaluableArchitecture) -> Optional[str]:
        try:
            rule.assert_applies(evaluable)
        except AssertionError as error:
            return error.args[0]
        return None

    @staticmethod
    def _raise_if_any(messages: list[str]) -> None:
        if len(messages) > 0:
            raise AssertionError("\\n".join(messages))
'''})

variant("mra-enumerate-else", {MUL: MUL_HEAD + '''
class MultipleRuleApplier(RuleApplier):
    def __init__(self, rule_appliers: list[RuleApplier]) -> None:
        self._rule_appliers = rule_appliers

    def assert_applies(self, evaluable: EvaluableArchitecture) -> None:
        failed: list[str] = []
        for _index, applier in enumerate(self._rule_appliers):
            try:
                applier.assert_applies(evaluable)
            except AssertionError as e:
                failed += [e.args[0]]
            else:
                continue
        if failed == []:
            return None
        raise AssertionError("\\n".join(failed))
'''})

variant("mra-attribute-reset", {MUL: MUL_HEAD + '''
class MultipleRuleApplier(RuleApplier):
    def __init__(self, rule_appliers: list[RuleApplier]) -> None:
        self._rule_appliers = rule_appliers
        self._messages: list[str] = []

    def assert_applies(self, evaluable: EvaluableArchitecture) -> None:
        self._messages = []
        for applier in self._rule_appliers:
            self._apply(applier, evaluable)
        if self._messages:
            raise AssertionError("\\n".join(self._messages))

    def _apply(self, applier: RuleApplier, evaluable: EvaluableArchitecture) -> None:
        try:
            applier.assert_applies(evaluable)
        except AssertionError as e:
            self._messages.append(e.args[0])
'''})

variant("mra-BREAK-first-only", {MUL: MUL_HEAD + '''
class MultipleRuleApplier(RuleApplier):
    def __init__(self, rule_appliers: list[RuleApplier]) -> None:
        self._rule_appliers = rule_appliers

    def assert_applies(self, evaluable: EvaluableArchitecture) -> None:
        failed: list[str] = []
        for applier in self._rule_appliers:
            try:
                applier.assert_applies(evaluable)
            except AssertionError as e:
                failed.append(e.args[0])
                break
        if failed:
            raise AssertionError("\\n".join(failed))
'''}, expect="C07.R2")

variant("mra-BREAK-swallow", {MUL: MUL_HEAD + '''
class MultipleRuleApplier(RuleApplier):
    def __init__(self, rule_appliers: list[RuleApplier]) -> None:
        self._rule_appliers = rule_appliers

    def assert_applies(self, evaluable: EvaluableArchitecture) -> None:
        failed = [m for m in map(lambda r: self._msg(r, evaluable), self._rule_appliers) if m]
        if len(failed) > 1:
            raise AssertionError("\\n".join(failed))

    def _msg(self, r, evaluable):
        try:
            r.assert_applies(evaluable)
        except AssertionError as e:
            return e.args[0]
'''}, expect="C07.R2")

# ---------------------------------------------------------------------------------------------- prefixer / diagram rule
variant("prefix-early-return-map", {DRU: DRU_HEAD + '''
class ModulePrefixer:
    @classmethod
    def prefix(cls, parsed_dependencies: ParsedDependencies, prefix: str | None) -> ParsedDependencies:
        if prefix is None:
            return parsed_dependencies
        qualify = functools.partial(cls._qualified, prefix)
        return dataclasses.replace(
            parsed_dependencies,
            all_modules=set(map(qualify, parsed_dependencies.all_modules)),
            dependencies={qualify(k): set(map(qualify, v)) for k, v in parsed_dependencies.dependencies.items()},
        )

    @staticmethod
    def _qualified(prefix: str, module_name: str) -> str:
        return prefix + "." + module_name
''' + DRULE_CLASS})

variant("prefix-nested-def-join", {DRU: DRU_HEAD + '''
class ModulePrefixer:
    @classmethod
    def prefix(cls, parsed_dependencies: ParsedDependencies, prefix: str | None) -> ParsedDependencies:
        def qualified(name: str) -> str:
            return name if prefix is None else ".".join((prefix, name))

        def all_qualified(names) -> set[str]:
            result = set()
            for name in names:
                result.add(qualified(name))
            return result

        dependencies = {}
        for key in parsed_dependencies.dependencies.keys():
            dependencies[qualified(key)] = all_qualified(parsed_dependencies.dependencies[key])
        return ParsedDependencies(all_qualified(parsed_dependencies.all_modules), dependencies)
''' + DRULE_CLASS})

variant("prefix-BREAK-values-unprefixed-for-none-key", {DRU: DRU_HEAD + '''
class ModulePrefixer:
    @classmethod
    def prefix(cls, parsed_dependencies: ParsedDependencies, prefix: str | None) -> ParsedDependencies:
        def qualified(name: str) -> str:
            return name if prefix is None else f"{prefix}.{name}"
        dependencies = {qualified(k): set(v) for k, v in parsed_dependencies.dependencies.items()}
        return ParsedDependencies({qualified(m) for m in parsed_dependencies.all_modules}, dependencies)
''' + DRULE_CLASS}, expect="C07.R3")

variant("drule-config-object-cached", {DRU: DRU_HEAD + PREFIXER_PLAIN + '''
@dataclasses.dataclass
class _Settings:
    path: Path | None = None
    base: str | None = None
    only: bool = True


class DiagramRule(FileRule, BaseModuleSpecifier, RuleApplier):
    def __init__(self, should_only_rule: bool = True) -> None:
        self._settings = _Settings(only=should_only_rule)
        self._applier: MultipleRuleApplier | None = None

    def from_file(self, file_path: Path) -> BaseModuleSpecifier:
        self._settings.path = file_path
        self._applier = None
        return self

    def with_base_module(self, name_relative_to_root: str) -> RuleApplier:
        self._settings.base = name_relative_to_root
        self._applier = None
        return self

    def base_module_included_in_module_names(self) -> RuleApplier:
        self._settings.base = None
        self._applier = None
        return self

    @property
    def _path(self) -> Path:
        if self._settings.path is None:
            raise ImproperlyConfigured("A file path pointing to the diagram has to be specified.")
        return self._settings.path

    def assert_applies(self, evaluable: EvaluableArchitecture) -> None:
        path = self._path
        if self._applier is None:
            parsed = PumlParser().parse(path)
            self._applier = MultipleRuleApplier(
                DependencyToRuleConverter(should_only_rule=self._settings.only).convert(
                    ModulePrefixer.prefix(prefix=self._settings.base, parsed_dependencies=parsed)
                )
            )
        self._applier.assert_applies(evaluable)
'''})

variant("drule-skip-prefix-when-none", {DRU: DRU_HEAD + PREFIXER_PLAIN + '''
class DiagramRule(FileRule, BaseModuleSpecifier, RuleApplier):
    def __init__(self, should_only_rule: bool = True) -> None:
        self._file_path: Path | None = None
        self._base: str | None = None
        self._should_only_rule = should_only_rule

    def from_file(self, file_path: Path) -> BaseModuleSpecifier:
        self._file_path = file_path
        return self

    def with_base_module(self, name_relative_to_root: str) -> RuleApplier:
        self._base = name_relative_to_root
        return self

    def base_module_included_in_module_names(self) -> RuleApplier:
        return self

    def assert_applies(self, evaluable: EvaluableArchitecture) -> None:
        if self._file_path is None:
            raise ImproperlyConfigured("A file path pointing to the diagram has to be specified.")
        dependencies = PumlParser().parse(self._file_path)
        if self._base is not None:
            dependencies = ModulePrefixer.prefix(dependencies, self._base)
        for_rules = DependencyToRuleConverter(self._should_only_rule)
        MultipleRuleApplier(for_rules.convert(dependencies)).assert_applies(evaluable)
'''})

variant("drule-BREAK-flag-ignored", {DRU: DRU_HEAD + PREFIXER_PLAIN + DRULE_CLASS.replace("DependencyToRuleConverter(self._should_only_rule)", "DependencyToRuleConverter(True)")}, expect="C07.R3")
variant("drule-BREAK-base-only-if-dotted", {DRU: DRU_HEAD + PREFIXER_PLAIN + DRULE_CLASS.replace("self._name_relative_to_root = name_relative_to_root", "self._name_relative_to_root = name_relative_to_root if '.' in name_relative_to_root else None")}, expect="C07.R3")


# ---------------------------------------------------------------------------------------------- second batch
variant("conv-optional-rule-helper", {DCV: CONV_HEAD + """
class DependencyToRuleConverter:
    _VERBS = {True: "should_only", False: "should"}

    def __init__(self, should_only_rule: bool) -> None:
        self._should_only_rule = should_only_rule

    def convert(self, dependencies: ParsedDependencies) -> list[RuleApplier]:
        return sum([self._convert_should_rules(dependencies), self._convert_should_not_rules(dependencies)], [])

    def _convert_should_rules(self, dependencies: ParsedDependencies) -> list[RuleApplier]:
        if not dependencies.dependencies:
            return []
        rules = []
        for importer in sorted(dependencies.dependencies):
            subject = Rule().modules_that().are_named(importer)
            verb = getattr(subject, self._VERBS[self._should_only_rule])()
            rules.append(verb.import_modules_that().are_named(list(dependencies.dependencies[importer])))
        return rules

    @classmethod
    def _convert_should_not_rules(cls, parsed_dependencies: ParsedDependencies) -> list[RuleApplier]:
        candidates = [cls._should_not_rule(m, parsed_dependencies) for m in sorted(parsed_dependencies.all_modules)]
        return [rule for rule in candidates if rule is not None]

    @classmethod
    def _should_not_rule(cls, importer: str, parsed: ParsedDependencies):
        others = [m for m in parsed.all_modules if m != importer]
        forbidden = [m for m in others if m not in parsed.dependencies.get(importer, frozenset())]
        if not forbidden:
            return None
        return Rule().modules_that().are_named(importer).should_not().import_modules_that().are_named(sorted(forbidden))
"""})

variant("conv-dataclass-spec-objects", {DCV: CONV_HEAD + """
import dataclasses

@dataclasses.dataclass(frozen=True)
class _Forbidden:
    importer: str
    importees: list[str]

    def as_rule(self) -> RuleApplier:
        return Rule().modules_that().are_named(self.importer).should_not().import_modules_that().are_named(self.importees)


class DependencyToRuleConverter:
    def __init__(self, should_only_rule: bool) -> None:
        self._should_only_rule = should_only_rule

    def convert(self, dependencies: ParsedDependencies) -> list[RuleApplier]:
        should_rules = self._convert_should_rules(dependencies)
        should_not_rules = self._convert_should_not_rules(dependencies)
        return should_rules + should_not_rules

    def _convert_should_rules(self, dependencies: ParsedDependencies) -> list[RuleApplier]:
        return [self._generate_rule(importer, importees) for importer, importees in dependencies.dependencies.items()]

    def _generate_rule(self, importer: str, importees: set[str]) -> RuleApplier:
        rule_subject = Rule().modules_that().are_named(importer)
        verb = rule_subject.should_only() if self._should_only_rule else rule_subject.should()
        return verb.import_modules_that().are_named(list(importees))

    @classmethod
    def _forbidden(cls, parsed: ParsedDependencies) -> Iterator[_Forbidden]:
        for importer in sorted(parsed.all_modules):
            undrawn = parsed.all_modules - ({importer} | parsed.dependencies.get(importer, set()))
            if undrawn:
                yield _Forbidden(importer, sorted(undrawn))

    @classmethod
    def _convert_should_not_rules(cls, parsed_dependencies: ParsedDependencies) -> list[RuleApplier]:
        return [spec.as_rule() for spec in cls._forbidden(parsed_dependencies)]
"""})

variant("mra-collect-format-str", {MUL: MUL_HEAD + """
class MultipleRuleApplier(RuleApplier):
    _SEPARATOR = "\\n"

    def __init__(self, rule_appliers: list[RuleApplier]) -> None:
        super().__init__()
        self._rule_appliers = list(rule_appliers)

    def assert_applies(self, evaluable: EvaluableArchitecture) -> None:
        errors = self._collect(evaluable)
        if errors:
            raise AssertionError(self._format(errors))

    def _collect(self, evaluable: EvaluableArchitecture) -> list[str]:
        errors = []
        for rule_applier in self._rule_appliers:
            try:
                rule_applier.assert_applies(evaluable)
            except AssertionError as e:
                errors.append(str(e))
        return errors

    @classmethod
    def _format(cls, errors: list[str]) -> str:
        return cls._SEPARATOR.join(errors)
"""})

variant("prefix-callable-object", {DRU: DRU_HEAD + """
class _Qualifier:
    def __init__(self, prefix: str | None) -> None:
        self._prefix = prefix

    def __call__(self, name: str) -> str:
        if self._prefix is None:
            return name
        return "%s.%s" % (self._prefix, name)

    def all(self, names) -> set[str]:
        return {self(n) for n in names}


class ModulePrefixer:
    @classmethod
    def prefix(cls, parsed_dependencies: ParsedDependencies, prefix: str | None) -> ParsedDependencies:
        qualify = _Qualifier(prefix)
        return ParsedDependencies(
            all_modules=qualify.all(parsed_dependencies.all_modules),
            dependencies={qualify(k): qualify.all(v) for k, v in parsed_dependencies.dependencies.items()},
        )
""" + DRULE_CLASS})

variant("drule-converter-in-init-super", {DRU: DRU_HEAD + PREFIXER_PLAIN + """
class DiagramRule(FileRule, BaseModuleSpecifier, RuleApplier):
    def __init__(self, should_only_rule: bool = True) -> None:
        super().__init__()
        self._file_path: Path | None = None
        self._name_relative_to_root: str | None = None
        self._converter = DependencyToRuleConverter(should_only_rule)

    def from_file(self, file_path: Path) -> BaseModuleSpecifier:
        self._file_path = file_path
        return self

    def with_base_module(self, name_relative_to_root: str) -> RuleApplier:
        self._name_relative_to_root = name_relative_to_root
        return self

    def base_module_included_in_module_names(self) -> RuleApplier:
        return self

    def _diagram_path(self) -> Path:
        if self._file_path is None:
            raise ImproperlyConfigured("A file path pointing to the diagram has to be specified.")
        return self._file_path

    @functools.cached_property
    def _parser(self) -> PumlParser:
        return PumlParser()

    def assert_applies(self, evaluable: EvaluableArchitecture) -> None:
        steps = self._parser.parse(self._diagram_path())
        steps = ModulePrefixer.prefix(steps, self._name_relative_to_root)
        MultipleRuleApplier(self._converter.convert(steps)).assert_applies(evaluable)
"""})

variant("drule-BREAK-rules-cached-across-reconfiguration", {DRU: DRU_HEAD + PREFIXER_PLAIN + """
class DiagramRule(FileRule, BaseModuleSpecifier, RuleApplier):
    def __init__(self, should_only_rule: bool = True) -> None:
        self._file_path: Path | None = None
        self._name_relative_to_root: str | None = None
        self._should_only_rule = should_only_rule
        self._messages: list[str] = []

    def from_file(self, file_path: Path) -> BaseModuleSpecifier:
        self._file_path = file_path
        return self

    def with_base_module(self, name_relative_to_root: str) -> RuleApplier:
        self._name_relative_to_root = name_relative_to_root
        return self

    def base_module_included_in_module_names(self) -> RuleApplier:
        return self

    def assert_applies(self, evaluable: EvaluableArchitecture) -> None:
        if self._file_path is None:
            raise ImproperlyConfigured("A file path pointing to the diagram has to be specified.")
        dependencies = ModulePrefixer.prefix(PumlParser().parse(self._file_path), self._name_relative_to_root)
        for rule in DependencyToRuleConverter(self._should_only_rule).convert(dependencies):
            try:
                rule.assert_applies(evaluable)
            except AssertionError as e:
                self._messages.append(e.args[0])
        if self._messages:
            raise AssertionError("\\n".join(self._messages))
"""}, expect="C07.R2")

# ---------------------------------------------------------------------------------------------- third batch
variant("conv-table-driven-unbound", {DCV: CONV_HEAD + """
def _named(name):
    return Rule().modules_that().are_named(name)


class DependencyToRuleConverter:
    def __init__(self, should_only_rule: bool) -> None:
        self._verb = Rule.should_only if should_only_rule else Rule.should

    def convert(self, dependencies: ParsedDependencies) -> list[RuleApplier]:
        rules: list[RuleApplier] = []
        for create in (self._convert_should_rules, self._convert_should_not_rules):
            rules.extend(create(dependencies))
        return rules

    def _convert_should_rules(self, dependencies: ParsedDependencies) -> list[RuleApplier]:
        return [self._verb(_named(importer)).import_modules_that().are_named(list(importees)) for importer, importees in dependencies.dependencies.items()]

    @classmethod
    def _convert_should_not_rules(cls, parsed_dependencies: ParsedDependencies) -> list[RuleApplier]:
        rules: list[RuleApplier] = []
        emit = rules.append
        for possible_importer in sorted(parsed_dependencies.all_modules):
            not_imported = set(parsed_dependencies.all_modules)
            not_imported -= {possible_importer}
            not_imported -= parsed_dependencies.dependencies.get(possible_importer, set())
            if not_imported:
                emit(Rule.should_not(_named(possible_importer)).import_modules_that().are_named(sorted(not_imported)))
        return rules
"""})

variant("mra-filter-none-callback", {MUL: MUL_HEAD + """
class MultipleRuleApplier(RuleApplier):
    def __init__(self, rule_appliers: list[RuleApplier]) -> None:
        self._rule_appliers = rule_appliers

    def assert_applies(self, evaluable: EvaluableArchitecture) -> None:
        error_messages: list[str] = []
        for rule_applier in self._rule_appliers:
            self._apply(rule_applier, evaluable, on_violation=error_messages.append)
        error_messages = list(filter(None, error_messages))
        if not error_messages:
            return
        raise AssertionError("\\n".join(error_messages)) from None

    @staticmethod
    def _apply(rule_applier, evaluable, on_violation) -> None:
        try:
            rule_applier.assert_applies(evaluable)
        except AssertionError as e:
            on_violation(e.args[0])
"""})

variant("drule-bypass-convert-inline-prefix", {DRU: DRU_HEAD + PREFIXER_PLAIN + """
class DiagramRule(FileRule, BaseModuleSpecifier, RuleApplier):
    def __init__(self, should_only_rule: bool = True) -> None:
        self._file_path: Path | None = None
        self._base: str | None = None
        self._should_only_rule = should_only_rule

    def from_file(self, file_path: Path) -> BaseModuleSpecifier:
        self._file_path = file_path
        return self

    def with_base_module(self, name_relative_to_root: str) -> RuleApplier:
        self._base = name_relative_to_root
        return self

    def base_module_included_in_module_names(self) -> RuleApplier:
        return self

    def _qualified(self, name: str) -> str:
        return name if self._base is None else f"{self._base}.{name}"

    def assert_applies(self, evaluable: EvaluableArchitecture) -> None:
        if self._file_path is None:
            raise ImproperlyConfigured("A file path pointing to the diagram has to be specified.")
        parsed = PumlParser().parse(self._file_path)
        qualified = ParsedDependencies(
            {self._qualified(m) for m in parsed.all_modules},
            {self._qualified(k): {self._qualified(v) for v in vs} for k, vs in parsed.dependencies.items()},
        )
        converter = DependencyToRuleConverter(self._should_only_rule)
        rules = converter._convert_should_rules(qualified) + converter._convert_should_not_rules(qualified)
        MultipleRuleApplier(rules).assert_applies(evaluable)
"""})

variant("conv-get-none-walrus", {DCV: CONV_HEAD + """
class DependencyToRuleConverter:
    def __init__(self, should_only_rule: bool) -> None:
        self._should_only_rule = should_only_rule

    def convert(self, dependencies: ParsedDependencies) -> list[RuleApplier]:
        return self._convert_should_rules(dependencies) + self._convert_should_not_rules(dependencies)

    def _convert_should_rules(self, dependencies: ParsedDependencies) -> list[RuleApplier]:
        def rule(importer, importees):
            subject = Rule().modules_that().are_named(importer)
            if self._should_only_rule:
                return subject.should_only().import_modules_that().are_named(list(importees))
            return subject.should().import_modules_that().are_named(list(importees))
        return [rule(k, dependencies.dependencies[k]) for k in dependencies.dependencies.keys()]

    @classmethod
    def _convert_should_not_rules(cls, parsed_dependencies: ParsedDependencies) -> list[RuleApplier]:
        rules = []
        for m in sorted(parsed_dependencies.all_modules):
            forbidden = set(parsed_dependencies.all_modules)
            forbidden.discard(m)
            if (drawn := parsed_dependencies.dependencies.get(m)) is not None:
                forbidden.difference_update(drawn)
            if len(forbidden) >= 1:
                rules.append(Rule().modules_that().are_named(m).should_not().import_modules_that().are_named(sorted(forbidden)))
        return rules
"""})

# ---------------------------------------------------------------------------------------------- fourth batch
variant("mra-early-return-tuple", {MUL: MUL_HEAD + """
class MultipleRuleApplier(RuleApplier):
    def __init__(self, rule_appliers: list[RuleApplier]) -> None:
        self._rule_appliers = tuple(rule_appliers)

    def assert_applies(self, evaluable: EvaluableArchitecture) -> None:
        if not self._rule_appliers:
            return
        error_messages = []
        for rule_applier in self._rule_appliers:
            try:
                rule_applier.assert_applies(evaluable)
            except AssertionError as e:
                error_messages.append(e.args[0])
        if error_messages:
            raise AssertionError("\\n".join(error_messages))
"""})

variant("drule-config-dict-new-module", {
    "src/pytestarch/diagram_extension/rule_generation.py": """from __future__ import annotations
from pathlib import Path
from typing import Iterator
from pytestarch.diagram_extension.dependency_to_rule_converter import DependencyToRuleConverter
from pytestarch.diagram_extension.diagram_parser import PumlParser
from pytestarch.diagram_extension.parsed_dependencies import ParsedDependencies
from pytestarch.query_language.base_language import RuleApplier


def qualified(parsed: ParsedDependencies, base: str | None) -> ParsedDependencies:
    from pytestarch.diagram_extension.diagram_rule import ModulePrefixer
    return ModulePrefixer.prefix(parsed, base)


def rules_from_diagram(path: Path, base: str | None, should_only: bool) -> Iterator[RuleApplier]:
    parsed = qualified(PumlParser().parse(path), base)
    yield from DependencyToRuleConverter(should_only).convert(parsed)
""",
    DRU: DRU_HEAD + "from pytestarch.diagram_extension.rule_generation import rules_from_diagram\n" + PREFIXER_PLAIN + """
class DiagramRule(FileRule, BaseModuleSpecifier, RuleApplier):
    def __init__(self, should_only_rule: bool = True) -> None:
        self._config = {"file": None, "base": None, "only": should_only_rule}

    def from_file(self, file_path: Path) -> BaseModuleSpecifier:
        self._config["file"] = file_path
        return self

    def with_base_module(self, name_relative_to_root: str) -> RuleApplier:
        self._config["base"] = name_relative_to_root
        return self

    def base_module_included_in_module_names(self) -> RuleApplier:
        return self

    def assert_applies(self, evaluable: EvaluableArchitecture) -> None:
        path = self._config.get("file")
        if path is None:
            raise ImproperlyConfigured("A file path pointing to the diagram has to be specified.")
        rules = list(rules_from_diagram(path, self._config["base"], self._config["only"]))
        MultipleRuleApplier(rules).assert_applies(evaluable)
"""})

variant("conv-intermediate-dict", {DCV: CONV_HEAD + """
class DependencyToRuleConverter:
    def __init__(self, should_only_rule: bool) -> None:
        self._should_only_rule = should_only_rule

    def convert(self, dependencies: ParsedDependencies) -> list[RuleApplier]:
        return self._convert_should_rules(dependencies) + self._convert_should_not_rules(dependencies)

    def _convert_should_rules(self, dependencies: ParsedDependencies) -> list[RuleApplier]:
        drawn = {importer: list(importees) for importer, importees in dependencies.dependencies.items()}
        subjects = {importer: Rule().modules_that().are_named(importer) for importer in drawn}
        verbs = {importer: (s.should_only() if self._should_only_rule else s.should()) for importer, s in subjects.items()}
        return [verb.import_modules_that().are_named(drawn[importer]) for importer, verb in verbs.items()]

    @classmethod
    def _convert_should_not_rules(cls, parsed_dependencies: ParsedDependencies) -> list[RuleApplier]:
        forbidden = {
            m: parsed_dependencies.all_modules - {m} - parsed_dependencies.dependencies.get(m, set())
            for m in sorted(parsed_dependencies.all_modules)
        }
        return [
            Rule().modules_that().are_named(m).should_not().import_modules_that().are_named(sorted(targets))
            for m, targets in forbidden.items()
            if targets
        ]
"""})

variant("conv-keyed-lookup", {DCV: CONV_HEAD + """
class DependencyToRuleConverter:
    def __init__(self, should_only_rule: bool) -> None:
        self._should_only_rule = should_only_rule

    def convert(self, dependencies: ParsedDependencies) -> list[RuleApplier]:
        return self._convert_should_rules(dependencies) + self._convert_should_not_rules(dependencies)

    def _convert_should_rules(self, dependencies: ParsedDependencies) -> list[RuleApplier]:
        subjects = {importer: Rule().modules_that().are_named(importer) for importer in dependencies.dependencies}
        rules = []
        for importer in subjects:
            verb = subjects[importer].should_only() if self._should_only_rule else subjects[importer].should()
            rules.append(verb.import_modules_that().are_named(list(dependencies.dependencies[importer])))
        return rules

    @classmethod
    def _convert_should_not_rules(cls, parsed_dependencies: ParsedDependencies) -> list[RuleApplier]:
        forbidden = {}
        for m in parsed_dependencies.all_modules:
            forbidden[m] = parsed_dependencies.all_modules - {m} - parsed_dependencies.dependencies.get(m, set())
        rules = []
        for m in sorted(forbidden):
            if not forbidden[m]:
                continue
            rules.append(Rule().modules_that().are_named(m).should_not().import_modules_that().are_named(sorted(forbidden.get(m))))
        return rules
"""})

# ---------------------------------------------------------------------------------------------- fifth batch
variant("conv-strategy-objects", {DCV: CONV_HEAD + """
class _ShouldOnlyMode:
    def verb(self, subject):
        return subject.should_only()


class _ShouldMode:
    def verb(self, subject):
        return subject.should()


class DependencyToRuleConverter:
    def __init__(self, should_only_rule: bool) -> None:
        self._mode = _ShouldOnlyMode() if should_only_rule else _ShouldMode()

    def convert(self, dependencies: ParsedDependencies) -> list[RuleApplier]:
        should_rules = self._convert_should_rules(dependencies)
        should_not_rules = self._convert_should_not_rules(dependencies)
        return should_rules + should_not_rules

    def _convert_should_rules(self, dependencies: ParsedDependencies) -> list[RuleApplier]:
        return [
            self._mode.verb(Rule().modules_that().are_named(importer)).import_modules_that().are_named(list(importees))
            for importer, importees in dependencies.dependencies.items()
        ]

    @classmethod
    def _convert_should_not_rules(cls, parsed_dependencies: ParsedDependencies) -> list[RuleApplier]:
        rules = []
        for possible_importer in sorted(parsed_dependencies.all_modules):
            not_imported = cls._not_imported_by(possible_importer, parsed_dependencies)
            if not_imported:
                rules.append(Rule().modules_that().are_named(possible_importer).should_not().import_modules_that().are_named(not_imported))
        return rules

    @staticmethod
    def _not_imported_by(importer: str, parsed: ParsedDependencies) -> list[str]:
        imported = parsed.dependencies.get(importer, set())
        return sorted(m for m in parsed.all_modules if m != importer and m not in imported)
"""})

variant("mra-outcome-objects", {MUL: MUL_HEAD + """
import dataclasses

@dataclasses.dataclass(frozen=True)
class _Outcome:
    rule: RuleApplier
    message: Optional[str] = None

    @property
    def violated(self) -> bool:
        return self.message is not None


class MultipleRuleApplier(RuleApplier):
    def __init__(self, rule_appliers: list[RuleApplier]) -> None:
        self._rule_appliers = rule_appliers

    def assert_applies(self, evaluable: EvaluableArchitecture) -> None:
        outcomes = [self._evaluate(rule, evaluable) for rule in self._rule_appliers]
        violations = [o for o in outcomes if o.violated]
        if violations:
            raise AssertionError("\\n".join(o.message for o in violations))

    @staticmethod
    def _evaluate(rule: RuleApplier, evaluable: EvaluableArchitecture) -> _Outcome:
        try:
            rule.assert_applies(evaluable)
        except AssertionError as e:
            return _Outcome(rule, e.args[0])
        else:
            return _Outcome(rule)
"""})

variant("drule-memo-by-configuration", {DRU: DRU_HEAD + PREFIXER_PLAIN + """
class DiagramRule(FileRule, BaseModuleSpecifier, RuleApplier):
    def __init__(self, should_only_rule: bool = True) -> None:
        self._file_path: Path | None = None
        self._base: str | None = None
        self._only = should_only_rule
        self._rules_by_configuration: dict = {}

    def from_file(self, file_path: Path) -> BaseModuleSpecifier:
        self._file_path = file_path
        return self

    def with_base_module(self, name_relative_to_root: str) -> RuleApplier:
        self._base = name_relative_to_root
        return self

    def base_module_included_in_module_names(self) -> RuleApplier:
        return self

    def _rules(self) -> list[RuleApplier]:
        if self._file_path is None:
            raise ImproperlyConfigured("A file path pointing to the diagram has to be specified.")
        key = (self._file_path, self._base, self._only)
        if key not in self._rules_by_configuration:
            parsed = ModulePrefixer.prefix(PumlParser().parse(self._file_path), self._base)
            self._rules_by_configuration[key] = DependencyToRuleConverter(self._only).convert(parsed)
        return self._rules_by_configuration[key]

    def assert_applies(self, evaluable: EvaluableArchitecture) -> None:
        MultipleRuleApplier(self._rules()).assert_applies(evaluable)
"""})

variant("drule-BREAK-memo-ignores-base", {DRU: DRU_HEAD + PREFIXER_PLAIN + """
class DiagramRule(FileRule, BaseModuleSpecifier, RuleApplier):
    _parsed_by_path: dict = {}

    def __init__(self, should_only_rule: bool = True) -> None:
        self._file_path: Path | None = None
        self._base: str | None = None
        self._only = should_only_rule
        self._rules = None

    def from_file(self, file_path: Path) -> BaseModuleSpecifier:
        self._file_path = file_path
        self._rules = DependencyToRuleConverter(self._only).convert(ModulePrefixer.prefix(PumlParser().parse(file_path), self._base))
        return self

    def with_base_module(self, name_relative_to_root: str) -> RuleApplier:
        self._base = name_relative_to_root
        return self

    def base_module_included_in_module_names(self) -> RuleApplier:
        return self

    def assert_applies(self, evaluable: EvaluableArchitecture) -> None:
        if self._file_path is None:
            raise ImproperlyConfigured("A file path pointing to the diagram has to be specified.")
        MultipleRuleApplier(self._rules).assert_applies(evaluable)
"""}, expect="C07.R3")

# ---------------------------------------------------------------------------------------------- sixth batch: keyed message stores
def _mra(body: str) -> dict:
    return {MUL: MUL_HEAD + "import collections\n\n\nclass MultipleRuleApplier(RuleApplier):\n    def __init__(self, rule_appliers: list[RuleApplier]) -> None:\n        self._rule_appliers = rule_appliers\n" + body}


variant("mra-dict-by-index", _mra("""
    def assert_applies(self, evaluable: EvaluableArchitecture) -> None:
        failures: dict[int, str] = {}
        for position, rule_applier in enumerate(self._rule_appliers):
            try:
                rule_applier.assert_applies(evaluable)
            except AssertionError as e:
                failures[position] = e.args[0]
        if failures:
            raise AssertionError("\\n".join(failures.values()))
"""))

variant("mra-ordereddict-items", _mra("""
    def assert_applies(self, evaluable: EvaluableArchitecture) -> None:
        failures = collections.OrderedDict()
        for position, rule_applier in enumerate(self._rule_appliers):
            try:
                rule_applier.assert_applies(evaluable)
            except AssertionError as e:
                failures[(position, rule_applier)] = e.args[0]
        lines = [message for _key, message in failures.items()]
        if lines:
            raise AssertionError("\\n".join(lines))
"""))

variant("mra-dict-of-lists-setdefault", _mra("""
    def assert_applies(self, evaluable: EvaluableArchitecture) -> None:
        by_subject: dict = {}
        for rule_applier in self._rule_appliers:
            try:
                rule_applier.assert_applies(evaluable)
            except AssertionError as e:
                by_subject.setdefault(self._group_of(rule_applier), []).append(e.args[0])
        error_messages = [message for messages in by_subject.values() for message in messages]
        if error_messages:
            raise AssertionError("\\n".join(error_messages))

    @staticmethod
    def _group_of(rule_applier):
        return getattr(rule_applier, "rule_subjects", None) or id(rule_applier)
"""))

variant("mra-defaultdict-lists", _mra("""
    def assert_applies(self, evaluable: EvaluableArchitecture) -> None:
        grouped = collections.defaultdict(list)
        for rule_applier in self._rule_appliers:
            try:
                rule_applier.assert_applies(evaluable)
            except AssertionError as e:
                grouped[type(rule_applier).__name__].append(e.args[0])
        if grouped:
            raise AssertionError("\\n".join(m for ms in grouped.values() for m in ms))
"""))

variant("mra-BREAK-dict-by-subject", _mra("""
    def assert_applies(self, evaluable: EvaluableArchitecture) -> None:
        error_messages: dict = {}
        for position, rule_applier in enumerate(self._rule_appliers):
            try:
                rule_applier.assert_applies(evaluable)
            except AssertionError as e:
                error_messages[self._group_of(rule_applier, position)] = e.args[0]
        if error_messages:
            raise AssertionError("\\n".join(error_messages.values()))

    @classmethod
    def _group_of(cls, rule_applier, position):
        rule_subjects = getattr(rule_applier, "rule_subjects", None)
        if not rule_subjects:
            return position
        return tuple(sorted(subject.identifier for subject in rule_subjects))
"""), expect="C07.R2")

variant("mra-BREAK-items-loop-by-subject", _mra("""
    def assert_applies(self, evaluable: EvaluableArchitecture) -> None:
        latest: dict = {}
        for rule_applier in self._rule_appliers:
            try:
                rule_applier.assert_applies(evaluable)
            except AssertionError as e:
                latest[str(rule_applier.subject)] = e.args[0]
        lines = []
        for _subject, message in latest.items():
            lines.append(message)
        if lines:
            raise AssertionError("\\n".join(lines))
"""), expect="C07.R2")

variant("mra-BREAK-dedup-by-rule-type", _mra("""
    def assert_applies(self, evaluable: EvaluableArchitecture) -> None:
        grouped = collections.defaultdict(list)
        for rule_applier in self._rule_appliers:
            try:
                rule_applier.assert_applies(evaluable)
            except AssertionError as e:
                grouped[rule_applier.kind].append(e.args[0])
        if grouped:
            raise AssertionError("\\n".join(ms[0] for ms in grouped.values()))
"""), expect="C07.R2")

# ---------------------------------------------------------------------------------------------- seventh batch (round 8): context
# managers, operator.methodcaller, positions / slices of one sorted sequence, re-configuration of an evaluated rule object
def _mra_full(head: str, body: str) -> dict:
    return {MUL: MUL_HEAD + "import contextlib\n\n\n" + head + "\nclass MultipleRuleApplier(RuleApplier):\n    def __init__(self, rule_appliers: list[RuleApplier]) -> None:\n        self._rule_appliers = rule_appliers\n" + body}


_LOG = """
class _ViolationLog:
    def __init__(self) -> None:
        self.messages: list[str] = []

    def __enter__(self):
        return self

    def __exit__(self, exc_type, exc, traceback) -> bool:
        %s
"""
_WITH_LOG = """
    def assert_applies(self, evaluable: EvaluableArchitecture) -> None:
        violations = _ViolationLog()
        for rule_applier in self._rule_appliers:
            with violations:
                rule_applier.assert_applies(evaluable)
        if not violations.messages:
            return
        raise AssertionError("\\n".join(violations.messages))
"""

variant("mra-with-log-issubclass", _mra_full(_LOG % """if exc_type is None or not issubclass(exc_type, AssertionError):
            return False
        self.messages.append(exc.args[0])
        return True""", _WITH_LOG))

variant("mra-with-log-per-call-as-target", _mra_full(_LOG % """if isinstance(exc, AssertionError):
            self.messages.append(str(exc))
        return isinstance(exc, AssertionError)""", """
    def assert_applies(self, evaluable: EvaluableArchitecture) -> None:
        with contextlib.nullcontext(_ViolationLog()) as log:
            for rule_applier in self._rule_appliers:
                with log as entered:
                    rule_applier.assert_applies(evaluable)
        if entered.messages:
            raise AssertionError("\\n".join(entered.messages))
"""))

variant("mra-BREAK-with-log-catches-exception", _mra_full(_LOG % """if exc_type is None or not issubclass(exc_type, Exception):
            return False
        self.messages.append(exc.args[0])
        return True""", _WITH_LOG), expect="C07.R2")

variant("mra-BREAK-with-log-suppresses-everything", _mra_full(_LOG % """if exc_type is None:
            return False
        if issubclass(exc_type, AssertionError):
            self.messages.append(exc.args[0])
        return True""", _WITH_LOG), expect="C07.R2")

variant("mra-BREAK-with-log-does-not-suppress", _mra_full(_LOG % """if exc_type is not None and issubclass(exc_type, AssertionError):
            self.messages.append(exc.args[0])
        return False""", _WITH_LOG), expect="C07.R2")

variant("mra-BREAK-with-log-around-the-loop", _mra_full(_LOG % """if exc_type is None or not issubclass(exc_type, AssertionError):
            return False
        self.messages.append(exc.args[0])
        return True""", """
    def assert_applies(self, evaluable: EvaluableArchitecture) -> None:
        violations = _ViolationLog()
        with violations:
            for rule_applier in self._rule_appliers:
                rule_applier.assert_applies(evaluable)
        if violations.messages:
            raise AssertionError("\\n".join(violations.messages))
"""), expect="C07.R2")

variant("mra-BREAK-with-log-at-class-level", _mra_full(_LOG % """if exc_type is None or not issubclass(exc_type, AssertionError):
            return False
        self.messages.append(exc.args[0])
        return True""", """
    _violations = _ViolationLog()

    def assert_applies(self, evaluable: EvaluableArchitecture) -> None:
        violations = self._violations
        for rule_applier in self._rule_appliers:
            with violations:
                rule_applier.assert_applies(evaluable)
        if violations.messages:
            raise AssertionError("\\n".join(violations.messages))
"""), expect="C07.R2")

_COLLECTING = """
@contextlib.contextmanager
def _collecting(messages: list[str]):
    try:
        yield messages
    except %s as e:
        messages.append(e.args[0])
"""
_WITH_COLLECTING = """
    def assert_applies(self, evaluable: EvaluableArchitecture) -> None:
        messages: list[str] = []
        for rule_applier in self._rule_appliers:
            with _collecting(messages):
                rule_applier.assert_applies(evaluable)
        if messages:
            raise AssertionError("\\n".join(messages))
"""
variant("mra-contextmanager-generator", _mra_full(_COLLECTING % "AssertionError", _WITH_COLLECTING))
variant("mra-BREAK-contextmanager-generator-catches-more", _mra_full(_COLLECTING % "(AssertionError, KeyError)", _WITH_COLLECTING), expect="C07.R2")
variant("mra-BREAK-suppress-loses-messages", _mra_full("", """
    def assert_applies(self, evaluable: EvaluableArchitecture) -> None:
        failed = []
        for rule_applier in self._rule_appliers:
            with contextlib.suppress(AssertionError):
                rule_applier.assert_applies(evaluable)
                continue
            failed.append(str(rule_applier))
        if failed:
            raise AssertionError("\\n".join(failed))
"""), expect="C07.R2")

_PLANNED = CONV_HEAD + """from operator import methodcaller
from typing import Callable, NamedTuple

_SHOULD = methodcaller("should")
_SHOULD_ONLY = methodcaller("should_only")
_SHOULD_NOT = methodcaller(%(should_not)r)


class _PlannedRule(NamedTuple):
    importer: str
    behavior: Callable
    importees: Iterable[str]

    def build(self) -> RuleApplier:
        rule_subject = Rule().modules_that().are_named(self.importer)
        verb = self.behavior(rule_subject)
        return verb.import_modules_that().are_named(list(self.importees))


class DependencyToRuleConverter:
    def __init__(self, should_only_rule: bool) -> None:
        self._should_only_rule = should_only_rule

    def convert(self, dependencies: ParsedDependencies) -> list[RuleApplier]:
        should_rules = self._convert_should_rules(dependencies)
        should_not_rules = self._convert_should_not_rules(dependencies)
        return should_rules + should_not_rules

    def _convert_should_rules(self, dependencies: ParsedDependencies) -> list[RuleApplier]:
        behavior = %(behavior)s
        planned = [_PlannedRule(importer, behavior, importees) for importer, importees in dependencies.dependencies.items()]
        return [rule.build() for rule in planned]

    @classmethod
    def _convert_should_not_rules(cls, parsed_dependencies: ParsedDependencies) -> list[RuleApplier]:
        return [rule.build() for rule in cls._plan_should_not_rules(parsed_dependencies)]

    @classmethod
    def _plan_should_not_rules(cls, parsed_dependencies: ParsedDependencies) -> list[_PlannedRule]:
        modules_in_order = %(order)s
        drawn = parsed_dependencies.dependencies
        no_arrows: frozenset[str] = frozenset()
        planned = []
        for position, possible_importer in enumerate(%(enumerated)s):
            imported = drawn.get(possible_importer, no_arrows)
            candidates = %(candidates)s
            not_imported = [module for module in candidates if module not in imported]
            if not not_imported:
                continue
            planned.append(_PlannedRule(possible_importer, _SHOULD_NOT, not_imported))
        return planned
"""
_PLAN = {"should_not": "should_not", "behavior": "_SHOULD_ONLY if self._should_only_rule else _SHOULD", "order": "sorted(parsed_dependencies.all_modules)", "enumerated": "modules_in_order", "candidates": "modules_in_order[:position] + modules_in_order[position + 1 :]"}
variant("conv-planned-methodcaller-slices", {DCV: _PLANNED % _PLAN})
variant("conv-planned-slices-chain-from-zero", {DCV: _PLANNED % {**_PLAN, "candidates": "list(itertools.chain(modules_in_order[0:position], modules_in_order[1 + position:]))"}})
variant("conv-planned-enumerate-copy-inequality", {DCV: _PLANNED % {**_PLAN, "enumerated": "list(modules_in_order)", "candidates": "[m for i, m in enumerate(modules_in_order) if i != position]"}})
variant("conv-planned-del-position", {DCV: (_PLANNED % {**_PLAN, "candidates": "list(modules_in_order)"}).replace("            not_imported = [", "            del candidates[position]\n            not_imported = [")})
variant("conv-planned-pop-position-filterfalse", {DCV: (_PLANNED % {**_PLAN, "candidates": "modules_in_order.copy()"}).replace("            not_imported = [module for module in candidates if module not in imported]", "            candidates.pop(position)\n            not_imported = list(itertools.filterfalse(imported.__contains__, candidates))")})
variant("conv-BREAK-planned-pop-next-position", {DCV: (_PLANNED % {**_PLAN, "candidates": "modules_in_order.copy()"}).replace("            not_imported = [", "            candidates.pop(position + 1) if position + 1 < len(candidates) else None\n            not_imported = [")}, expect="C07.R1")
variant("conv-BREAK-planned-self-kept", {DCV: _PLANNED % {**_PLAN, "candidates": "modules_in_order[:position] + modules_in_order[position:]"}}, expect="C07.R1")
variant("conv-BREAK-planned-predecessors-only", {DCV: _PLANNED % {**_PLAN, "candidates": "modules_in_order[:position]"}}, expect="C07.R1")
variant("conv-BREAK-planned-two-skipped", {DCV: _PLANNED % {**_PLAN, "candidates": "modules_in_order[:position] + modules_in_order[position + 2 :]"}}, expect="C07.R1")
variant("conv-BREAK-planned-mode-exchanged", {DCV: _PLANNED % {**_PLAN, "behavior": "_SHOULD if self._should_only_rule else _SHOULD_ONLY"}}, expect="C07.R1")
variant("conv-BREAK-planned-should-not-is-should", {DCV: _PLANNED % {**_PLAN, "should_not": "should"}}, expect="C07.R1")
variant("conv-planned-positions-of-another-order", {DCV: _PLANNED % {**_PLAN, "enumerated": "list(parsed_dependencies.all_modules)"}}, expect="undecided")

variant("drule-BREAK-first-base-module-wins", {DRU: DRU_HEAD + PREFIXER_PLAIN + DRULE_CLASS.replace("        self._name_relative_to_root = name_relative_to_root\n", "        if self._name_relative_to_root is None:\n            self._name_relative_to_root = name_relative_to_root\n")}, expect="C07.R3")
variant("drule-BREAK-first-file-wins", {DRU: DRU_HEAD + PREFIXER_PLAIN + DRULE_CLASS.replace("        self._file_path = file_path\n", "        self._file_path = self._file_path or file_path\n")}, expect="C07.R3")


# ---------------------------------------------------------------------------------------------- eighth batch (round 9): violations
# produced by generators / callbacks / collector objects; pairs + itertools.groupby / permutations / product / starmap
_GEN_CONSUME = """
    def assert_applies(self, evaluable: EvaluableArchitecture) -> None:
        error_messages = %s
        if error_messages:
            raise AssertionError("\\n".join(error_messages))
"""
_GEN_ELSE_CONTINUE = """
    def _iter_violations(self, evaluable):
        for rule_applier in self._rule_appliers:
            try:
                rule_applier.assert_applies(evaluable)
            except AssertionError as e:
                violation = e.args[0]
            else:
                continue
            yield violation
"""
_GEN_YIELD_IN_HANDLER = """
    def _iter_violations(self, evaluable):
        for rule_applier in self._rule_appliers:
            try:
                rule_applier.assert_applies(evaluable)
            except AssertionError as e:
                yield e.args[0]
"""
variant("mra-generator-else-continue-list", _mra_full("", _GEN_CONSUME % "list(self._iter_violations(evaluable))" + _GEN_ELSE_CONTINUE))
variant("mra-generator-yield-in-handler-tuple", _mra_full("", _GEN_CONSUME % "tuple(self._iter_violations(evaluable))" + _GEN_YIELD_IN_HANDLER))
variant("mra-generator-sorted-star", _mra_full("", _GEN_CONSUME % "[*self._iter_violations(evaluable)]" + _GEN_YIELD_IN_HANDLER))
variant("mra-generator-joined-directly", _mra_full("", """
    def assert_applies(self, evaluable: EvaluableArchitecture) -> None:
        report = "\\n".join(self._iter_violations(evaluable))
        if report:
            raise AssertionError(report)
""" + _GEN_YIELD_IN_HANDLER))
variant("mra-generator-of-exceptions-module-level", _mra_full("""
def _violations(rule_appliers, evaluable):
    for rule_applier in rule_appliers:
        try:
            rule_applier.assert_applies(evaluable)
        except AssertionError as error:
            yield rule_applier, error
""", """
    def assert_applies(self, evaluable: EvaluableArchitecture) -> None:
        failed = list(_violations(self._rule_appliers, evaluable))
        if not failed:
            return
        raise AssertionError("\\n".join(error.args[0] for _rule, error in failed))
"""))
variant("mra-generator-yield-from-per-rule", _mra_full("", _GEN_CONSUME % "list(self._iter_violations(evaluable))" + """
    @staticmethod
    def _violation_of(rule_applier, evaluable):
        try:
            rule_applier.assert_applies(evaluable)
        except AssertionError as e:
            yield e.args[0]

    def _iter_violations(self, evaluable):
        for rule_applier in self._rule_appliers:
            yield from self._violation_of(rule_applier, evaluable)
"""))
variant("mra-callback-protocol", _mra_full("", """
    def assert_applies(self, evaluable: EvaluableArchitecture) -> None:
        error_messages: list[str] = []
        self._each_violation(evaluable, error_messages.append)
        if error_messages:
            raise AssertionError("\\n".join(error_messages))

    def _each_violation(self, evaluable, on_violation) -> None:
        for rule_applier in self._rule_appliers:
            try:
                rule_applier.assert_applies(evaluable)
            except AssertionError as e:
                on_violation(e.args[0])
"""))
variant("mra-collector-object", _mra_full("""
class _Collector:
    def __init__(self) -> None:
        self._messages: list[str] = []

    def record(self, error: AssertionError) -> None:
        self._messages.append(error.args[0])

    def raise_if_any(self) -> None:
        if self._messages:
            raise AssertionError("\\n".join(self._messages))
""", """
    def assert_applies(self, evaluable: EvaluableArchitecture) -> None:
        collector = _Collector()
        for rule_applier in self._rule_appliers:
            try:
                rule_applier.assert_applies(evaluable)
            except AssertionError as e:
                collector.record(e)
        collector.raise_if_any()
"""))
variant("mra-BREAK-generator-returns-after-first", _mra_full("", _GEN_CONSUME % "list(self._iter_violations(evaluable))" + _GEN_YIELD_IN_HANDLER.replace("yield e.args[0]", "yield e.args[0]\n                return")), expect="C07.R2")
variant("mra-BREAK-generator-raise-while-iterating", _mra_full("", """
    def assert_applies(self, evaluable: EvaluableArchitecture) -> None:
        for message in self._iter_violations(evaluable):
            raise AssertionError(message)
""" + _GEN_YIELD_IN_HANDLER), expect="C07.R2")
variant("mra-BREAK-generator-yields-for-fulfilled-rules", _mra_full("", _GEN_CONSUME % "list(self._iter_violations(evaluable))" + _GEN_ELSE_CONTINUE.replace("                continue\n", "                violation = ''\n")), expect="C07.R2")
variant("mra-BREAK-generator-catches-exception", _mra_full("", _GEN_CONSUME % "list(self._iter_violations(evaluable))" + _GEN_YIELD_IN_HANDLER.replace("except AssertionError", "except Exception")), expect="C07.R2")
variant("mra-BREAK-collector-at-class-level", _mra_full("""
class _Collector:
    def __init__(self) -> None:
        self._messages: list[str] = []

    def record(self, error: AssertionError) -> None:
        self._messages.append(error.args[0])

    def raise_if_any(self) -> None:
        if self._messages:
            raise AssertionError("\\n".join(self._messages))
""", """
    _collector = _Collector()

    def assert_applies(self, evaluable: EvaluableArchitecture) -> None:
        for rule_applier in self._rule_appliers:
            try:
                rule_applier.assert_applies(evaluable)
            except AssertionError as e:
                self._collector.record(e)
        self._collector.raise_if_any()
"""), expect="C07.R2")

_GROUPED = CONV_HEAD + """from itertools import combinations, groupby, permutations, product, starmap
from operator import itemgetter, methodcaller


class DependencyToRuleConverter:
    def __init__(self, should_only_rule: bool) -> None:
        self._should_only_rule = should_only_rule

    def convert(self, dependencies: ParsedDependencies) -> list[RuleApplier]:
        return [*self._convert_should_rules(dependencies), *self._convert_should_not_rules(dependencies)]

    def _convert_should_rules(self, dependencies: ParsedDependencies) -> list[RuleApplier]:
        return list(starmap(self._generate_rule, dependencies.dependencies.items()))

    def _generate_rule(self, importer: str, importees: set[str]) -> RuleApplier:
        apply_verb = methodcaller("should_only" if self._should_only_rule else "should")
        return apply_verb(Rule().modules_that().are_named(importer)).import_modules_that().are_named(list(importees))

    @classmethod
    def _convert_should_not_rules(cls, parsed_dependencies: ParsedDependencies) -> list[RuleApplier]:
        drawn = parsed_dependencies.dependencies
        modules = parsed_dependencies.all_modules
%(pairs)s
        return [
            Rule().modules_that().are_named(possible_importer).should_not().import_modules_that().are_named([other for _, other in pairs])
            for possible_importer, pairs in %(grouped)s
        ]
"""
_G = {"pairs": "        undrawn = ((m, o) for m, o in permutations(sorted(modules), 2) if o not in drawn.get(m, ()))", "grouped": "groupby(undrawn, key=itemgetter(0))"}
variant("conv-groupby-permutations", {DCV: _GROUPED % _G})
variant("conv-groupby-sorted-set-of-pairs-lambda", {DCV: _GROUPED % {"pairs": "        undrawn = {(m, o) for m in modules for o in modules if m != o and o not in drawn.get(m, set())}", "grouped": "groupby(sorted(undrawn), key=lambda pair: pair[0])"}})
variant("conv-groupby-product-filtered-sorted-by-key", {DCV: _GROUPED % {"pairs": "        undrawn = [(m, o) for m, o in product(modules, repeat=2) if m != o and o not in drawn.get(m, frozenset())]", "grouped": "groupby(sorted(undrawn, key=itemgetter(0)), itemgetter(0))"}})
variant("conv-groupby-pairs-from-nested-loops", {DCV: _GROUPED % {"pairs": "        undrawn = []\n        for m in sorted(modules):\n            for o in sorted(modules):\n                if m != o and o not in drawn.get(m, set()):\n                    undrawn.append((m, o))", "grouped": "groupby(undrawn, key=itemgetter(0))"}})
variant("conv-BREAK-groupby-product-with-self-pairs", {DCV: _GROUPED % {**_G, "pairs": "        undrawn = ((m, o) for m, o in product(sorted(modules), repeat=2) if o not in drawn.get(m, ()))"}}, expect="C07.R1")
variant("conv-BREAK-groupby-combinations", {DCV: _GROUPED % {**_G, "pairs": "        undrawn = ((m, o) for m, o in combinations(sorted(modules), 2) if o not in drawn.get(m, ()))"}}, expect="C07.R1")
variant("conv-BREAK-groupby-drawn-kept", {DCV: _GROUPED % {**_G, "pairs": "        undrawn = ((m, o) for m, o in permutations(sorted(modules), 2))"}}, expect="C07.R1")
variant("conv-groupby-unsorted-set-of-pairs", {DCV: _GROUPED % {"pairs": "        undrawn = {(m, o) for m in modules for o in modules if m != o and o not in drawn.get(m, set())}", "grouped": "groupby(undrawn, key=itemgetter(0))"}}, expect="undecided")
variant("conv-groupby-by-target", {DCV: _GROUPED % {**_G, "grouped": "groupby(undrawn, key=itemgetter(1))"}}, expect="undecided")


def main() -> int:
    here = Path(__file__).resolve().parents[1]
    sys.path.insert(0, str(here))
    import check
    from core.loader import AnalysisError

    names = [a for a in sys.argv[1:] if a != "-v"] or list(VARIANTS)
    bad = 0
    for name in names:
        v = VARIANTS[name]
        tmp = Path(tempfile.mkdtemp(prefix="pta-c07var-"))
        try:
            shutil.copytree("/repo/src", tmp / "src")
            for f, text in v["files"].items():
                compile(text, f, "exec")
                (tmp / f).write_text(text)
            try:
                res = check.analyse("C07", tmp)
                fired = sorted({o.rule for o in res.violations})
                got = "silent" if not fired else ",".join(fired)
                lines = [f"      {o.rule} {o.construct[-120:]}\n         {o.detail[:1500]}" for o in res.violations]
            except AnalysisError as e:
                got = "undecided"
                lines = ["      " + str(e)[:600]]
            ok = got == v["expect"] or (v["expect"] != "silent" and v["expect"] in got)
            bad += 0 if ok else 1
            print(f"{'ok  ' if ok else 'FAIL'} {name}: expected {v['expect']}, got {got}")
            if not ok or "-v" in sys.argv:
                print("\n".join(lines[:6]))
        finally:
            shutil.rmtree(tmp, ignore_errors=True)
    if not [a for a in sys.argv[1:] if a != "-v"]:
        bad += replay_accepted(check, AnalysisError)
    return 1 if bad else 0


def replay_accepted(check, AnalysisError) -> int:
    """engine/mutants/c07_patches/accepted/*.diff: accepted twins kept as patches against /repo HEAD (must stay silent)."""
    import subprocess

    bad = 0
    for patch in sorted((Path(__file__).resolve().parents[1] / "mutants" / "c07_patches" / "accepted").glob("*.diff")):
        tmp = Path(tempfile.mkdtemp(prefix="pta-c07acc-"))
        try:
            shutil.copytree("/repo/src", tmp / "src")
            subprocess.run(["git", "init", "-q", "."], cwd=tmp, capture_output=True)
            r = subprocess.run(["git", "apply", "--whitespace=nowarn", str(patch)], cwd=tmp, capture_output=True, text=True)
            if r.returncode != 0:
                print(f"skip accepted:{patch.stem}: patch does not apply")
                continue
            try:
                res = check.analyse("C07", tmp)
                got = "silent" if not res.violations else ",".join(sorted({o.rule for o in res.violations}))
            except AnalysisError:
                got = "undecided"
            print(f"{'ok  ' if got == 'silent' else 'FAIL'} accepted:{patch.stem}: expected silent, got {got}")
            bad += got != "silent"
        finally:
            shutil.rmtree(tmp, ignore_errors=True)
    return bad


if __name__ == "__main__":
    sys.argv = [a for a in sys.argv if a != "-v"] + (["-v"] if "-v" in sys.argv else [])
    raise SystemExit(main())
