"""C08 - exclusions remove exactly the matching files/directories, nothing else.

  C08.R1  glob -> regex: for every glob the converter yields  ['.*' iff leading *] + re.escape(text between at most one leading and one
          trailing *) + ['.*' iff trailing * else '$']  (proved by symbolic evaluation per glob shape, rules/c08_glob.py); the raw
          pattern text reaches the result only through re.escape (tag flow)
  C08.R2  matching: excluded iff re.match (anchored at the start only) of *some* configured pattern succeeds on the path string; the
          Path overload matches str(path); every configured pattern is compiled as given (rules/c08_match.py)
  C08.R3  the exclusion test on a path's own value dominates its registration, the descent into it, reading and parsing
          (rules/c08_scan.py)
  C08.R4  option plumbing: every glob is converted, regex patterns are passed on unchanged, None never reaches the scan
          (rules/c08_plumb.py)

Anchors are roles, not private names: the scan is the class that lists directories and calls ast.parse; the predicate is the
regex-applying method the scan calls; the filter's pattern collection, the Config field and the converter are found by following
the data from the public entry point `get_evaluable_architecture(exclusions=, regex_exclusions=)`.
"""

from __future__ import annotations

import ast

from core.flow import Flow, Spec
from core.loader import AnalysisError, FuncInfo, Repo, calls_in, norm
from core.report import Result

from . import c08_glob, c08_match, c08_plumb, c08_scan
from .common import reachable_funcs, types_of, where

CONV_MOD, CONV_FN = "pytestarch.utils.partial_match_to_regex_converter", "convert_partial_match_to_regex"


def run(repo: Repo) -> Result:
    res = Result("C08")
    res.explanation = (
        "Decides the exclusion mechanism structurally: (R1) the glob-to-regex conversion is evaluated symbolically for the seven glob shapes "
        "('', '*', '**', text, *text, text*, *text* with an opaque text) and must yield ['.*'] + re.escape(text) + ['.*' | '$']; the user's text reaches "
        "the result only through re.escape; (R2) the filter's predicate is the term `exists p in <all compiled patterns>: re.match(p, str(path))`; (R3) "
        "directories are registered/descended and files registered/read/parsed only under the negated exclusion test on their own path (and the "
        "'.py' test for files), across helper calls and generators; (R4) at the scan's construction the pattern tuple is the converted `exclusions` "
        "when given, else `regex_exclusions` unchanged or (), and never None."
    )
    res.not_decided = "the relation 'filtered scan = unfiltered scan minus the matches' on all trees (relates two scans); the semantics of re.match / re.escape themselves."
    res.trusted_base = ["re.escape escapes every regex metacharacter", "re.match anchors at the start only", "engine flow analysis / symbolic string evaluator (rules/c08_streval.py)"]
    T = types_of(repo)
    # ---- anchors + R3
    anchors = c08_scan.discover(repo)
    n3 = _guarded(res, "C08.R3", lambda: c08_scan.run(repo, res, "C08.R3", anchors), 0)
    res.floor("C08.R3", 4, n3)
    # ---- R2
    info = {"config_cls": None, "field": None}
    if anchors.filter_cls is not None and (anchors.pred_methods or anchors.pred_names):
        for pred in sorted(anchors.pred_methods or anchors.pred_names):
            got = _guarded(res, "C08.R2", lambda pred=pred: c08_match.run(repo, res, "C08.R2", anchors.filter_cls, pred), {})
            if got.get("config_cls") is not None or got.get("field"):
                info = got
    else:
        res.undecide("C08.R2", f"{anchors.entry.relpath}::{anchors.entry.qualname}", "the class of the exclusion predicate could not be identified from the scan", where(anchors.entry, anchors.entry.node))
    if anchors.filter_cls is not None and info.get("config_cls") is None:
        info = {**_config_of(repo, T, anchors.filter_cls), "none_ok": info.get("none_ok")}
    # ---- R4
    converters = _guarded(res, "C08.R4", lambda: c08_plumb.run(repo, res, "C08.R4", anchors.scan_cls, anchors.filter_cls, info.get("config_cls"), info.get("field"), bool(info.get("none_ok"))), [])
    # ---- R1
    convs: list[FuncInfo] = []
    for fq in converters:
        m, _, name = fq.rpartition(".")
        f = repo.find_func(m, name)
        if f is not None and f not in convs:
            convs.append(f)
    if not convs:
        f = repo.find_func(CONV_MOD, CONV_FN)
        if f is None:
            raise AnalysisError("the glob -> regex converter was found neither through the entry point's data flow nor by its public name")
        convs.append(f)
    for conv in convs:
        _guarded(res, "C08.R1", lambda conv=conv: _r1(repo, res, T, conv), None)
    return res


def _guarded(res: Result, rule: str, fn, default):
    """A crash inside one rule is an undecided construct of that rule (exit 2 with the reason), not the end of the whole check."""
    try:
        return fn()
    except AnalysisError:
        raise
    except RecursionError:
        res.undecide(rule, f"{rule} (internal)", "the analysis of this rule ran into the recursion limit", "")
        return default
    except Exception as e:  # noqa: BLE001
        import traceback

        tb = traceback.extract_tb(e.__traceback__)[-1]
        res.undecide(rule, f"{rule} (internal)", f"the analysis of this rule failed on an unexpected code shape: {type(e).__name__}: {e} ({tb.filename.rsplit('/', 1)[-1]}:{tb.lineno})", "")
        return default


def _config_of(repo: Repo, T, filter_cls) -> dict:
    """Configuration class and field the filter's constructor reads its patterns from (by the constructor's annotation)."""
    init = repo.lookup_method(filter_cls, "__init__")
    out = {"config_cls": None, "field": None}
    if init is None or len(init.param_names) < 2:
        return out
    p = init.param_names[1]
    t = T.param_type(init, p)
    if t[0] == "cls":
        out["config_cls"] = repo.classes.get(t[1])
    reads = {n.attr for n in ast.walk(init.node) if isinstance(n, ast.Attribute) and isinstance(n.value, ast.Name) and n.value.id == p}
    if len(reads) == 1:
        out["field"] = next(iter(reads))
    return out


def _r1(repo: Repo, res: Result, T, conv: FuncInfo) -> None:
    p = conv.param_names[0] if conv.param_names else None
    base = f"{conv.relpath}::{conv.qualname}"
    if p is None:
        res.undecide("C08.R1", base, "the converter has no parameter", where(conv, conv.node))
        return
    # flow: raw text only through re.escape
    scope = set(reachable_funcs(repo, [conv], byname=False))

    def transfer(f: FuncInfo, call: ast.Call, names, args, recv, kwargs):
        if (repo.resolve_name(f.module, call.func) if isinstance(call.func, (ast.Name, ast.Attribute)) else "") == "re.escape":
            return {"ESC"}
        if isinstance(call.func, ast.Attribute) and call.func.attr in ("startswith", "endswith", "count", "find", "index", "isalnum", "isidentifier"):
            return set()
        return None

    cases = c08_glob.check_converter(repo, conv)
    proved_all = all(c.status == "proved" for c in cases)
    flow = Flow(repo, T, Spec(transfer=transfer, param_seeds={(conv.fq, p): {"RAW"}}, scope=lambda f: f in scope))
    tags = set(flow.ret_tags.get(conv.fq, ()))
    ok = "RAW" not in tags or proved_all  # the symbolic proof for every glob shape shows the text only inside re.escape(...)
    res.add("C08.R1", f"{base}::pattern text only through re.escape", ok, ("the returned regex contains the user's text only in escaped form" + ("" if "RAW" not in tags else " (by the symbolic evaluation of all glob shapes; the coarser tag flow alone could not show it)")) if ok else "the returned regex contains un-escaped pattern text: regex metacharacters in file names change what is excluded", where(conv, conv.node), kind="flow")
    # symbolic evaluation per glob shape
    proved = 0
    for c in cases:
        key = f"{base}::glob shape {c.shape}"
        w = where(conv, c.node if c.node is not None and hasattr(c.node, "lineno") else conv.node)
        if c.status == "unsupported":
            res.undecide("C08.R1", key, c.detail, w)
            continue
        if c.status == "proved":
            proved += 1
        res.add("C08.R1", key, c.status != "refuted", c.detail, w, kind="symbolic-evaluation" if c.status == "proved" else "bounded-evaluation" if c.status == "bounded" else "decision-table")
    res.extra.setdefault("c08_converter", {})[conv.fq] = {"shapes_proved_for_all_texts": proved, "shapes": len(c08_glob.SHAPES)}
