"""C08 - exclusions remove exactly the matching files/directories, nothing else.

  C08.R1  glob -> regex: the raw pattern reaches the result only through re.escape of the text between at most one leading and one
          trailing marker; '.*' is prepended iff it started with '*', appended iff it ended with '*', '$' appended iff not
  C08.R2  matching is `re.match` (anchored at the start) of every compiled pattern against the path string
  C08.R3  exclusion dominates registration, descent and parsing; the predicate sees the path itself
  C08.R4  option plumbing: every glob is converted; no None reaches a consumer that iterates the patterns
"""

from __future__ import annotations

import ast

from core.flow import Flow, Spec
from core.fold import fold
from core.guards import atom, equivalent, f_not, implies
from core.loader import AnalysisError, FuncInfo, Repo, calls_in, header, norm, own_nodes, parent
from core.report import Result

from . import scan
from .common import cfg_of, conds, dotted, guard_formula, is_attr_call, stmt_of, truth, types_of, where

CONV = "pytestarch.utils.partial_match_to_regex_converter"
FILTER = "pytestarch.eval_structure_generation.file_import.file_filter"
ENTRY = "pytestarch.pytestarch"


def run(repo: Repo) -> Result:
    res = Result("C08")
    res.explanation = (
        "Decides the exclusion mechanism structurally: (R1) in the glob-to-regex conversion the user's text reaches the result only through "
        "re.escape of the slice that strips at most one leading and one trailing '*', with '.*' / '$' placed according to the 4-row table; (R2) "
        "a path is excluded iff re.match of some compiled pattern succeeds on its string; (R3) directories are registered/descended and files "
        "registered/read/parsed only after the exclusion test on their own path; (R4) every glob is converted and the pattern tuple handed to "
        "the scan is never None."
    )
    res.not_decided = "the relation 'filtered scan = unfiltered scan minus the matches' on all trees (relates two scans)."
    res.trusted_base = ["re.escape escapes every regex metacharacter", "engine flow analysis / constant folding"]
    T = types_of(repo)
    conv = repo.func(CONV, "convert_partial_match_to_regex")
    p = conv.param_names[0]
    # ---- R1 flow
    def transfer(f: FuncInfo, call: ast.Call, names, args, recv, kwargs):
        if (repo.resolve_name(f.module, call.func) if isinstance(call.func, (ast.Name, ast.Attribute)) else "") == "re.escape":
            return {"ESC"}
        if isinstance(call.func, ast.Attribute) and call.func.attr in ("startswith", "endswith"):
            return set()
        return None

    flow = Flow(repo, T, Spec(transfer=transfer, param_seeds={(conv.fq, p): {"RAW"}}, scope=lambda f: f is conv))
    tags = set(flow.ret_tags.get(conv.fq, ()))
    ok = tags == {"ESC"}
    res.add("C08.R1", f"{conv.relpath}::{conv.qualname}::pattern text only through re.escape", ok, "the returned regex contains the user's text only in escaped form" if ok else f"the returned regex derives from {sorted(tags)}: un-escaped pattern text (regex metacharacters in file names change what is excluded)", where(conv, conv.node), kind="flow")
    esc = [c for c in calls_in(conv.node) if repo.resolve_name(conv.module, c.func) == "re.escape"]
    if len(esc) != 1:
        if tags == {"ESC"}:
            raise AnalysisError("convert_partial_match_to_regex: exactly one re.escape call expected")
        res.add("C08.R1", f"{conv.relpath}::{conv.qualname}::re.escape", False, f"{len(esc)} re.escape call(s) in the conversion: the pattern text is not escaped exactly once", where(conv, conv.node), kind="structural")
        return _rest(repo, res, T, conv)
    arg = esc[0].args[0]
    src = arg
    if isinstance(arg, ast.Name):
        a = [s for s in own_nodes(conv.node) if isinstance(s, ast.Assign) and dotted(s.targets[0]) == arg.id]
        src = a[0].value if len(a) == 1 else arg
    # flags
    flags = {}
    for s in own_nodes(conv.node):
        if isinstance(s, ast.Assign) and isinstance(s.value, ast.Call) and isinstance(s.value.func, ast.Attribute) and s.value.func.attr in ("startswith", "endswith") and dotted(s.value.func.value) == p:
            marker = fold(repo, conv.module, s.value.args[0], conv)
            flags[dotted(s.targets[0])] = (s.value.func.attr, marker)
    start_flag = next((k for k, v in flags.items() if v == ("startswith", "*")), None)
    end_flag = next((k for k, v in flags.items() if v == ("endswith", "*")), None)
    ok = False
    detail = "the text handed to re.escape is not a recognised 'strip at most one marker per side' expression"
    strip_call = [c for c in ast.walk(src) if isinstance(c, ast.Call) and isinstance(c.func, ast.Attribute) and c.func.attr in ("strip", "lstrip", "rstrip")]
    if strip_call:
        detail = f"`{norm(src, 60)}` strips *every* leading/trailing marker: a literal '*' next to the wildcard is swallowed ('**gen.py' also excludes 'codegen.py')"
    elif isinstance(src, ast.Subscript) and isinstance(src.slice, ast.Slice) and dotted(src.value) == p and start_flag and end_flag:
        lo, up = src.slice.lower, src.slice.upper

        def resolve(e):
            if isinstance(e, ast.Name):
                a = [s for s in own_nodes(conv.node) if isinstance(s, ast.Assign) and dotted(s.targets[0]) == e.id]
                return a[0].value if len(a) == 1 else e
            return e

        lo, up = resolve(lo), resolve(up)
        lo_ok = isinstance(lo, ast.IfExp) and dotted(lo.test) == start_flag and norm(lo.body) == "1" and norm(lo.orelse) == "0"
        lenv = None
        for s in own_nodes(conv.node):
            if isinstance(s, ast.Assign) and norm(s.value) == f"len({p})":
                lenv = dotted(s.targets[0])
        L = [f"len({p})"] + ([lenv] if lenv else [])
        up_ok = isinstance(up, ast.IfExp) and dotted(up.test) == end_flag and any(norm(up.body) == f"{l} - 1" for l in L) and any(norm(up.orelse) == l for l in L)
        ok = lo_ok and up_ok and src.slice.step is None
        detail = "exactly one leading and one trailing marker are stripped, everything else is escaped literally" if ok else f"the escaped slice is `{norm(src, 80)}` with bounds `{norm(lo, 40) if lo else None}` / `{norm(up, 40) if up else None}`: not 'drop one leading marker iff present, one trailing marker iff present'"
    elif isinstance(src, ast.Call) and isinstance(src.func, ast.Attribute) and src.func.attr in ("removeprefix", "removesuffix"):
        inner = src.func.value
        ok = isinstance(inner, ast.Call) and isinstance(inner.func, ast.Attribute) and {src.func.attr, inner.func.attr} == {"removeprefix", "removesuffix"} and dotted(inner.func.value) == p
        detail = "one leading and one trailing marker removed via removeprefix/removesuffix" if ok else detail
    res.add("C08.R1", repo.key(conv, stmt_of(esc[0])) + " [escaped text]", ok, detail, where(conv, esc[0]), kind="structural")
    # table: where the regex markers are placed
    resv = dotted(stmt_of(esc[0]).targets[0]) if isinstance(stmt_of(esc[0]), ast.Assign) else None
    placements = []
    for s in own_nodes(conv.node):
        if isinstance(s, ast.Assign) and dotted(s.targets[0]) == resv and isinstance(s.value, ast.JoinedStr):
            parts = s.value.values
            texts = []
            for v in parts:
                if isinstance(v, ast.Constant):
                    texts.append(("const", str(v.value)))
                elif isinstance(v, ast.FormattedValue):
                    if dotted(v.value) == resv:
                        texts.append(("self", ""))
                    else:
                        texts.append(("const", fold(repo, conv.module, v.value, conv) or "?"))
            if [k for k, _ in texts].count("self") != 1:
                raise AnalysisError(f"convert_partial_match_to_regex: `{header(s)}` not recognised")
            i = [k for k, _ in texts].index("self")
            pre = "".join(t for k, t in texts[:i])
            post = "".join(t for k, t in texts[i + 1 :])
            placements.append((s, pre, post))
    if not start_flag or not end_flag:
        raise AnalysisError("convert_partial_match_to_regex: startswith/endswith marker tests not found")
    want = {("prefix", ".*"): truth(conv, start_flag), ("suffix", ".*"): truth(conv, end_flag), ("suffix", "$"): f_not(truth(conv, end_flag))}
    seen = set()
    for s, pre, post in placements:
        for side, text in (("prefix", pre), ("suffix", post)):
            if not text:
                continue
            key = (side, text)
            seen.add(key)
            g = guard_formula(conv, s)
            ok = key in want and equivalent(g, want[key])
            res.add("C08.R1", repo.key(conv, s) + f" [{side} {text!r}]", ok, f"{text!r} is {'prepended' if side == 'prefix' else 'appended'} exactly when required" if ok else f"{text!r} is {'prepended' if side == 'prefix' else 'appended'} under `{' and '.join(('' if pol else 'not ') + norm(e) for e, pol in conds(conv, s)) or 'no condition'}`: not the documented glob meaning", where(conv, s), kind="decision-table")
    for key in want:
        if key not in seen:
            res.add("C08.R1", f"{conv.relpath}::{conv.qualname}::{key[0]} {key[1]!r}", False, f"{key[1]!r} is never {'prepended' if key[0] == 'prefix' else 'appended'}: " + ("a pattern without trailing * also matches longer paths" if key[1] == "$" else "the * wildcard is not translated"), where(conv, conv.node), kind="decision-table")
    rets = [s for s in own_nodes(conv.node) if isinstance(s, ast.Return)]
    ok = len(rets) == 1 and dotted(rets[0].value) == resv
    res.add("C08.R1", f"{conv.relpath}::{conv.qualname}::returns the assembled regex", ok, "the assembled regex is returned" if ok else "the function does not return the assembled regex", where(conv, conv.node), nontrivial=False)
    return _rest(repo, res, T, conv)


def _rest(repo: Repo, res: Result, T, conv: FuncInfo) -> Result:
    # ---- R2
    ff = repo.cls(FILTER, "FileFilter")
    impls = [m for m in [*ff.methods.values(), *ff.extra_methods] if m.name in ("_", "is_excluded")]
    str_impl = None
    path_impl = None
    for m in impls:
        ann = norm(m.params[1].annotation) if len(m.params) > 1 and m.params[1].annotation is not None else ""
        regs = [d for d in m.decorators if d.endswith(".register")]
        if not regs:
            continue
        if ann == "str":
            str_impl = m
        elif "Path" in ann:
            path_impl = m
    if str_impl is None or path_impl is None:
        raise AnalysisError("FileFilter.is_excluded: str / Path overloads not found")
    rets = [s for s in own_nodes(str_impl.node) if isinstance(s, ast.Return)]
    v = rets[0].value if len(rets) == 1 else None
    ok = False
    detail = "is_excluded(str) is not `any(re.match(pattern, s) is not None for pattern in <all patterns>)`"
    if isinstance(v, ast.Call) and dotted(v.func) == "any" and v.args and isinstance(v.args[0], (ast.GeneratorExp, ast.ListComp)):
        gen = v.args[0]
        mcalls = [c for c in ast.walk(gen.elt) if isinstance(c, ast.Call) and (repo.resolve_name(str_impl.module, c.func) or "").startswith("re.") or (isinstance(c, ast.Call) and isinstance(c.func, ast.Attribute) and c.func.attr in ("match", "search", "fullmatch"))]
        if len(mcalls) == 1:
            mc = mcalls[0]
            name = repo.resolve_name(str_impl.module, mc.func) or (mc.func.attr if isinstance(mc.func, ast.Attribute) else "")
            is_match = name in ("re.match",) or (isinstance(mc.func, ast.Attribute) and mc.func.attr == "match" and dotted(mc.func.value) == dotted(gen.generators[0].target))
            subj = mc.args[-1] if mc.args else None
            ok = is_match and len(gen.generators) == 1 and not gen.generators[0].ifs and dotted(gen.generators[0].iter) == "self._excluded_directories" and subj is not None and dotted(subj) == str_impl.param_names[1]
            test_ok = isinstance(gen.elt, ast.Compare) and isinstance(gen.elt.ops[0], ast.IsNot) or gen.elt is mc
            ok = ok and test_ok
            if ok:
                detail = "excluded iff re.match (start-anchored) of any compiled pattern succeeds on the string"
            elif not is_match:
                detail = f"patterns are applied with {name} instead of re.match: regex exclusions are no longer anchored at the start of the path"
    res.add("C08.R2", f"{str_impl.relpath}::FileFilter.is_excluded(str)::re.match of every pattern", ok, detail, where(str_impl, str_impl.node), kind="structural")
    rets = [s for s in own_nodes(path_impl.node) if isinstance(s, ast.Return)]
    ok = len(rets) == 1 and isinstance(rets[0].value, ast.Call) and is_attr_call(rets[0].value, "is_excluded")
    if ok:
        a = rets[0].value.args[0]
        srcs = [a]
        if isinstance(a, ast.Name):
            srcs = [s.value for s in own_nodes(path_impl.node) if isinstance(s, ast.Assign) and dotted(s.targets[0]) == a.id]
        ok = len(srcs) == 1 and isinstance(srcs[0], ast.Call) and dotted(srcs[0].func) == "str" and dotted(srcs[0].args[0]) == path_impl.param_names[1]
    res.add("C08.R2", f"{path_impl.relpath}::FileFilter.is_excluded(Path)::delegates with str(path)", ok, "a Path is matched through its full string" if ok else "the Path overload does not delegate with str(path) (e.g. only a component of the path is matched)", where(path_impl, path_impl.node), kind="flow")
    init = ff.methods.get("__init__")
    comp = [n_ for n_ in own_nodes(init.node) if isinstance(n_, ast.ListComp)]
    ok = len(comp) == 1 and not comp[0].generators[0].ifs and norm(comp[0].generators[0].iter).endswith("excluded_directories") and isinstance(comp[0].elt, ast.Call) and repo.resolve_name(init.module, comp[0].elt.func) == "re.compile" and len(comp[0].elt.args) == 1 and not comp[0].elt.keywords
    res.add("C08.R2", f"{init.relpath}::{init.qualname}::all patterns compiled, no flags", ok, "every configured pattern is compiled as given" if ok else "not every configured pattern is compiled as given (filtered, or compiled with flags)", where(init, init.node), kind="structural")
    # ---- R3
    n = scan.run_registration(repo, res, "C08.R3")
    res.floor("C08.R3", 7, n)
    # ---- R4
    ge = repo.func(ENTRY, "get_evaluable_architecture")
    for glob_p, regex_p in (("exclusions", "regex_exclusions"), ("external_exclusions", "regex_external_exclusions")):
        asg = [s for s in own_nodes(ge.node) if isinstance(s, ast.Assign) and dotted(s.targets[0]) == regex_p and any(isinstance(c, ast.Call) and dotted(c.func) == conv.name for c in ast.walk(s.value))]
        ok = False
        if len(asg) == 1:
            v = asg[0].value
            gen = v.args[0] if isinstance(v, ast.Call) and dotted(v.func) in ("tuple", "list") and v.args else v
            ok = isinstance(gen, (ast.GeneratorExp, ast.ListComp)) and len(gen.generators) == 1 and not gen.generators[0].ifs and dotted(gen.generators[0].iter) == glob_p and isinstance(gen.elt, ast.Call) and dotted(gen.elt.func) == conv.name and dotted(gen.elt.args[0]) == dotted(gen.generators[0].target)
            ok = ok and implies(guard_formula(ge, asg[0]), atom(f"bool({glob_p})"))
        res.add("C08.R4", f"{ge.relpath}::{ge.qualname}::{glob_p} all converted", ok, f"every element of `{glob_p}` is converted" if ok else f"not every element of `{glob_p}` is converted into a regex pattern", where(ge, ge.node), kind="structural")
    gen_call = [c for c in calls_in(ge.node) if dotted(c.func) == "generate_graph"]
    if len(gen_call) != 1:
        raise AnalysisError("get_evaluable_architecture: generate_graph call not found")
    callee = repo.func("pytestarch.eval_structure_generation.graph_generation.graph_generator", "generate_graph")
    for i, a in enumerate(gen_call[0].args):
        if not isinstance(a, ast.Name) or a.id not in ge.param_names:
            continue
        par = next(x for x in ge.params if x.arg == a.id)
        optional = par.annotation is not None and "None" in norm(par.annotation)
        if not optional:
            continue
        cp = callee.params[i] if i < len(callee.params) else None
        callee_optional = cp is not None and cp.annotation is not None and "None" in norm(cp.annotation)
        if callee_optional:
            res.add("C08.R4", f"{ge.relpath}::{ge.qualname}::{a.id} may be None (callee accepts None)", True, f"`{cp.arg}` of generate_graph is Optional and normalised there", where(ge, gen_call[0]), nontrivial=False)
            continue
        # must be normalised on every path before the call
        norm_stmts = []
        for s in ge.body:
            if isinstance(s, ast.If) and norm(s.test) == f"{a.id} is None" and any(isinstance(x, ast.Assign) and dotted(x.targets[0]) == a.id and not (isinstance(x.value, ast.Constant) and x.value.value is None) for x in s.body):
                norm_stmts.append(s)
            if isinstance(s, ast.Assign) and dotted(s.targets[0]) == a.id and isinstance(s.value, ast.BoolOp) and isinstance(s.value.op, ast.Or):
                norm_stmts.append(s)
        ok = any(cfg_of(ge).dominates(s, stmt_of(gen_call[0])) for s in norm_stmts)
        res.add(
            "C08.R4",
            f"{ge.relpath}::{ge.qualname}::{a.id} never None at the scan",
            ok,
            f"`{a.id}` is replaced by an empty tuple when nothing was configured" if ok else f"`{a.id}` (Optional, default None) reaches `{cp.arg if cp else '?'}: {norm(cp.annotation) if cp is not None and cp.annotation is not None else '?'}` of generate_graph un-normalised: with an empty `exclusions` tuple the scan iterates None",
            where(ge, gen_call[0]),
            kind="flow",
        )
    return res
