"""C08.R1 - the glob -> regex conversion means what the property says, decided by abstract interpretation (c08_streval).

The property: "literal text matched in full, with a leading * allowing any prefix and a trailing * allowing any suffix, all other
characters (including regex metacharacters) taken literally".  As a function on strings:

    spec(m) = (".*" if m starts with "*") + re.escape(m without that one leading / one trailing "*") + (".*" if m ends with "*" else "$")

The input space is split into seven classes that together cover *every* string:

    ""   "*"   "**"                                     (three single strings, evaluated concretely)
    text      = X        X[0] != "*", X[-1] != "*"      }
    *text     = "*"+X    X[-1] != "*"                   }  X opaque, len(X) >= 1: evaluated symbolically, so a discharged
    text*     = X+"*"    X[0] != "*"                    }  class is a proof for all texts of that shape
    *text*    = "*"+X+"*"                               }

For each class the converter is evaluated by the checker's own evaluator; the result must be the spec term.  When the symbolic
evaluation cannot decide (an operation the domain cannot express, e.g. `strip`), the class is instantiated with concrete texts:
a text on which the converter's regex differs from the spec (as a string *and* as a language on probe subjects) is a counterexample
(VIOLATION naming the glob, both regexes and the operation that lost precision); no counterexample -> the class counts as verified on
the bounded set only (said so in the evidence).
"""

from __future__ import annotations

import ast
import itertools
import re
from dataclasses import dataclass

from core.loader import FuncInfo, Repo, norm

from .c08_streval import Evaluator, Raised, SymStr, Unknown, Unsupported, XInfo, mk, show

SHAPES = [
    # name, P, S, XInfo or None (None = the single concrete string P+S... given in `text`)
    ("the empty glob ''", "", "", None, ""),
    ("the glob '*'", "", "", None, "*"),
    ("the glob '**'", "", "", None, "**"),
    ("text", "", "", XInfo(True, True), None),
    ("*text", "*", "", XInfo(False, True), None),
    ("text*", "", "*", XInfo(True, False), None),
    ("*text*", "*", "*", XInfo(False, False), None),
]

_ALPHA = ["*", "a", "."]
WITNESS_TEXTS = ["".join(t) for n in (1, 2, 3) for t in itertools.product(_ALPHA, repeat=n)] + [
    "[", "\\", "$", "^a", "a+", "(a|b)", " a ", "a b", "a\\b", "x*y*z", "**a**", "a**", "**a", "{1}", "a?", "a/b.py", "*/", "/*",
]


def spec_concrete(m: str) -> str:
    a, b = m.startswith("*"), m.endswith("*")
    body = m[(1 if a else 0) : (len(m) - 1 if b else len(m))]
    return (".*" if a else "") + re.escape(body) + (".*" if b else "$")


def spec_symbolic(P: str, S: str):
    return mk([("lit", ".*" if P else ""), ("esc", 0, 0), ("lit", ".*" if S else "$")])


def _probes(m: str) -> list[str]:
    body = m[(1 if m.startswith("*") else 0) : (len(m) - 1 if m.endswith("*") and len(m) > 0 else len(m))]
    out = {m, body, "q" + body, body + "q", "q" + body + "q", "", body[:-1], body[1:], "*" + body, body + "*", body + "\n", "\n" + body, body + body}
    return sorted(out)


def same_language(r: str, s: str, m: str) -> bool:
    """Do two regexes accept the same probe subjects under re.match?  (Tolerates harmlessly different spellings such as `.*` for `.*.*`.)"""
    try:
        cr, cs = re.compile(r), re.compile(s)
    except (re.error, TypeError):
        return False
    return all(bool(cr.match(t)) == bool(cs.match(t)) for t in _probes(m))


@dataclass
class Case:
    shape: str
    status: str  # proved | bounded | refuted | unsupported
    detail: str
    node: ast.AST | None = None
    tried: int = 0


def _concrete(repo: Repo, conv: FuncInfo, m: str):
    """(kind, value, node): kind in ok | raised | unsupported."""
    try:
        return "ok", Evaluator(repo).call(conv, [m]), None
    except Raised as e:
        return "raised", e.kind, e.node
    except Unsupported as e:
        return "unsupported", e.why, e.node
    except Unknown as e:  # cannot happen on concrete input unless a helper manufactures symbols
        return "unsupported", e.why, e.node
    except RecursionError:
        return "unsupported", "recursion", None


def _mismatch(repo: Repo, conv: FuncInfo, m: str):
    """None if the converter agrees with the spec on glob `m`, else (message, node); ("unsupported", why, node) is passed through."""
    kind, val, node = _concrete(repo, conv, m)
    want = spec_concrete(m)
    if kind == "unsupported":
        return ("unsupported", val, node)
    if kind == "raised":
        return (f"the glob {m!r} makes the conversion raise {val} (it must yield {want!r})", node)
    if not isinstance(val, str):
        return (f"the glob {m!r} is converted to {val!r}, not to a regex string (it must yield {want!r})", node)
    if val == want or same_language(val, want, m):
        return None
    why = ""
    try:
        cv = re.compile(val)
        for t in _probes(m):
            if bool(cv.match(t)) != bool(re.match(want, t)):
                why = f"; e.g. the path {t!r} is {'excluded' if cv.match(t) else 'kept'} although the glob {'does not match' if cv.match(t) else 'matches'} it"
                break
    except re.error as ex:
        why = f"; the result is not even a valid regex ({ex})"
    return (f"the glob {m!r} is converted to {val!r} but means {want!r}{why}", node)


def check_converter(repo: Repo, conv: FuncInfo) -> list[Case]:
    out: list[Case] = []
    n_params = len([p for p in conv.params])
    if n_params < 1:
        return [Case("signature", "unsupported", "the converter takes no parameter")]
    for shape, P, S, xinfo, text in SHAPES:
        if xinfo is None:
            bad = _mismatch(repo, conv, text)
            if bad is None:
                out.append(Case(shape, "proved", f"converted to {spec_concrete(text)!r} (or an equivalent regex)", tried=1))
            elif bad[0] == "unsupported":
                out.append(Case(shape, "unsupported", f"the evaluator does not interpret `{norm(bad[2], 60) if bad[2] is not None else '?'}` ({bad[1]})", bad[2]))
            else:
                out.append(Case(shape, "refuted", bad[0], bad[1], 1))
            continue
        want = spec_symbolic(P, S)
        m = mk([("lit", P), ("raw", 0, 0), ("lit", S)])
        note, culprit = "", None
        try:
            got = Evaluator(repo, xinfo).call(conv, [m])
            if got == want:
                out.append(Case(shape, "proved", f"for every text the result is {show(want)}", tried=0))
                continue
            note = f"symbolic result {show(got) if isinstance(got, (str, SymStr)) else repr(got)} instead of {show(want)}"
        except Unknown as e:
            culprit = e.node
            note = f"`{norm(e.node, 70) if e.node is not None else '?'}`: {e.why}"
        except Raised as e:
            culprit = e.node
            note = f"raises {e.kind} at `{norm(e.node, 70) if e.node is not None else '?'}`"
        except Unsupported as e:
            out.append(Case(shape, "unsupported", f"the evaluator does not interpret `{norm(e.node, 60) if e.node is not None else '?'}` ({e.why})", e.node))
            continue
        except RecursionError:
            out.append(Case(shape, "unsupported", "recursion"))
            continue
        # no proof: look for a counterexample among concrete texts of this shape
        tried = 0
        verdict = None
        for x in WITNESS_TEXTS:
            if (xinfo.first_not_star and x.startswith("*")) or (xinfo.last_not_star and x.endswith("*")):
                continue
            tried += 1
            bad = _mismatch(repo, conv, P + x + S)
            if bad is None:
                continue
            if bad[0] == "unsupported":
                verdict = Case(shape, "unsupported", f"the evaluator does not interpret `{norm(bad[2], 60) if bad[2] is not None else '?'}` ({bad[1]})", bad[2])
            else:
                verdict = Case(shape, "refuted", bad[0] + (f" [{note}]" if note else ""), culprit or bad[1], tried)
            break
        if verdict is None:
            verdict = Case(shape, "bounded", f"no general proof ({note}); agrees with the spec on {tried} concrete texts of this shape over the alphabet * a . and regex metacharacters", culprit, tried)
        out.append(verdict)
    return out
