"""C08.R2 - "a path is excluded iff re.match of some configured pattern succeeds on its string", recognised as a *logical term*.

The truth condition of the predicate's result is computed from the code as a term over

    exists v in <iterable>: body      any(gen) / for-loop with early return / first-match helper + `is not None` / next(gen, None) /
                                      truthiness of a list comprehension / flag loop / for-else
    match(kind, pattern, subject)     re.match / re.search / re.fullmatch / <pattern>.match / .search / .fullmatch; kind "apply" = an element
                                      of the collection called as a function (`m(s)`): the collection must then hold the bound methods
                                      `re.compile(x).match` (re.match(compiled, s) == compiled.match(s)); `.search` / `.fullmatch`
                                      kept there are VIOLATIONs
    and / or / not / const / atom(text)

where pattern and subject are *origins*: the predicate's parameter, str(parameter), a quantified variable, an attribute of self, or
"other".  Repo helpers are followed (their parameters are bound to the origins of the arguments), the singledispatch `register`
overloads are selected by the argument's type.  Required shape:

    str overload     exists p in self.<A>: match("match", p, <the parameter>)
    Path overload    the same with subject str(<the parameter>)
    self.<A>         built in __init__ as  re.compile(x)  [or re.compile(x).match, see "apply"]  for *every* x of the configured patterns
                     (comprehension / tuple(map(...)) / append loop), no flags, no filter

One regular expression compiled from `"|".join(<configured patterns>)` (with or without wrapping of the alternatives) is a VIOLATION: inside
one alternation the patterns share group numbers, group names and inline flags (patterns ('(a)b', r'(x)\1'), path 'xx').
Anything else is reported: a different match kind (not start-anchored / full match), another subject (`obj.name`, derived strings),
skipped patterns, flags -> VIOLATION naming the construct; a shape the term language cannot express -> undecided.
"""

from __future__ import annotations

import ast
import itertools
from dataclasses import dataclass

from core.loader import ClassInfo, FuncInfo, Repo, calls_in, norm, own_nodes, parent
from core.report import Result

from .c08_scan import REGEX_FUNCS, REGEX_METHODS, lib_name
from .common import conds, types_of, where

_ids = itertools.count(1)


@dataclass
class Ctx:
    fi: FuncInfo
    env: dict  # name -> ("origin", o) | ("expr", ast, Ctx) | ("term", t)


LOSSY_ATTRS = {"name", "stem", "suffix", "parent", "parts", "parents", "anchor", "root", "drive"}
LOSSY_METHODS = {"lower", "upper", "casefold", "strip", "lstrip", "rstrip", "as_posix", "resolve", "absolute", "relative_to", "with_suffix", "with_name", "replace", "split", "rsplit", "partition", "rpartition", "title", "expanduser", "removeprefix", "removesuffix", "encode", "basename", "dirname", "normpath", "normcase", "realpath", "abspath"}


def _lossy(e: ast.expr) -> bool:
    """Is this expression a recognisably *different* string than the path itself (a component, a case-folded / re-rooted form)?"""
    for n in ast.walk(e):
        if isinstance(n, ast.Attribute) and isinstance(n.ctx, ast.Load) and (n.attr in LOSSY_ATTRS or n.attr in LOSSY_METHODS):
            return True
        if isinstance(n, ast.Subscript):
            return True
    return False


def simp(t):
    k = t[0]
    if k == "not":
        x = simp(t[1])
        if x[0] == "const":
            return ("const", not x[1])
        if x[0] == "not":
            return x[1]
        return ("not", x)
    if k in ("and", "or"):
        parts = []
        for x in t[1]:
            x = simp(x)
            if x[0] == k:
                parts += x[1]
            else:
                parts.append(x)
        unit = k == "and"
        if any(p == ("const", not unit) for p in parts):
            return ("const", not unit)
        parts = [p for p in parts if p != ("const", unit)]
        if not parts:
            return ("const", unit)
        return parts[0] if len(parts) == 1 else (k, parts)
    if k == "exists":
        body = simp(t[3])
        if body == ("const", False):
            return ("const", False)
        return ("exists", t[1], t[2], body, *t[4:])
    return t


def assign(t, env: dict):
    """Replace the atoms named in env by constants."""
    k = t[0]
    if k == "atom":
        return ("const", env[t[1]]) if t[1] in env else t
    if k == "not":
        return ("not", assign(t[1], env))
    if k in ("and", "or"):
        return (k, [assign(x, env) for x in t[1]])
    if k == "exists":
        return ("exists", t[1], t[2], assign(t[3], env), *t[4:])
    return t


def type_cases(t) -> list:
    """The term under every outcome of its isinstance tests (dispatch written by hand); paths that yield False (raise) are dropped."""
    names = sorted({a[1] for a in atoms_in(t) if a[1].startswith("isinstance(")})
    if not names or len(names) > 4:
        return [t]
    out = []
    for vals in itertools.product([False, True], repeat=len(names)):
        v = simp(assign(t, dict(zip(names, vals))))
        if v != ("const", False) and v not in out:
            out.append(v)
    return out or [t]


def atoms_in(t) -> list:
    if t[0] == "atom":
        return [t]
    if t[0] == "not":
        return atoms_in(t[1])
    if t[0] in ("and", "or"):
        return [a for x in t[1] for a in atoms_in(x)]
    if t[0] == "exists":
        return atoms_in(t[3])
    return []


def matches_in(t) -> list:
    if t[0] == "match":
        return [t]
    if t[0] == "not":
        return matches_in(t[1])
    if t[0] in ("and", "or"):
        return [a for x in t[1] for a in matches_in(x)]
    if t[0] == "exists":
        return matches_in(t[3])
    return []


def show_origin(o) -> str:
    if o[0] == "param":
        return f"the parameter {o[1]}"
    if o[0] == "str":
        return f"str({show_origin(o[1])})"
    if o[0] == "strish":
        return f"{show_origin(o[1])} as a string"
    if o[0] == "var":
        return f"the loop variable {o[2] if len(o) > 2 else '?'}"
    return str(o[1])


def show_term(t) -> str:
    k = t[0]
    if k == "const":
        return str(t[1])
    if k == "atom":
        return t[1]
    if k == "not":
        return f"not ({show_term(t[1])})"
    if k in ("and", "or"):
        return "(" + f" {k} ".join(show_term(x) for x in t[1]) + ")"
    if k == "exists":
        return f"exists {t[4] if len(t) > 4 else 'x'} in {show_origin(t[2])}: {show_term(t[3])}"
    if k == "match":
        return f"{t[1]}({show_origin(t[2])}, {show_origin(t[3])})"
    return str(t)


class Terms:
    def __init__(self, repo: Repo, filter_cls: ClassInfo, pred: str) -> None:
        self.repo = repo
        self.T = types_of(repo)
        self.cls = filter_cls
        self.pred = pred
        self.overloads = self._overloads()

    # ------------------------------------------------------------------ dispatch
    def _overloads(self) -> dict[str, FuncInfo]:
        base = self.cls.methods.get(self.pred)
        out: dict[str, FuncInfo] = {}
        if base is None:
            return out
        allm = [*self.cls.methods.values(), *self.cls.extra_methods]
        regs = [m for m in allm if f"{self.pred}.register" in m.decorators]
        if "singledispatchmethod" not in base.decorators and "singledispatch" not in base.decorators or not regs:
            out["any"] = base
            return out
        for m in regs:
            tname = ""
            for d in m.node.decorator_list:
                if isinstance(d, ast.Call) and isinstance(d.func, ast.Attribute) and d.func.attr == "register" and d.args:
                    tname = norm(d.args[0])
            if not tname and len(m.params) > 1 and m.params[1].annotation is not None:
                tname = norm(m.params[1].annotation)
            key = "str" if tname in ("str", "'str'") else "path" if "Path" in tname else tname
            out[key] = m
        out["base"] = base
        return out

    # ------------------------------------------------------------------ origins
    def origin(self, e: ast.expr, ctx: Ctx, depth: int = 0):
        if depth > 10:
            return ("other", norm(e, 60))
        if isinstance(e, ast.Name):
            b = ctx.env.get(e.id)
            if b is not None:
                if b[0] == "origin":
                    return b[1]
                if b[0] == "expr":
                    return self.origin(b[1], b[2], depth + 1)
            return ("other", e.id)
        if isinstance(e, ast.Attribute) and isinstance(e.value, ast.Name) and e.value.id == "self":
            return ("attr", norm(e))
        if isinstance(e, ast.Call) and len(e.args) == 1 and not e.keywords:
            if (isinstance(e.func, ast.Name) and e.func.id == "str") or lib_name(self.repo, ctx.fi, e) == "os.fspath":
                return ("str", self.origin(e.args[0], ctx, depth + 1))
        if isinstance(e, ast.Call) and not e.args and isinstance(e.func, ast.Attribute) and e.func.attr in ("__str__", "__fspath__"):
            return ("str", self.origin(e.func.value, ctx, depth + 1))
        if isinstance(e, ast.JoinedStr) and len(e.values) == 1 and isinstance(e.values[0], ast.FormattedValue) and e.values[0].format_spec is None and e.values[0].conversion in (-1, 115):
            return ("str", self.origin(e.values[0].value, ctx, depth + 1))
        if isinstance(e, ast.IfExp):
            a, b = self.origin(e.body, ctx, depth + 1), self.origin(e.orelse, ctx, depth + 1)
            base = {o[1] if o[0] in ("str", "strish") else o for o in (a, b)}
            if len(base) == 1 and next(iter(base))[0] == "param" and "isinstance" in norm(e.test):
                return ("strish", next(iter(base)))
        if isinstance(e, ast.NamedExpr):
            return self.origin(e.value, ctx, depth + 1)
        return ("other", norm(e, 60), _lossy(e))

    # ------------------------------------------------------------------ expressions
    def truth(self, e: ast.expr, ctx: Ctx, depth: int = 0):
        if depth > 14:
            return ("atom", norm(e, 60))
        if isinstance(e, ast.Constant):
            return ("const", bool(e.value))
        if isinstance(e, ast.UnaryOp) and isinstance(e.op, ast.Not):
            return ("not", self.truth(e.operand, ctx, depth + 1))
        if isinstance(e, ast.BoolOp):
            return ("and" if isinstance(e.op, ast.And) else "or", [self.truth(v, ctx, depth + 1) for v in e.values])
        if isinstance(e, ast.IfExp):
            c = self.truth(e.test, ctx, depth + 1)
            return ("or", [("and", [c, self.truth(e.body, ctx, depth + 1)]), ("and", [("not", c), self.truth(e.orelse, ctx, depth + 1)])])
        if isinstance(e, ast.NamedExpr):
            return self.truth(e.value, ctx, depth + 1)
        if isinstance(e, ast.Name):
            b = ctx.env.get(e.id)
            if b is not None:
                if b[0] == "term":
                    return b[1]
                if b[0] == "expr":
                    return self.truth(b[1], b[2], depth + 1)
                if b[0] == "origin" and b[1][0] == "var":
                    return ("const", True)  # an element of the pattern collection (a compiled pattern) is truthy
            return ("atom", f"bool({e.id})")
        if isinstance(e, ast.Compare) and len(e.ops) == 1:
            left, op, right = e.left, e.ops[0], e.comparators[0]
            if isinstance(op, (ast.Is, ast.IsNot)) and isinstance(right, ast.Constant) and right.value is None:
                t = simp(self.truth(left, ctx, depth + 1))
                if not atoms_in(t) or matches_in(t):
                    # the values in question (match objects, compiled patterns, None) are truthy exactly when they are not None
                    return t if isinstance(op, ast.IsNot) else ("not", t)
                return ("atom", norm(e, 60))
            if isinstance(left, ast.Call) and isinstance(left.func, ast.Name) and left.func.id == "len" and len(left.args) == 1 and isinstance(right, ast.Constant) and isinstance(right.value, int):
                inner = self.truth(left.args[0], ctx, depth + 1)
                c = right.value
                if (isinstance(op, ast.Gt) and c == 0) or (isinstance(op, ast.GtE) and c == 1) or (isinstance(op, ast.NotEq) and c == 0):
                    return inner
                if (isinstance(op, ast.Eq) and c == 0) or (isinstance(op, ast.Lt) and c == 1):
                    return ("not", inner)
            if isinstance(op, (ast.Eq, ast.NotEq)) and isinstance(right, ast.Constant) and isinstance(right.value, bool):
                t = self.truth(left, ctx, depth + 1)
                return t if isinstance(op, ast.Eq) == right.value else ("not", t)
            return ("atom", norm(e, 60))
        if isinstance(e, (ast.ListComp, ast.SetComp)):
            return self.exists(e.generators, None, ctx, depth)
        if isinstance(e, ast.Call):
            return self.call_truth(e, ctx, depth)
        return ("atom", norm(e, 60))

    def exists(self, gens: list, elt: ast.expr | None, ctx: Ctx, depth: int):
        """Nested existential over comprehension generators; the body is the truthiness of `elt` (None: the element's mere existence)."""
        env = dict(ctx.env)
        inner = Ctx(ctx.fi, env)
        layers = []
        for g in gens:
            vid = next(_ids)
            it = self.origin(g.iter, inner)
            name = norm(g.target, 30)
            if isinstance(g.target, ast.Name):
                env[g.target.id] = ("origin", ("var", vid, g.target.id))
            else:
                for n in ast.walk(g.target):
                    if isinstance(n, ast.Name):
                        env[n.id] = ("origin", ("other", n.id))
            ifs = [self.truth(c, inner, depth + 1) for c in g.ifs]
            layers.append((vid, it, ifs, name))
        body = self.truth(elt, inner, depth + 1) if elt is not None else ("const", True)
        for vid, it, ifs, name in reversed(layers):
            body = ("exists", vid, it, ("and", [*ifs, body]), name)
        return body

    def call_truth(self, e: ast.Call, ctx: Ctx, depth: int):
        f = e.func
        fname = f.id if isinstance(f, ast.Name) else ""
        ln = lib_name(self.repo, ctx.fi, e)
        if fname == "bool" and len(e.args) == 1:
            return self.truth(e.args[0], ctx, depth + 1)
        if fname in ("list", "tuple", "set", "frozenset", "sorted") and len(e.args) == 1:
            a, actx = self._comprehension(e.args[0], ctx)
            if isinstance(a, (ast.GeneratorExp, ast.ListComp, ast.SetComp)):
                return self.exists(a.generators, None, actx, depth)
            return self.truth(a, actx, depth + 1)
        if fname == "any" and len(e.args) == 1:
            a, ctx = self._comprehension(e.args[0], ctx)
            if isinstance(a, (ast.GeneratorExp, ast.ListComp, ast.SetComp)):
                return self.exists(a.generators, a.elt, ctx, depth)
            if isinstance(a, ast.Call) and isinstance(a.func, ast.Name) and a.func.id == "map" and len(a.args) == 2:
                vid = next(_ids)
                it = self.origin(a.args[1], ctx)
                body = self.apply(a.args[0], [("var", vid, "x")], ctx, depth, e)
                return ("exists", vid, it, body, "x")
            return ("atom", norm(e, 60))
        if fname == "next" and e.args:
            g, gctx = self._comprehension(e.args[0], ctx)
            if isinstance(g, (ast.GeneratorExp, ast.ListComp)):
                found = self.exists(g.generators, g.elt, gctx, depth)
                if len(e.args) == 2:
                    dflt = self.truth(e.args[1], ctx, depth + 1)
                    return ("or", [found, ("and", [("not", self.exists(g.generators, None, gctx, depth)), dflt])])
            return ("atom", norm(e, 60))
        if ln in REGEX_FUNCS and len(e.args) >= 2:
            return ("match", ln[3:], self.origin(e.args[0], ctx), self.origin(e.args[1], ctx), e, ctx.fi, len(e.args) > 2 or bool(e.keywords))
        if isinstance(f, ast.Attribute) and f.attr in REGEX_METHODS and e.args:
            po = self.origin(f.value, ctx)
            if po[0] in ("var", "attr") or (po[0] == "other" and not self._repo_callees(e, ctx)):
                return ("match", f.attr, po, self.origin(e.args[0], ctx), e, ctx.fi, len(e.args) > 1 or bool(e.keywords))
        if isinstance(f, ast.Name) and e.args:
            # an element of the collection applied as a function: a stored bound method `re.compile(p).match` (its kind is read off
            # the collection's build, see run())
            po = self.origin(f, ctx)
            if po[0] == "var":
                return ("match", "apply", po, self.origin(e.args[0], ctx), e, ctx.fi, len(e.args) > 1 or bool(e.keywords))
        # the predicate itself (dispatch on the argument)
        if isinstance(f, ast.Attribute) and isinstance(f.value, ast.Name) and f.value.id == "self" and f.attr == self.pred and len(e.args) == 1:
            o = self.origin(e.args[0], ctx)
            target = None
            if "any" in self.overloads:
                target = self.overloads["any"]
            elif o[0] == "str" or self._is_str(e.args[0], ctx) or not self._is_path(e.args[0], ctx, o):
                # anything that is not known to be a Path is taken to the str overload (what the dispatch does for a str value)
                target = self.overloads.get("str")
            if target is not None and depth < 10:
                return self.returns_truth(target, [o], depth + 1)
            return ("atom", norm(e, 60))
        cs = self._repo_callees(e, ctx)
        if len(cs) == 1 and depth < 10:
            h = cs[0]
            args = [self.origin(a, ctx) for a in e.args if not isinstance(a, ast.Starred)]
            if len(args) == len(e.args) and not e.keywords:
                return self.returns_truth(h, args, depth + 1, argexprs=[(a, ctx) for a in e.args])
        return ("atom", norm(e, 60))

    def _comprehension(self, a: ast.expr, ctx: Ctx, depth: int = 0):
        """The comprehension an argument denotes: written in place, held by a local (`matching = (p for p in ... if ...)`), or wrapped
        in iter() / list() / tuple()."""
        if depth > 6:
            return a, ctx
        if isinstance(a, ast.Name):
            b = ctx.env.get(a.id)
            if b is not None and b[0] == "expr":
                return self._comprehension(b[1], b[2], depth + 1)
            return a, ctx
        if isinstance(a, ast.Call) and isinstance(a.func, ast.Name) and a.func.id in ("iter", "list", "tuple") and len(a.args) == 1 and not a.keywords:
            return self._comprehension(a.args[0], ctx, depth + 1)
        return a, ctx

    def apply(self, fexpr: ast.expr, origins: list, ctx: Ctx, depth: int, node):
        if isinstance(fexpr, ast.Lambda) and len(fexpr.args.args) == len(origins):
            env = dict(ctx.env)
            for a, o in zip(fexpr.args.args, origins):
                env[a.arg] = ("origin", o)
            return self.truth(fexpr.body, Ctx(ctx.fi, env), depth + 1)
        if isinstance(fexpr, ast.Attribute) and fexpr.attr in REGEX_METHODS:
            return ("atom", norm(node, 60))
        return ("atom", norm(node, 60))

    def _is_str(self, e: ast.expr, ctx: Ctx) -> bool:
        try:
            t = self.T.expr(ctx.fi, e)
        except Exception:  # noqa: BLE001
            return False
        return t == ("b", "str", ())

    def _is_path(self, e: ast.expr, ctx: Ctx, o) -> bool:
        if o[0] == "param":
            return True  # the parameter of the overload under analysis itself: same overload again
        try:
            t = self.T.expr(ctx.fi, e)
        except Exception:  # noqa: BLE001
            return False
        return t[0] == "lib" and "Path" in t[1]

    def _repo_callees(self, e: ast.Call, ctx: Ctx) -> list[FuncInfo]:
        try:
            cs, how = self.T.callees(ctx.fi, e, byname_fallback=False)
        except Exception:  # noqa: BLE001
            return []
        return [c for c in cs if not c.is_abstract] if how == "repo" else []

    # ------------------------------------------------------------------ functions
    def returns_truth(self, fi: FuncInfo, arg_origins: list, depth: int = 0, argexprs: list | None = None):
        """Truth condition of the value returned by fi, its (non-self) parameters bound to the given origins."""
        names = list(fi.param_names)
        if fi.cls is not None and fi.outer is None and not fi.is_staticmethod and names:
            names = names[1:]
        env: dict = {}
        for i, (n, o) in enumerate(zip(names, arg_origins)):
            env[n] = ("origin", o)
        body = [s for s in fi.body if not (isinstance(s, ast.Expr) and isinstance(s.value, ast.Constant))]
        return self.block(body, Ctx(fi, env), depth)

    def block(self, stmts: list, ctx: Ctx, depth: int):
        """Truth of the returned value of a statement list (every path of which returns)."""
        if depth > 14:
            return ("atom", "nesting too deep")
        env = ctx.env
        for i, s in enumerate(stmts):
            rest = stmts[i + 1 :]
            if isinstance(s, ast.Return):
                return self.truth(s.value, ctx, depth + 1) if s.value is not None else ("const", False)
            if isinstance(s, ast.Raise):
                return ("const", False)
            if isinstance(s, (ast.Assign, ast.AnnAssign)):
                tgt = s.targets[0] if isinstance(s, ast.Assign) and len(s.targets) == 1 else getattr(s, "target", None)
                if isinstance(tgt, ast.Name) and s.value is not None:
                    env[tgt.id] = ("expr", s.value, Ctx(ctx.fi, dict(env)))
                    continue
                if isinstance(tgt, ast.Attribute):
                    continue
                return ("atom", f"`{norm(s, 60)}`")
            if isinstance(s, ast.Expr):
                continue
            if isinstance(s, ast.If):
                c = self.truth(s.test, ctx, depth + 1)
                # normalisation `if isinstance(x, Path): x = str(x)` of a parameter
                if not s.orelse and all(isinstance(b, ast.Assign) and len(b.targets) == 1 and isinstance(b.targets[0], ast.Name) for b in s.body):
                    ok = True
                    for b in s.body:
                        n = b.targets[0].id
                        o = self.origin(b.value, ctx)
                        cur = env.get(n)
                        if o[0] == "str" and cur is not None and cur[0] == "origin" and o[1] == cur[1] and isinstance(s.test, ast.Call) and norm(s.test.func) == "isinstance":
                            env[n] = ("origin", ("strish", cur[1]))
                        else:
                            ok = False
                    if ok:
                        continue
                    return ("atom", f"`if {norm(s.test, 50)}: ...` re-binds a variable")
                from core.cfg import always_exits

                a = self.block(s.body + ([] if always_exits(s.body) else rest), Ctx(ctx.fi, dict(env)), depth + 1)
                b = self.block((s.orelse if s.orelse else []) + ([] if (s.orelse and always_exits(s.orelse)) else rest), Ctx(ctx.fi, dict(env)), depth + 1)
                return ("or", [("and", [c, a]), ("and", [("not", c), b])])
            if isinstance(s, ast.For):
                return self.loop(s, rest, ctx, depth)
            if isinstance(s, ast.Pass):
                continue
            return ("atom", f"`{norm(s, 60)}`")
        return ("const", False)

    def loop(self, s: ast.For, rest: list, ctx: Ctx, depth: int):
        vid = next(_ids)
        it = self.origin(s.iter, ctx)
        env = dict(ctx.env)
        name = norm(s.target, 30)
        if isinstance(s.target, ast.Name):
            env[s.target.id] = ("origin", ("var", vid, s.target.id))
        else:
            return ("atom", f"`for {name} in ...` unpacks")
        inner = Ctx(ctx.fi, env)
        hits = []  # (condition term, kind, value term or flag name)
        pre = ("const", True)
        for b in s.body:
            if isinstance(b, (ast.Assign, ast.AnnAssign)) and isinstance(getattr(b, "target", None) or b.targets[0], ast.Name) and b.value is not None:
                tgt = getattr(b, "target", None) or b.targets[0]
                env[tgt.id] = ("expr", b.value, Ctx(ctx.fi, dict(env)))
                continue
            if isinstance(b, ast.If) and not b.orelse:
                c = self.truth(b.test, inner, depth + 1)
                last = b.body[-1]
                if isinstance(last, ast.Return) and len(b.body) == 1:
                    hits.append((("and", [pre, c]), "return", self.truth(last.value, inner, depth + 1) if last.value is not None else ("const", False)))
                    pre = ("and", [pre, ("not", c)])
                    continue
                if isinstance(last, ast.Continue) and len(b.body) == 1:
                    pre = ("and", [pre, ("not", c)])
                    continue
                flags = [x for x in b.body if isinstance(x, ast.Assign) and len(x.targets) == 1 and isinstance(x.targets[0], ast.Name) and isinstance(x.value, ast.Constant)]
                others = [x for x in b.body if x not in flags and not isinstance(x, ast.Break)]
                if not others and (flags or isinstance(last, ast.Break)):
                    for fl in flags:
                        hits.append((("and", [pre, c]), "flag", (fl.targets[0].id, bool(fl.value.value))))
                    if isinstance(last, ast.Break):
                        hits.append((("and", [pre, c]), "break", None))
                    continue
            if isinstance(b, ast.Return):
                hits.append((pre, "return", self.truth(b.value, inner, depth + 1) if b.value is not None else ("const", False)))
                pre = ("const", False)
                continue
            if isinstance(b, (ast.Expr, ast.Pass)):
                continue
            return ("atom", f"loop body `{norm(b, 50)}`")
        rets = [h for h in hits if h[1] == "return"]
        brks = [h for h in hits if h[1] == "break"]
        flgs = [h for h in hits if h[1] == "flag"]
        if s.orelse and not brks:
            # no break: the else block simply runs after the loop
            rest = list(s.orelse) + ([] if _exits(s.orelse) else rest)
            s_orelse = []
        else:
            s_orelse = s.orelse
        if rets and not brks and not flgs and not s_orelse:
            found = ("exists", vid, it, ("or", [("and", [c, v]) for c, _k, v in rets]), name)
            anyhit = ("exists", vid, it, ("or", [c for c, _k, _v in rets]), name)
            after = self.block(rest, ctx, depth + 1)
            return ("or", [found, ("and", [("not", anyhit), after])])
        if brks and not rets and s_orelse:
            anyhit = ("exists", vid, it, ("or", [c for c, _k, _v in brks]), name)
            miss = self.block(list(s.orelse) + ([] if _exits(s.orelse) else rest), ctx, depth + 1)
            hit = self.block(rest, ctx, depth + 1)
            return ("or", [("and", [anyhit, hit]), ("and", [("not", anyhit), miss])])
        if flgs and not rets and not s_orelse:
            out_env = dict(ctx.env)
            for c, _k, (fname, val) in flgs:
                prev = out_env.get(fname)
                prev_t = self.truth(prev[1], prev[2], depth + 1) if prev is not None and prev[0] == "expr" else prev[1] if prev is not None and prev[0] == "term" else ("atom", f"bool({fname})")
                hit = ("exists", vid, it, c, name)
                out_env[fname] = ("term", ("or", [hit, prev_t]) if val else ("and", [("not", hit), prev_t]))
            return self.block(rest, Ctx(ctx.fi, out_env), depth + 1)
        if not hits:
            return self.block(rest, ctx, depth + 1)
        return ("atom", f"`for {name} in {norm(s.iter, 40)}` mixes returns, breaks and flags")


def _exits(stmts: list) -> bool:
    from core.cfg import always_exits

    return always_exits(stmts)


# --------------------------------------------------------------------------- the pattern collection


def map_of(e: ast.expr):
    """(source expression, element variable name or None, element expression or function expression, filters) of an element-wise build."""
    if isinstance(e, (ast.ListComp, ast.GeneratorExp, ast.SetComp)):
        if len(e.generators) != 1:
            return None
        g = e.generators[0]
        return g.iter, g.target, e.elt, list(g.ifs)
    if isinstance(e, ast.Call) and isinstance(e.func, ast.Name) and e.func.id in ("tuple", "list", "set", "frozenset") and len(e.args) == 1 and not e.keywords:
        return map_of(e.args[0])
    if isinstance(e, ast.Call) and isinstance(e.func, ast.Name) and e.func.id == "map" and len(e.args) == 2:
        return e.args[1], None, e.args[0], []
    if isinstance(e, ast.Call) and isinstance(e.func, ast.Name) and e.func.id == "filter":
        return e.args[1] if len(e.args) == 2 else e, None, None, [e]
    return None


def collection_build(fi: FuncInfo, box: str):
    """How the collection `box` (`self._x` or a local name) is built inside fi: list of (source, target, elt, filters, node) or a reason."""
    stores = []
    adds = []
    for n in own_nodes(fi.node):
        if isinstance(n, (ast.Assign, ast.AnnAssign)):
            tg = n.targets if isinstance(n, ast.Assign) else [n.target]
            if any(norm(t) == box for t in tg) and n.value is not None:
                stores.append(n)
        elif isinstance(n, ast.AugAssign) and norm(n.target) == box:
            adds.append(n)
        elif isinstance(n, ast.Call) and isinstance(n.func, ast.Attribute) and norm(n.func.value) == box and n.func.attr in ("append", "extend", "add", "insert", "update", "remove", "pop", "clear", "discard"):
            adds.append(n)
    if len(stores) != 1:
        return f"`{box}` is assigned {len(stores)} times"
    v = stores[0].value
    empty = (isinstance(v, (ast.List, ast.Tuple, ast.Set)) and not v.elts) or (isinstance(v, ast.Call) and isinstance(v.func, ast.Name) and v.func.id in ("list", "tuple", "set", "deque") and not v.args)
    if not adds:
        if isinstance(v, ast.Name):
            return collection_build(fi, v.id)
        if isinstance(v, ast.Call) and isinstance(v.func, ast.Name) and v.func.id in ("tuple", "list", "frozenset", "set") and len(v.args) == 1 and isinstance(v.args[0], ast.Name):
            return collection_build(fi, v.args[0].id)
        m = map_of(v)
        if m is None:
            via = _via_helper(fi, v, stores[0])
            if via is not None:
                return via
            return f"`{norm(v, 60)}` is not an element-wise build"
        return [(*m, stores[0])]
    if not empty:
        return f"`{box}` is initialised with `{norm(v, 40)}` and modified afterwards"
    out = []
    for a in adds:
        if isinstance(a, ast.AugAssign):
            m = map_of(a.value)
            if m is None or conds(fi, a):
                return f"`{norm(a, 60)}`"
            out.append((*m, a))
            continue
        if a.func.attr == "extend" and len(a.args) == 1:
            m = map_of(a.args[0])
            if m is None or conds(fi, a):
                return f"`{norm(a, 60)}`"
            out.append((*m, a))
            continue
        if a.func.attr not in ("append", "add") or len(a.args) != 1:
            return f"`{norm(a, 60)}`"
        loops = []
        p = parent(a)
        while p is not None and p is not fi.node:
            if isinstance(p, (ast.For, ast.While)):
                loops.append(p)
            p = parent(p)
        if len(loops) != 1 or not isinstance(loops[0], ast.For):
            return f"`{norm(a, 60)}` is not inside exactly one for loop"
        lp = loops[0]
        filters = [c for c, _pol in conds(fi, a) if any(parent_is(c, lp))]
        out.append((lp.iter, lp.target, a.args[0], filters, a))
    return out


def _via_helper(fi: FuncInfo, v: ast.expr, store: ast.AST):
    """`box = helper(<source>)` where the helper builds the collection element-wise from its parameter."""
    if not isinstance(v, ast.Call):
        return None
    repo = fi.module.repo  # type: ignore[attr-defined]
    try:
        cs, how = types_of(repo).callees(fi, v, byname_fallback=False)
    except Exception:  # noqa: BLE001
        return None
    cs = [c for c in cs if not c.is_abstract]
    if len(cs) != 1 or how != "repo":
        return None
    h = cs[0]
    names = list(h.param_names)
    if h.cls is not None and h.outer is None and not h.is_staticmethod and names:
        names = names[1:]
    if len(v.args) != len(names) or v.keywords:
        return None
    bind = dict(zip(names, v.args))
    rets = [n for n in own_nodes(h.node) if isinstance(n, ast.Return) and n.value is not None]
    if len(rets) != 1:
        return None
    rv = rets[0].value
    if isinstance(rv, ast.Call) and isinstance(rv.func, ast.Name) and rv.func.id in ("tuple", "list", "frozenset") and len(rv.args) == 1 and isinstance(rv.args[0], ast.Name):
        rv = rv.args[0]
    built = collection_build(h, rv.id) if isinstance(rv, ast.Name) else ([(*map_of(rv), rets[0])] if map_of(rv) is not None else None)
    if not isinstance(built, list):
        return None
    out = []
    for src, target, elt, filters, node in built:
        if isinstance(src, ast.Name) and src.id in bind:
            src = bind[src.id]
        elif filters is not None and not isinstance(src, ast.Name):
            pass
        # names in elt / filters refer to the helper's scope; only re.compile(target) / the target itself are accepted later
        out.append((src, target, elt, filters, store))
    # the element expression is resolved in the helper's module: it must be the same module for `re` to mean the same
    return out if h.module is fi.module else None


def _joined_alternation(repo: Repo, ci: ClassInfo, box: str) -> ast.Call | None:
    """The `"|".join(<configured patterns>)` call whose result is compiled into the single pattern kept in `box` (`self._x`), if that is
    how `box` is built: the separator is a constant containing `|`, the joined elements come from the constructor's parameter, and the
    joined text reaches a `re.compile(...)` that is stored in `box` (directly, through locals, a conditional expression, an f-string
    or a concatenation that wraps it)."""
    init = repo.lookup_method(ci, "__init__")
    if init is None or len(init.param_names) < 2:
        return None
    cfg = init.param_names[1]
    funcs = [init]
    try:
        T = types_of(repo)
        for c in calls_in(init.node):
            cs, how = T.callees(init, c, byname_fallback=False)
            funcs += [h for h in cs if how == "repo" and h not in funcs and h.name != "__init__"]
    except Exception:  # noqa: BLE001
        pass
    for f in funcs:
        binds: dict[str, list[ast.expr]] = {}
        for n in own_nodes(f.node):
            if isinstance(n, ast.Assign) and len(n.targets) == 1 and isinstance(n.targets[0], ast.Name):
                binds.setdefault(n.targets[0].id, []).append(n.value)
            elif isinstance(n, ast.AnnAssign) and isinstance(n.target, ast.Name) and n.value is not None:
                binds.setdefault(n.target.id, []).append(n.value)

        def closure(e: ast.AST, depth: int = 0) -> list[ast.AST]:
            """All nodes of `e`, locals replaced by what they were assigned."""
            out = []
            for x in ast.walk(e):
                out.append(x)
                if isinstance(x, ast.Name) and isinstance(x.ctx, ast.Load) and depth < 4:
                    for v in binds.get(x.id, []):
                        out += closure(v, depth + 1)
            return out

        stores = [n for n in own_nodes(f.node) if isinstance(n, (ast.Assign, ast.AnnAssign)) and n.value is not None and any(norm(t) == box for t in (n.targets if isinstance(n, ast.Assign) else [n.target]))]
        if f is not init:
            # a helper that returns the compiled pattern
            stores = [n for n in own_nodes(f.node) if isinstance(n, ast.Return) and n.value is not None]
        for st in stores:
            for c in closure(st.value):
                if isinstance(c, ast.Call) and isinstance(c.func, (ast.Name, ast.Attribute)) and repo.resolve_name(f.module, c.func) == "re.compile" and c.args:
                    for j in closure(c.args[0]):
                        if isinstance(j, ast.Call) and isinstance(j.func, ast.Attribute) and j.func.attr == "join" and isinstance(j.func.value, ast.Constant) and isinstance(j.func.value.value, str) and "|" in j.func.value.value and len(j.args) == 1:
                            names = {x.id for x in closure(j.args[0]) if isinstance(x, ast.Name)}
                            if cfg in names or (f is not init and set(f.param_names) & names):
                                return j
    return None


def _empty(e: ast.expr) -> bool:
    return (isinstance(e, (ast.Tuple, ast.List)) and not e.elts) or (isinstance(e, ast.Call) and isinstance(e.func, ast.Name) and e.func.id in ("tuple", "list") and not e.args)


def parent_is(node: ast.AST, anc: ast.AST):
    p = parent(node)
    while p is not None:
        if p is anc:
            yield True
            return
        p = parent(p)


def run(repo: Repo, res: Result, rule: str, filter_cls: ClassInfo, pred: str) -> dict:
    """Returns facts for the plumbing rule: {"config_cls": ClassInfo|None, "field": str|None}."""
    info: dict = {"config_cls": None, "field": None}
    tm = Terms(repo, filter_cls, pred)
    T = types_of(repo)
    base_key = f"{filter_cls.module.relpath}::{filter_cls.name}.{pred}"
    ov = tm.overloads
    if not ov:
        res.undecide(rule, base_key, "the predicate's implementation was not found", "")
        return info
    attr_iter: set[str] = set()
    applied: set[str] = set()  # collections whose elements are called as functions (`m(s)`: stored bound methods)
    direct: set[str] = set()  # collections whose elements are used as patterns (`re.match(p, s)` / `p.match(s)`)
    func_match = False  # pattern applied through re.match(p, s) (accepts str patterns) rather than p.match(s)
    for key, label, want_subject in (("str", "str", "param"), ("path", "Path", "str"), ("any", "", "either")):
        m = ov.get(key)
        if m is None:
            if key != "any" and "any" not in ov:
                res.undecide(rule, f"{base_key}({label})", f"no `{pred}.register` overload for {label} found", where(filter_cls.methods[pred], filter_cls.methods[pred].node))
            continue
        pname = m.param_names[1] if len(m.param_names) > 1 else "?"
        t0 = simp(tm.returns_truth(m, [("param", pname)]))
        ckey = f"{base_key}({label or 'obj'})::excluded iff re.match of some pattern"
        w = where(m, m.node)
        bad = None
        und = None
        shown = show_term(t0)[:200]
        for t in type_cases(t0):
            ms = matches_in(t)
            for mt in ms:
                _k, kind, po, so, node, mfi, extra = mt
                if kind not in ("match", "apply"):
                    bad = f"`{norm(node, 70)}` applies the patterns with {kind}: " + ("a pattern matches anywhere in the path, regex exclusions are no longer anchored at the start" if kind == "search" else "a pattern must match the whole path, 'anchored at the start' patterns with an open end no longer exclude")
                    break
                if extra:
                    bad = f"`{norm(node, 70)}` passes extra arguments (flags / positions) to the match"
                    break
                so_ok = (so == ("param", pname) and want_subject in ("param", "either")) or (so == ("str", ("param", pname)) and want_subject in ("str", "either")) or (so == ("strish", ("param", pname)) and want_subject == "either")
                if not so_ok:
                    if so[0] == "other" and not (len(so) > 2 and so[2]):
                        und = und or f"`{norm(node, 70)}` matches the patterns against `{so[1]}`: cannot see whether that is the path's own string"
                        continue
                    bad = f"`{norm(node, 70)}` matches the patterns against {show_origin(so)} instead of {'the path string itself' if want_subject != 'str' else 'str(path)'}: the path is no longer matched as a whole"
                    break
                if po[0] == "attr" and _joined_alternation(repo, filter_cls, po[1]) is not None:
                    j = _joined_alternation(repo, filter_cls, po[1])
                    bad = (
                        f"`{norm(node, 70)}` applies ONE regular expression, built by `{norm(j, 70)}` from all configured patterns, instead of each pattern on its own: "
                        "inside one alternation the patterns share group numbers, group names and inline flags, so a pattern no longer means what it means alone "
                        "(wrapping each alternative in `(?:...)` does not help) - e.g. with the patterns ('(a)b', r'(x)\\1') the path 'xx' is matched by the second pattern alone, "
                        "but in '(a)b|(x)\\1' the back-reference \\1 points at the first pattern's group and never matches: 'xx' is not excluded; "
                        "two patterns with the same named group, or `(?i)` in a later pattern, make re.compile fail"
                    )
                    break
                if po[0] == "attr":
                    und = und or f"`{norm(node, 70)}` applies one pre-built pattern {show_origin(po)} instead of the configured patterns one by one: whether it is their exact union is not decided"
                elif po[0] != "var":
                    und = und or f"`{norm(node, 70)}`: the pattern operand {show_origin(po)} is not an element of the configured collection"
            if bad is not None:
                break
            if not ms:
                if atoms_in(t):
                    und = und or f"the result `{show_term(t)[:160]}` contains no recognisable regex match"
                    continue
                bad = f"the result is `{show_term(t)[:120]}`: no pattern is applied"
                break
            if und is not None:
                continue
            # exact shape: exists p in self.A: match(p, subject)
            ok_shape = t[0] == "exists" and t[3][0] == "match" and t[3][2][:2] == ("var", t[1]) and t[2][0] == "attr"
            if not ok_shape and t[0] == "exists" and t[3][0] == "and" and len(t) > 4:
                # extra conditions next to the match that only talk about the pattern variable: some patterns are never applied
                body_ms = [x for x in t[3][1] if x[0] == "match"]
                extra = [x for x in t[3][1] if x[0] != "match"]
                import re as _re

                if len(body_ms) == 1 and extra and all(x[0] == "atom" and t[4] in _re.findall(r"[A-Za-z_][A-Za-z_0-9]*", x[1]) for x in extra):
                    bad = f"the patterns are additionally filtered by `{extra[0][1]}` before they are applied: not every configured pattern takes part in the exclusion"
                    break
            if not ok_shape:
                if atoms_in(t):
                    und = und or f"the result `{show_term(t)[:200]}` is not of the form `exists p in <patterns>: match(p, path)` and contains parts the analysis cannot interpret"
                    continue
                bad = f"the result is `{show_term(t)[:200]}`, not `exists p in <all patterns>: re.match(p, path)`"
                break
            attr_iter.add(t[2][1])
            if t[3][4] is not None and lib_name(repo, t[3][5], t[3][4]) in REGEX_FUNCS:
                func_match = True
            (applied if t[3][1] == "apply" else direct).add(t[2][1])
        if bad is None and und is not None:
            res.undecide(rule, ckey, und, w)
            continue
        res.add(rule, ckey, bad is None, (f"the result is `{shown}`" if bad is None else bad), w, kind="structural")
    # the pattern collection
    init = repo.lookup_method(filter_cls, "__init__")
    for box in sorted(attr_iter):
        ckey = f"{filter_cls.module.relpath}::{filter_cls.name}::{box} = every configured pattern, compiled as given"
        writers = [m for m in [*filter_cls.methods.values(), *filter_cls.extra_methods] if m is not init and any(isinstance(n, ast.Attribute) and isinstance(n.ctx, ast.Store) and norm(n) == box for n in ast.walk(m.node))]
        if init is None or writers:
            res.undecide(rule, ckey, f"`{box}` is written outside __init__ ({[m.qualname for m in writers]})", "")
            continue
        built = collection_build(init, box)
        if isinstance(built, str):
            res.undecide(rule, ckey, f"cannot see how the pattern collection is built: {built}", where(init, init.node))
            continue
        ok, detail = True, "every configured pattern is compiled as given"
        cfg_param = init.param_names[1] if len(init.param_names) > 1 else None
        for src, target, elt, filters, node in built:
            if filters:
                ok, detail = False, f"`{norm(node, 80)}`: not every configured pattern is kept (filter `{norm(filters[0], 50)}`)"
                break
            # element transform
            if target is None:
                fn = elt
                fq = repo.resolve_name(init.module, fn) if isinstance(fn, (ast.Name, ast.Attribute)) else None
                if fq != "re.compile" or box in applied:
                    ok, detail = None, f"`{norm(node, 80)}` maps `{norm(fn, 40)}` over the patterns"
                    break
            else:
                bound = None
                if isinstance(elt, ast.Attribute) and elt.attr in REGEX_METHODS and isinstance(elt.value, ast.Call) and repo.resolve_name(init.module, elt.value.func) == "re.compile":
                    # `re.compile(p).match`: the element is the pattern's bound method; calling it is `re.<method>(p, s)`
                    bound, elt = elt.attr, elt.value
                if (bound is not None) != (box in applied) or (box in applied and box in direct):
                    ok, detail = None, (f"the collection holds bound `.{bound}` methods but its elements are used as patterns" if bound is not None else "the elements of the collection are called as functions, but they are not bound methods of compiled patterns (`re.compile(p).match`)")
                    break
                if bound is not None and bound != "match":
                    ok, detail = False, f"`{norm(node, 80)}` keeps the patterns' `.{bound}` method, which the predicate applies: " + ("a pattern matches anywhere in the path, regex exclusions are no longer anchored at the start" if bound == "search" else "a pattern must match the whole path, 'anchored at the start' patterns with an open end no longer exclude")
                    break
                if isinstance(elt, ast.Name) and isinstance(target, ast.Name) and elt.id == target.id:
                    if not func_match:
                        ok, detail = None, "the patterns are stored uncompiled but applied with `<pattern>.match`"
                        break
                elif isinstance(elt, ast.Call) and repo.resolve_name(init.module, elt.func) == "re.compile":
                    if len(elt.args) != 1 or elt.keywords:
                        ok, detail = False, f"`{norm(elt, 80)}`: the patterns are compiled with flags / extra arguments, they no longer mean what the user wrote"
                        break
                    if not (isinstance(elt.args[0], ast.Name) and isinstance(target, ast.Name) and elt.args[0].id == target.id):
                        ok, detail = False, f"`{norm(elt, 80)}` compiles something else than the configured pattern itself: the pattern no longer means what the user wrote"
                        break
                else:
                    ok, detail = None, f"`{norm(elt, 80)}` is not `re.compile(<pattern>)`"
                    break
            # source: attribute of the config parameter (or the parameter itself), possibly with a None -> () default
            base = src
            if isinstance(base, ast.BoolOp) and isinstance(base.op, ast.Or) and len(base.values) == 2 and _empty(base.values[1]):
                base = base.values[0]
                info["none_ok"] = True
            elif isinstance(base, ast.IfExp) and isinstance(base.test, ast.Compare) and len(base.test.ops) == 1 and isinstance(base.test.comparators[0], ast.Constant) and base.test.comparators[0].value is None:
                a, b = (base.body, base.orelse) if isinstance(base.test.ops[0], ast.Is) else (base.orelse, base.body)
                if _empty(a) and norm(b) == norm(base.test.left):
                    base = b
                    info["none_ok"] = True
            if isinstance(base, ast.Attribute) and isinstance(base.value, ast.Name) and base.value.id == cfg_param:
                info["field"] = base.attr
                ct = T.param_type(init, cfg_param)
                if ct[0] == "cls":
                    info["config_cls"] = repo.classes.get(ct[1])
            elif isinstance(base, ast.Name) and base.id == cfg_param:
                info["field"] = None
            else:
                ok, detail = (False, f"`{norm(node, 80)}`: only `{norm(src, 50)}` of the configured patterns is used") if isinstance(base, ast.Subscript) else (None, f"the patterns are taken from `{norm(src, 50)}`, not from the configuration parameter")
                break
        if ok is None:
            res.undecide(rule, ckey, detail, where(init, init.node))
        else:
            res.add(rule, ckey, ok, detail, where(init, init.node), kind="structural")
    return info
