"""C08.R4 - option plumbing from the public entry point to the scan, decided by guarded symbolic values.

The inlined view (core/inline_stmt.py) of the public function `get_evaluable_architecture` contains, after inlining the module-level
helpers it calls (`generate_graph`, option helpers, ...), the construction `Scan(Filter(Config(<patterns>)), ...)` of the scanning
class found by c08_scan.  A small symbolic executor walks the view (assignments, if/else, raise, conditional expressions, `a or b`)
and keeps for every variable its *guarded alternatives*  [(condition, term)]  with terms

    param p | const v | map(f, <term>) (element-wise: comprehension / tuple(map(f, xs)) / list(...)) | ctor(C, args) | other(text)

and conditions that are formulas over atoms about the public parameters (`bool(exclusions)`, `regex_exclusions is None`).
At the scan's constructor the alternatives of <patterns> must satisfy, for every reachable condition:

    glob patterns given (bool(exclusions))      ->  map(<converter>, param exclusions), unfiltered, the whole tuple
    otherwise                                   ->  param regex_exclusions unchanged, or the empty tuple
    never                                       ->  None (const None, or an Optional parameter under a condition that allows `p is None`)

The functions found in the role of <converter> are handed to C08.R1.
"""

from __future__ import annotations

import ast
from dataclasses import dataclass

from core.guards import FALSE, TRUE, Formula, atom, f_and, f_not, f_or, implies, satisfiable, to_formula
from core.inline_stmt import inline_view
from core.loader import ClassInfo, FuncInfo, Repo, norm
from core.report import Result

from .c08_match import map_of
from .common import types_of, where

ENTRY_MOD, ENTRY_FN = "pytestarch.pytestarch", "get_evaluable_architecture"
GLOB, REGEX = "exclusions", "regex_exclusions"


def _allow(caller: FuncInfo, callee: FuncInfo) -> bool:
    # module-level helpers and class-level factories (the scan's own methods stay calls: the constructors are the sink)
    return callee.cls is None or callee.is_classmethod or callee.is_staticmethod


@dataclass
class Sink:
    pc: Formula
    alts: list  # [(Formula, term)]
    node: ast.AST


class Exec:
    def __init__(self, repo: Repo, view: FuncInfo, scan_cls: ClassInfo | None, filter_cls: ClassInfo | None, config_cls: ClassInfo | None, field: str | None) -> None:
        self.repo = repo
        self.T = types_of(repo)
        self.v = view
        self.scan_cls, self.filter_cls, self.config_cls, self.field = scan_cls, filter_cls, config_cls, field
        self.params = list(view.param_names)
        self.sinks: list[Sink] = []
        self.raises: list[Formula] = []  # path conditions of the `raise` statements of the (inlined) entry point
        self.maps: list[tuple] = []  # (term, node)
        self.ctors: list[str] = []
        self._rets: list[list] = []  # return alternatives of the helper being evaluated
        self._outer: list[Formula] = []  # path conditions of the enclosing evaluations
        self._stack: list[str] = []

    # ------------------------------------------------------------------ terms
    def terms(self, e: ast.expr, env: dict, depth: int = 0) -> list:
        if depth > 12:
            return [(TRUE, ("other", norm(e, 60)))]
        if isinstance(e, ast.Name):
            if e.id in env:
                return env[e.id]
            if e.id in self.params:
                return [(TRUE, ("param", e.id))]
            return [(TRUE, ("other", e.id))]
        if isinstance(e, ast.Constant):
            return [(TRUE, ("const", e.value))]
        if isinstance(e, (ast.Tuple, ast.List)) and not e.elts:
            return [(TRUE, ("const", ()))]
        if isinstance(e, ast.IfExp):
            c = self.cond(e.test, env)
            return [(f_and([c, g]), t) for g, t in self.terms(e.body, env, depth + 1)] + [(f_and([f_not(c), g]), t) for g, t in self.terms(e.orelse, env, depth + 1)]
        if isinstance(e, ast.BoolOp) and isinstance(e.op, ast.Or):
            out = []
            rest = TRUE
            for i, v in enumerate(e.values):
                alts = self.terms(v, env, depth + 1)
                last = i == len(e.values) - 1
                for g, t in alts:
                    out.append((f_and([rest, g] + ([] if last else [self.truthy(t)])), t))
                rest = f_and([rest, f_or([f_and([g, f_not(self.truthy(t))]) for g, t in alts])])
            return out
        if isinstance(e, ast.NamedExpr):
            return self.terms(e.value, env, depth + 1)
        if isinstance(e, (ast.Compare, ast.UnaryOp)) or (isinstance(e, ast.BoolOp) and isinstance(e.op, ast.And)) or (isinstance(e, ast.Call) and isinstance(e.func, ast.Name) and e.func.id in ("bool", "any", "all", "isinstance") and not isinstance(getattr(e, "op", None), ast.USub)):
            if not (isinstance(e, ast.UnaryOp) and not isinstance(e.op, ast.Not)):
                return [(TRUE, ("bool", self.cond(e, env)))]
        if isinstance(e, ast.Call):
            ci = None
            try:
                ci = self.T.ctor_class(self._ctx(e), self._orig(e))
            except Exception:  # noqa: BLE001
                ci = None
            if ci is None and isinstance(e.func, ast.Name):
                fq = self.repo.resolve_name(self._ctx(e).module, self._orig(e).func)
                ci = self.repo.classes.get(fq) if fq else None
            if ci is not None:
                args = [self.terms(a, env, depth + 1) for a in e.args if not isinstance(a, ast.Starred)]
                kws = {k.arg: self.terms(k.value, env, depth + 1) for k in e.keywords if k.arg}
                return [(TRUE, ("ctor", ci.fq, args, kws))]
            m = map_of(e)
            if m is not None:
                return self._map(e, m, env, depth)
            if isinstance(e.func, ast.Name) and e.func.id in ("tuple", "list") and len(e.args) == 1 and not e.keywords:
                return self.terms(e.args[0], env, depth + 1)  # a copy: same elements, same None-ness (tuple(None) raises)
            if isinstance(e.func, ast.Name) and e.func.id in ("tuple", "list") and not e.args:
                return [(TRUE, ("const", ()))]
            got = self.call_terms(e, env, depth)
            if got is not None:
                return got
            return [(TRUE, ("other", norm(e, 80)))]
        if isinstance(e, (ast.ListComp, ast.GeneratorExp)):
            m = map_of(e)
            if m is not None:
                return self._map(e, m, env, depth)
        if isinstance(e, ast.Attribute):
            out = []
            for g, t in self.terms(e.value, env, depth + 1):
                got = None
                if t[0] == "ctor":
                    ci = self.repo.classes.get(t[1])
                    if ci is not None:
                        got = self._field(t, ci, e.attr)
                if got is None:
                    return [(TRUE, ("other", norm(e, 80)))]
                out += [(f_and([g, g2]), t2) for g2, t2 in got]
            return out
        return [(TRUE, ("other", norm(e, 80)))]

    def _field(self, term, ci: ClassInfo, name: str):
        """Alternatives of the constructor argument stored in attribute `name` (dataclass field, or `self.name = <param>` in __init__)."""
        _k, _fq, args, kws = term
        init = self.repo.lookup_method(ci, "__init__")
        if init is None:
            names = [n for c in reversed(self.repo.mro(ci)) for n in c.ann_attrs]
            param = name
        else:
            names = list(init.param_names[1:])
            param = None
            for n in ast.walk(init.node):
                if isinstance(n, ast.Assign) and len(n.targets) == 1 and isinstance(n.targets[0], ast.Attribute) and isinstance(n.targets[0].value, ast.Name) and n.targets[0].value.id == init.param_names[0] and n.targets[0].attr == name and isinstance(n.value, ast.Name):
                    param = n.value.id
        if param is None or param not in names:
            return None
        if param in kws:
            return kws[param]
        i = names.index(param)
        return args[i] if i < len(args) else None

    def call_terms(self, e: ast.Call, env: dict, depth: int):
        """Guarded alternatives of the value returned by a repo helper that the view left as a call (evaluated on its own view)."""
        try:
            cs, how = self.T.callees(self._ctx(e), self._orig(e), byname_fallback=False)
        except Exception:  # noqa: BLE001
            return None
        cs = [c for c in cs if not c.is_abstract]
        if len(cs) != 1 or how != "repo" or len(self._stack) > 4 or cs[0].fq in self._stack:
            return None
        h = cs[0]
        if not _allow(self.v, h) or isinstance(h.node, ast.Lambda) or h.node.args.vararg or h.node.args.kwarg:
            return None
        if any(isinstance(n, (ast.Yield, ast.YieldFrom)) for n in ast.walk(h.node)):
            return None
        names = list(h.param_names)
        if h.cls is not None and h.is_classmethod:
            names = names[1:]
        if len(e.args) > len(names) or any(isinstance(a, ast.Starred) for a in e.args) or any(k.arg is None for k in e.keywords):
            return None
        inner: dict = {}
        for n, a in zip(names, e.args):
            inner[n] = self.terms(a, env, depth + 1)
        for k in e.keywords:
            if k.arg not in names:
                return None
            inner[k.arg] = self.terms(k.value, env, depth + 1)
        a = h.node.args
        pos_all = [*a.posonlyargs, *a.args]
        for p_, d in zip(pos_all[len(pos_all) - len(a.defaults):], a.defaults):
            inner.setdefault(p_.arg, self.terms(d, {}, depth + 1))
        for p_, d in zip(a.kwonlyargs, a.kw_defaults):
            if d is not None:
                inner.setdefault(p_.arg, self.terms(d, {}, depth + 1))
        if any(n not in inner for n in names):
            return None
        hv = inline_view(self.repo, h, self.T, allow=_allow, max_depth=4)
        self._stack.append(h.fq)
        self._rets.append([])
        saved_params = self.params
        self.params = []
        try:
            self.run(hv.node.body, inner, TRUE)
            rets = self._rets[-1]
        finally:
            self._rets.pop()
            self._stack.pop()
            self.params = saved_params
        out = []
        for pc, alts in rets:
            out += [(f_and([pc, g]), t) for g, t in alts]
        return out or [(TRUE, ("const", None))]

    def _orig(self, e: ast.AST) -> ast.AST:
        src = getattr(e, "_src", None)
        return src[1] if src is not None else e

    def _ctx(self, e: ast.AST) -> FuncInfo:
        src = getattr(e, "_src", None)
        return src[0] if src is not None else self.v

    def _map(self, e: ast.expr, m, env: dict, depth: int) -> list:
        src, target, elt, filters = m
        fn = None
        if target is None:
            fn = elt
        elif isinstance(elt, ast.Call) and len(elt.args) == 1 and not elt.keywords and isinstance(target, ast.Name) and isinstance(elt.args[0], ast.Name) and elt.args[0].id == target.id:
            fn = elt.func
        elif isinstance(elt, ast.Name) and isinstance(target, ast.Name) and elt.id == target.id and not filters:
            return self.terms(src, env, depth + 1)  # identity copy
        fq = None
        if fn is not None and isinstance(fn, (ast.Name, ast.Attribute)):
            o = self._orig(fn)
            fq = self.repo.resolve_name(self._ctx(fn).module, o) if isinstance(o, (ast.Name, ast.Attribute)) else None
        out = []
        for g, t in self.terms(src, env, depth + 1):
            term = ("map", fq or (norm(fn, 50) if fn is not None else norm(elt, 50) if elt is not None else "?"), t, bool(filters), fn is not None)
            out.append((g, term))
            self.maps.append((term, e))
        return out

    def truthy(self, t) -> Formula:
        k = t[0]
        if k == "bool":
            return t[1]
        if k == "param":
            return atom(f"bool({t[1]})")
        if k == "const":
            return TRUE if t[1] else FALSE
        if k == "map":
            return self.truthy(t[2]) if not t[3] else atom(f"bool(filtered {t[1]})")
        if k == "ctor":
            return TRUE
        return atom(f"bool({t[1]})")

    def isnone(self, t) -> Formula:
        k = t[0]
        if k == "bool":
            return FALSE
        if k == "param":
            return atom(f"{t[1]} is None")
        if k == "const":
            return TRUE if t[1] is None else FALSE
        if k in ("map", "ctor"):
            return FALSE
        return atom(f"{t[1]} is None")

    def cond(self, e: ast.expr, env: dict) -> Formula:
        def sub(x: ast.expr):
            if isinstance(x, ast.Name) and (x.id in env):
                return f_or([f_and([g, self.truthy(t)]) for g, t in env[x.id]])
            if isinstance(x, ast.Compare) and len(x.ops) == 1 and isinstance(x.ops[0], (ast.Is, ast.IsNot)) and isinstance(x.comparators[0], ast.Constant) and x.comparators[0].value is None:
                alts = self.terms(x.left, env)
                f = f_or([f_and([g, self.isnone(t)]) for g, t in alts])
                return f if isinstance(x.ops[0], ast.Is) else f_not(f)
            if isinstance(x, ast.Compare) and len(x.ops) == 1 and isinstance(x.ops[0], (ast.Eq, ast.NotEq)) and isinstance(x.comparators[0], (ast.Tuple, ast.List)) and not x.comparators[0].elts:
                alts = self.terms(x.left, env)
                f = f_or([f_and([g, f_not(self.truthy(t)), f_not(self.isnone(t))]) for g, t in alts])
                return f if isinstance(x.ops[0], ast.Eq) else f_not(f)
            return None

        return to_formula(e, sub)

    # ------------------------------------------------------------------ statements
    def look(self, node: ast.AST, env: dict, pc: Formula) -> None:
        """Record the scan's construction if it occurs in this statement's own expressions."""
        if self.scan_cls is None:
            return
        stack = [node]
        while stack:
            n = stack.pop()
            if isinstance(n, ast.Call):
                ci = None
                try:
                    ci = self.T.ctor_class(self._ctx(n), self._orig(n))
                except Exception:  # noqa: BLE001
                    ci = None
                if ci is not None:
                    self.ctors.append(ci.name)
                if ci is not None and (ci is self.scan_cls or self.repo.is_subclass(ci, self.scan_cls.fq)):
                    for alts in self._patterns_of(n, env):
                        self.sinks.append(Sink(f_and([*self._outer, pc]), alts, n))
            for c in ast.iter_child_nodes(n):
                if isinstance(c, (ast.stmt,)) and c is not node:
                    continue
                if isinstance(c, (ast.FunctionDef, ast.Lambda, ast.ClassDef)):
                    continue
                stack.append(c)

    def _arg(self, term, ci: ClassInfo, want_cls: ClassInfo | None, field: str | None):
        """Alternatives of the constructor argument of `term` = ctor(ci, ...) that has the wanted role."""
        _k, _fq, args, kws = term
        init = self.repo.lookup_method(ci, "__init__")
        names = [p for p in init.param_names[1:]] if init is not None else list(ci.ann_attrs)
        idx = None
        if field is not None and field in names:
            idx = names.index(field)
        elif want_cls is not None and init is not None:
            for i, p in enumerate(names):
                t = self.T.param_type(init, p)
                if t == ("cls", want_cls.fq):
                    idx = i
        if idx is None:
            idx = 0
        name = names[idx] if idx < len(names) else None
        if name in kws:
            return kws[name]
        if idx < len(args):
            return args[idx]
        return None

    def _patterns_of(self, call: ast.Call, env: dict) -> list:
        """Guarded alternatives of the pattern tuple inside Scan(Filter(Config(<patterns>)))."""
        out = []
        for g0, t0 in self.terms(call, env):
            if t0[0] != "ctor":
                continue
            level = [(g0, t0)]
            chain = [(self.scan_cls, self.filter_cls, None), (self.filter_cls, self.config_cls, None), (self.config_cls, None, self.field)]
            ok = True
            for ci, want, field in chain:
                if ci is None:
                    break
                nxt = []
                for g, t in level:
                    if t[0] != "ctor":
                        nxt.append((g, t))
                        continue
                    tc = self.repo.classes.get(t[1])
                    if tc is None or not (tc is ci or self.repo.is_subclass(tc, ci.fq)):
                        nxt.append((g, t))
                        continue
                    alts = self._arg(t, tc, want, field)
                    if alts is None:
                        ok = False
                        break
                    nxt += [(f_and([g, g2]), t2) for g2, t2 in alts]
                if not ok:
                    break
                level = nxt
            if ok:
                out.append(level)
        return out

    def _mutation(self, call: ast.expr, env: dict, kill_only: bool = False) -> None:
        """`L.extend(<element-wise build>)` on an empty list is that build; any other mutation of a tracked name makes it opaque."""
        if not (isinstance(call, ast.Call) and isinstance(call.func, ast.Attribute) and isinstance(call.func.value, ast.Name)):
            return
        name, attr = call.func.value.id, call.func.attr
        if name not in env or attr not in ("append", "extend", "insert", "add", "update", "remove", "pop", "clear", "sort", "reverse", "discard"):
            return
        if not kill_only and attr in ("extend", "update") and len(call.args) == 1 and _is_empty(env[name]):
            m = map_of(call.args[0])
            if m is not None:
                env[name] = self._map(call, m, env, 0)
                return
            env[name] = self.terms(call.args[0], env)
            return
        env[name] = [(TRUE, ("other", f"{name} after {norm(call, 50)}"))]

    def _build_loop(self, s: ast.For, env: dict) -> bool:
        """`for x in SRC: L.append(f(x))` (optionally under an if) with L empty before the loop: L is map(f, SRC)."""
        if s.orelse or len(s.body) != 1:
            return False
        b = s.body[0]
        filters = []
        while isinstance(b, ast.If) and not b.orelse and len(b.body) == 1:
            filters.append(b.test)
            b = b.body[0]
        if not (isinstance(b, ast.Expr) and isinstance(b.value, ast.Call) and isinstance(b.value.func, ast.Attribute) and b.value.func.attr in ("append", "add") and isinstance(b.value.func.value, ast.Name) and len(b.value.args) == 1):
            return False
        name = b.value.func.value.id
        if name not in env or not _is_empty(env[name]):
            return False
        env[name] = self._map(s, (s.iter, s.target, b.value.args[0], filters), env, 0)
        return True

    def run(self, stmts: list, env: dict, pc: Formula) -> tuple[dict, Formula, bool]:
        for s in stmts:
            if isinstance(s, (ast.Assign, ast.AnnAssign)):
                value = s.value
                if value is None:
                    continue
                self.look(value, env, pc)
                targets = s.targets if isinstance(s, ast.Assign) else [s.target]
                alts = self.terms(value, env)
                for t in targets:
                    if isinstance(t, ast.Name):
                        env[t.id] = alts
                    elif isinstance(t, (ast.Tuple, ast.List)):
                        for el in ast.walk(t):
                            if isinstance(el, ast.Name):
                                env[el.id] = [(TRUE, ("other", el.id))]
            elif isinstance(s, ast.AugAssign):
                self.look(s.value, env, pc)
                if isinstance(s.target, ast.Name):
                    env[s.target.id] = [(TRUE, ("other", norm(s, 60)))]
            elif isinstance(s, ast.If):
                self.look(s.test, env, pc)
                c = self.cond(s.test, env)
                e1, p1, t1 = self.run(s.body, dict(env), f_and([pc, c]))
                e2, p2, t2 = self.run(s.orelse, dict(env), f_and([pc, f_not(c)]))
                if t1 and t2:
                    return env, pc, True
                if t1:
                    env, pc = e2, p2
                elif t2:
                    env, pc = e1, p1
                else:
                    merged = {}
                    for name in set(e1) | set(e2):
                        a1 = e1.get(name) or [(TRUE, ("param", name) if name in self.params else ("other", name))]
                        a2 = e2.get(name) or [(TRUE, ("param", name) if name in self.params else ("other", name))]
                        if a1 is a2 or a1 == a2:
                            merged[name] = a1
                        else:
                            merged[name] = [(f_and([c, g]), t) for g, t in a1] + [(f_and([f_not(c), g]), t) for g, t in a2]
                    env = merged
            elif isinstance(s, (ast.Raise,)):
                self.raises.append(f_and([*self._outer, pc]))
                return env, pc, True
            elif isinstance(s, ast.Return):
                if s.value is not None:
                    self.look(s.value, env, pc)
                if self._rets:
                    self._rets[-1].append((pc, self.terms(s.value, env) if s.value is not None else [(TRUE, ("const", None))]))
                return env, pc, True
            elif isinstance(s, ast.Expr):
                self.look(s.value, env, pc)
                self._mutation(s.value, env)
            elif isinstance(s, ast.For) and self._build_loop(s, env):
                continue
            elif isinstance(s, (ast.For, ast.While, ast.With, ast.Try)):
                for n in ast.walk(s):
                    if isinstance(n, ast.Call):
                        self._mutation(n, env, kill_only=True)
                for fld in ("iter", "test"):
                    x = getattr(s, fld, None)
                    if x is not None:
                        self.look(x, env, pc)
                for it in getattr(s, "items", []):
                    self.look(it.context_expr, env, pc)
                killed = {n.id for n in ast.walk(s) if isinstance(n, ast.Name) and isinstance(n.ctx, ast.Store)}
                for k in killed:
                    env[k] = [(TRUE, ("other", k))]
                for fld in ("body", "orelse", "finalbody"):
                    blk = getattr(s, fld, None)
                    if blk:
                        self.run(blk, dict(env), pc)
                for h in getattr(s, "handlers", []):
                    self.run(h.body, dict(env), pc)
            else:
                continue
        return env, pc, False


def _cons(f: Formula, params: list[str]) -> Formula:
    """`p is None` excludes `bool(p)` - only for the parameters the formula talks about."""
    from core.guards import atoms_of

    have = atoms_of(f)
    return f_and([f_or([f_not(atom(f"{p} is None")), f_not(atom(f"bool({p})"))]) for p in params if f"{p} is None" in have and f"bool({p})" in have])


def _plain_condition(text: str, params: list[str]) -> bool:
    """Is the atom a condition on the entry point's parameters / module constants that needs no interpretation of calls?"""
    try:
        e = ast.parse(text, mode="eval").body
    except SyntaxError:
        return False
    for n in ast.walk(e):
        if isinstance(n, ast.Call) and not (isinstance(n.func, ast.Name) and n.func.id in ("bool", "len", "tuple") and len(n.args) == 1 and not n.keywords):
            return False
        if isinstance(n, (ast.Lambda, ast.GeneratorExp, ast.ListComp, ast.SetComp, ast.DictComp, ast.Attribute, ast.Subscript, ast.Await, ast.Yield, ast.NamedExpr, ast.Starred)):
            return False
        if isinstance(n, ast.Name) and n.id not in params and n.id not in ("bool", "len", "tuple", "None", "True", "False") and not n.id.isupper():
            return False
    return True


def _mentions(t, what) -> bool:
    if t == what:
        return True
    return isinstance(t, tuple) and any(_mentions(x, what) for x in t if isinstance(x, (tuple, list))) or isinstance(t, list) and any(_mentions(x, what) for x in t)


def _is_empty(alts) -> bool:
    return len(alts) == 1 and alts[0][1] == ("const", ())


def show_term(t) -> str:
    k = t[0]
    if k == "bool":
        return "a truth value"
    if k == "param":
        return f"the parameter `{t[1]}`"
    if k == "const":
        return repr(t[1])
    if k == "map":
        return f"{'some of ' if t[3] else ''}{t[1].rsplit('.', 1)[-1]}(x) for x in {show_term(t[2])}"
    if k == "ctor":
        return t[1].rsplit(".", 1)[-1] + "(...)"
    return f"`{t[1]}`"


def run(repo: Repo, res: Result, rule: str, scan_cls: ClassInfo | None, filter_cls: ClassInfo | None, config_cls: ClassInfo | None, field: str | None, none_ok: bool = False) -> list[str]:
    """Adds the plumbing obligations; returns the fq names (module.func) of the functions used as glob converter."""
    ge = repo.func(ENTRY_MOD, ENTRY_FN)
    T = types_of(repo)
    view = inline_view(repo, ge, T, allow=_allow, max_depth=6)
    ex = Exec(repo, view, scan_cls, filter_cls, config_cls, field)
    ex.run(view.node.body, {}, TRUE)
    base = f"{ge.relpath}::{ge.qualname}"
    w = where(ge, ge.node)
    converters: list[str] = []
    pnames = list(ge.param_names)

    def sat(f: Formula) -> bool:
        return satisfiable(f, _cons(f, pnames))

    def imp(a: Formula, b: Formula) -> bool:
        return implies(a, b, _cons(f_and([a, b]), pnames))

    G = atom(f"bool({GLOB})")
    if GLOB not in ge.param_names or REGEX not in ge.param_names:
        res.undecide(rule, base, f"the public parameters `{GLOB}` / `{REGEX}` are not both present", w)
        return converters
    if not ex.sinks:
        res.undecide(rule, base + "::patterns handed to the scan", f"the construction of the scan `{scan_cls.name if scan_cls else '?'}({filter_cls.name if filter_cls else '?'}(...))` was not found in the inlined entry point (constructors seen: {sorted(set(ex.ctors))[:8]})", w)
        return converters
    consumer_tolerates_none = none_ok
    conv_ok, conv_detail = True, ""
    none_ok, none_detail = True, ""
    regex_ok, regex_detail = True, ""
    both_ok, both_detail, both_note = True, "", ""
    undecided = None
    seen_glob = False
    for sk in ex.sinks:
        for g, t in sk.alts:
            full = f_and([sk.pc, g])
            if not sat(full):
                continue
            # never None
            nn = f_and([full, ex.isnone(t)])
            if t[0] in ("other", "ctor", "bool"):
                undecided = undecided or f"the patterns handed to the scan are {show_term(t)}: cannot see whether they may be None"
                continue
            elif sat(nn) and not consumer_tolerates_none:
                if config_cls is not None and any(repo.lookup_method(config_cls, m) is not None for m in ("__post_init__", "__init__", "__new__")):
                    undecided = undecided or f"{show_term(t)} may be None when it reaches `{config_cls.name}(...)`, whose own constructor code may or may not replace it"
                    continue
                none_ok = False
                none_detail = f"{show_term(t)} reaches the scan un-normalised although it may be None (e.g. an empty `{GLOB}` tuple without `{REGEX}`): the scan iterates None"
            # glob patterns given
            if sat(f_and([full, G])):
                seen_glob = True
                if t[0] == "map" and t[2] == ("param", GLOB) and not t[3] and t[4]:
                    if t[1] not in converters:
                        converters.append(t[1])
                elif t[0] == "map" and t[2] == ("param", GLOB) and t[3]:
                    conv_ok, conv_detail = False, f"only some elements of `{GLOB}` are converted ({show_term(t)})"
                elif t[0] == "map" and t[2][0] != "param":
                    conv_ok, conv_detail = False, f"only {show_term(t[2])} is converted, not every element of `{GLOB}`"
                elif t[0] == "other":
                    undecided = undecided or f"with glob patterns given the scan receives {show_term(t)}"
                else:
                    conv_ok, conv_detail = False, f"with glob patterns given the scan receives {show_term(t)} instead of the converted `{GLOB}`"
            # regex patterns given (and no globs)
            R = atom(f"bool({REGEX})")
            if sat(f_and([full, f_not(G), R])):
                if t == ("param", REGEX):
                    pass
                elif t[0] == "other":
                    undecided = undecided or f"with regex patterns given the scan receives {show_term(t)}"
                elif imp(f_and([full, f_not(G)]), f_not(R)):
                    pass
                else:
                    regex_ok, regex_detail = False, f"with only `{REGEX}` given the scan receives {show_term(t)} instead of the user's regular expressions"
            # regex patterns given *together with* globs and the call is not rejected: they must not be dropped silently
            if sat(f_and([full, G, R])) and t[0] != "other" and not _mentions(t, ("param", REGEX)) and not imp(f_and([G, R]), f_or(ex.raises)):
                from core.guards import atoms_of as _atoms, show as _show

                hidden = sorted(a for a in _atoms(full) if not _plain_condition(a, pnames))
                if hidden:
                    # the rejection may be hidden in a condition this analysis does not read (a table of checks, a helper object):
                    # no verdict from here - the mutual exclusion itself is C13's obligation
                    both_note = f"not decided here: the scan is reached under `{hidden[0][:80]}`, which is not a plain condition on the parameters"
                    continue

                both_detail = f"`{REGEX}` given together with `{GLOB}` is not rejected on every path (the scan is reached under `{_show(full)[:160]}`), and there the scan receives {show_term(t)}: the user's regular expressions are accepted and then silently dropped - they exclude nothing"
                both_ok = False
    if not seen_glob and not undecided:
        conv_ok, conv_detail = False, f"no path on which `{GLOB}` is non-empty reaches the scan: the glob patterns are ignored"
    if undecided and conv_ok and none_ok and regex_ok:
        res.undecide(rule, base + "::patterns handed to the scan", undecided, w)
    res.add(rule, f"{base}::{GLOB} all converted", conv_ok, f"every element of `{GLOB}` is converted by {', '.join(c.rsplit('.', 1)[-1] for c in converters) or '?'} before it reaches the scan" if conv_ok else conv_detail, w, kind="flow")
    res.add(rule, f"{base}::{REGEX} handed to the scan unchanged", regex_ok, f"`{REGEX}` reach the scan as given" if regex_ok else regex_detail, w, kind="flow")
    res.add(rule, f"{base}::{REGEX} never accepted and dropped", both_ok, (both_note or f"whenever `{REGEX}` and `{GLOB}` are both given the call is rejected before the scan is built (or the regular expressions reach the scan)") if both_ok else both_detail, w, nontrivial=not both_note, kind="flow")
    res.add(rule, f"{base}::patterns never None at the scan", none_ok, ("the filter replaces a missing pattern tuple by an empty one itself" if consumer_tolerates_none else "the pattern tuple handed to the scan is never None") if none_ok else none_detail, w, kind="flow")
    # every other place where the converter is mapped over a public parameter
    seen = set()
    for term, node in ex.maps:
        if term[1] not in converters or term[2] == ("param", GLOB):
            continue
        key = show_term(term[2])
        if key in seen:
            continue
        seen.add(key)
        ok = not term[3] and term[2][0] == "param"
        name = term[2][1] if term[2][0] == "param" else norm(node, 40)
        res.add(rule, f"{base}::{name} all converted", ok, f"every element of `{name}` is converted" if ok else f"not every element is converted: {show_term(term)}", w, kind="flow")
    return converters
