"""C08.R3, flat enumerations of a recursive listing (`p.rglob(...)`, `p.glob("**/...")`, `os.walk(p)`).

A recursive listing descends by itself, so "the exclusion test precedes the descent" cannot be asked of it.  Instead every path p that
comes out of such a listing must be guarded, besides `not EXCL(p)`, by

    not ANC(p)        "no directory above p (inside the walk) is excluded"

before it is registered / read / parsed.  ANC is a canonical atom like EXCL; it is produced by *pruning tests that compare whole path
components*:

  stateless     any(<filter>.is_excluded(a) for a in p.parents)
  with a record E of the excluded directories met so far (filled inside the loop, parents are listed before their children):
                any(d in p.parents for d in E)            any(a in E for a in p.parents)        not E.isdisjoint(p.parents)
                E & set(p.parents)  /  E.intersection(p.parents)                                any(p.is_relative_to(d) for d in E)
                any(p.parts[:len(d.parts)] == d.parts for d in E)
                str(p).startswith(E) / any(str(p).startswith(d) for d in E)     when E holds  str(d) + os.sep  /  f"{d}/"  / os.path.join(d, "")
                any(str(p).startswith(str(d) + os.sep) for d in E)  /  str(p).startswith(tuple(str(d) + os.sep for d in E))
  os.walk       `dirs[:] = [d for d in dirs if not <filter>.is_excluded(<root>/d)]` (in-place pruning, see c08_scan.walk_invariant)

A prefix test on the path *string* whose needle does not provably end with a path separator (`str(p).startswith(E)` with E holding
`str(d)`, `any(str(p).startswith(str(d)) ...)`) is NOT such a test: next to an excluded `gen/` it also drops `gen_utils.py`, `genius.py`
and `general/`.  It stays an opaque atom (so nothing is discharged by it) and is named in the VIOLATION.

The record itself is checked: it is filled only with excluded paths and with every excluded directory that is reached
(`ISDIR and EXCL and not ANC  =>  guard of the add  =>  EXCL`).
"""

from __future__ import annotations

import ast
from dataclasses import dataclass, field

from core.fold import fold
from core.guards import atom
from core.loader import FuncInfo, norm, own_nodes, parent

ANC = atom("ANC(path)")
RECL = atom("RECLIST(path)")
SEP_NAMES = {"os.sep", "os.path.sep", "posixpath.sep"}
STR_CALLS = {"str"}
STR_LIBS = {"os.fspath"}
STR_METHODS = {"as_posix", "__str__", "__fspath__"}


def lib_name(repo, fi: FuncInfo, call: ast.Call) -> str:
    f = call.func
    if isinstance(f, (ast.Name, ast.Attribute)):
        return repo.resolve_name(fi.module, f) or ""
    return ""


def is_recursive_listing(repo, g: FuncInfo, n: ast.AST) -> bool:
    if not isinstance(n, ast.Call):
        return False
    f = n.func
    if isinstance(f, ast.Attribute) and f.attr == "rglob":
        return True
    if isinstance(f, ast.Attribute) and f.attr == "glob" and n.args:
        pat = fold(repo, g.module, n.args[0], g)
        return pat is None or "**" in pat
    return lib_name(repo, g, n) in ("os.walk", "os.fwalk", "glob.glob", "glob.iglob") and (lib_name(repo, g, n).startswith("os.") or any(k.arg == "recursive" for k in n.keywords))


def is_separator(scan, g: FuncInfo, e: ast.expr) -> bool:
    if isinstance(e, ast.Constant):
        return e.value in ("/", "\\")
    if isinstance(e, (ast.Name, ast.Attribute)):
        fq = scan.repo.resolve_name(g.module, e)
        if fq in SEP_NAMES:
            return True
        s = fold(scan.repo, g.module, e, g)
        return s in ("/", "\\")
    return False


def str_form(scan, g: FuncInfo, e: ast.expr) -> ast.expr | None:
    """The path expression x if `e` is the plain string of x (`str(x)`, `os.fspath(x)`, `x.as_posix()`, f"{x}"), else None."""
    if isinstance(e, ast.Call) and len(e.args) == 1 and not e.keywords:
        if (isinstance(e.func, ast.Name) and e.func.id in STR_CALLS) or lib_name(scan.repo, g, e) in STR_LIBS:
            return e.args[0]
    if isinstance(e, ast.Call) and not e.args and isinstance(e.func, ast.Attribute) and e.func.attr in STR_METHODS:
        return e.func.value
    if isinstance(e, ast.JoinedStr) and len(e.values) == 1 and isinstance(e.values[0], ast.FormattedValue) and e.values[0].format_spec is None:
        return e.values[0].value
    return None


def with_separator(scan, g: FuncInfo, e: ast.expr) -> ast.expr | None:
    """The path / string expression x if `e` is x's string followed by a path separator, else None."""
    if isinstance(e, ast.BinOp) and isinstance(e.op, ast.Add) and is_separator(scan, g, e.right):
        return str_form(scan, g, e.left) or e.left
    if isinstance(e, ast.JoinedStr) and len(e.values) == 2 and isinstance(e.values[0], ast.FormattedValue) and e.values[0].format_spec is None:
        last = e.values[1]
        if (isinstance(last, ast.Constant) and last.value in ("/", "\\")) or (isinstance(last, ast.FormattedValue) and is_separator(scan, g, last.value)):
            return e.values[0].value
    if isinstance(e, ast.Call) and lib_name(scan.repo, g, e) == "os.path.join" and len(e.args) == 2 and isinstance(e.args[1], ast.Constant) and e.args[1].value == "":
        return str_form(scan, g, e.args[0]) or e.args[0]
    return None


def join_parts(scan, g: FuncInfo, e: ast.expr):
    """(directory expression, entry expression) if `e` builds the path of an entry of a directory: d / x, os.path.join(d, x), Path(d, x), d.joinpath(x)."""
    if isinstance(e, ast.Call) and isinstance(e.func, ast.Name) and e.func.id in ("Path", "PurePath", "str") and len(e.args) == 1 and not e.keywords:
        inner = join_parts(scan, g, e.args[0])
        if inner is not None:
            return inner
    if isinstance(e, ast.BinOp) and isinstance(e.op, ast.Div):
        return e.left, e.right
    if isinstance(e, ast.Call) and len(e.args) == 2 and not e.keywords:
        if lib_name(scan.repo, g, e) == "os.path.join" or (isinstance(e.func, ast.Name) and e.func.id in ("Path", "PurePath")):
            return e.args[0], e.args[1]
    if isinstance(e, ast.Call) and isinstance(e.func, ast.Attribute) and e.func.attr == "joinpath" and len(e.args) == 1 and not e.keywords:
        return e.func.value, e.args[0]
    return None


def walk_pruned(scan, g: FuncInfo, loop: ast.For, R: frozenset) -> bool:
    """os.walk loop `for root, dirs, files in os.walk(p)`: is `dirs` pruned in place from every excluded sub-directory before the
    walk goes on (`dirs[:] = [d for d in dirs if not <pred>(<root>/d)]`, or emptied on every earlier `continue`)?"""
    if not (isinstance(loop.target, (ast.Tuple, ast.List)) and len(loop.target.elts) == 3 and isinstance(loop.target.elts[1], ast.Name)):
        return False
    dirs = loop.target.elts[1].id
    fx = scan.facts(g)

    def slice_all(t: ast.expr) -> bool:
        return isinstance(t, ast.Subscript) and isinstance(t.value, ast.Name) and t.value.id == dirs and isinstance(t.slice, ast.Slice) and t.slice.lower is None and t.slice.upper is None

    def empties(st: ast.stmt) -> bool:
        if isinstance(st, ast.Assign) and len(st.targets) == 1 and slice_all(st.targets[0]) and _is_empty(st.value):
            return True
        if isinstance(st, ast.Expr) and isinstance(st.value, ast.Call) and isinstance(st.value.func, ast.Attribute) and st.value.func.attr == "clear" and isinstance(st.value.func.value, ast.Name) and st.value.func.value.id == dirs:
            return True
        return isinstance(st, ast.Delete) and len(st.targets) == 1 and slice_all(st.targets[0])

    def pred_on_child(test: ast.expr, var: str, negated: bool) -> bool:
        if isinstance(test, ast.UnaryOp) and isinstance(test.op, ast.Not):
            return pred_on_child(test.operand, var, not negated)
        if not negated or not isinstance(test, ast.Call) or not scan.is_pred(g, test):
            return False
        arg = test.args[0] if test.args else test.keywords[0].value
        jp = join_parts(scan, g, arg)
        return jp is not None and fx.is_alias(jp[0], R) and isinstance(jp[1], ast.Name) and jp[1].id == var

    def prunes(st: ast.stmt) -> bool:
        if isinstance(st, ast.Assign) and len(st.targets) == 1 and slice_all(st.targets[0]):
            v = st.value
            if isinstance(v, ast.Call) and isinstance(v.func, ast.Name) and v.func.id in ("list", "sorted") and len(v.args) == 1:
                v = v.args[0]
            if isinstance(v, (ast.ListComp, ast.GeneratorExp)) and len(v.generators) == 1:
                gen = v.generators[0]
                if isinstance(gen.target, ast.Name) and isinstance(gen.iter, ast.Name) and gen.iter.id == dirs and isinstance(v.elt, ast.Name) and v.elt.id == gen.target.id and len(gen.ifs) >= 1:
                    return any(pred_on_child(c, gen.target.id, False) for c in gen.ifs)
        if isinstance(st, ast.For) and isinstance(st.target, ast.Name) and len(st.body) == 1 and isinstance(st.body[0], ast.If) and not st.body[0].orelse:
            it = st.iter
            copy = (isinstance(it, ast.Call) and isinstance(it.func, ast.Name) and it.func.id in ("list", "tuple") and len(it.args) == 1 and isinstance(it.args[0], ast.Name) and it.args[0].id == dirs) or slice_all(it)
            inner = st.body[0]
            if copy and len(inner.body) == 1 and isinstance(inner.body[0], ast.Expr) and isinstance(inner.body[0].value, ast.Call) and isinstance(inner.body[0].value.func, ast.Attribute) and inner.body[0].value.func.attr == "remove" and norm(inner.body[0].value.func.value) == dirs:
                return pred_on_child(inner.test, st.target.id, True)
        return False

    idx = next((i for i, st in enumerate(loop.body) if prunes(st)), None)
    if idx is None:
        # a pruning loop over the very list it removes from skips the element after each removed one
        for st in loop.body:
            if isinstance(st, ast.For) and isinstance(st.iter, ast.Name) and st.iter.id == dirs:
                for n in ast.walk(st):
                    if (isinstance(n, ast.Call) and isinstance(n.func, ast.Attribute) and n.func.attr in ("remove", "pop") and norm(n.func.value) == dirs) or (isinstance(n, ast.Delete) and any(isinstance(t, ast.Subscript) and norm(t.value) == dirs for t in n.targets)):
                        note = f"`{norm(n, 50)}` inside `for {norm(st.target, 20)} in {dirs}` removes from the list being iterated: the entry after each removed one is never tested, so of two adjacent excluded sub-directories the second is still walked (iterate over a copy, or assign `{dirs}[:] = [...]`)"
                        notes = getattr(scan, "walk_notes", None)
                        if notes is not None and note not in notes:
                            notes.append(note)
        return False

    def continues_ok(block: list) -> bool:
        emptied = False
        for st in block:
            if empties(st):
                emptied = True
            if isinstance(st, ast.Continue) and not emptied:
                return False
            for fld in ("body", "orelse", "finalbody"):
                sub = getattr(st, fld, None)
                if isinstance(sub, list) and sub and isinstance(sub[0], ast.stmt) and not isinstance(st, (ast.For, ast.While, ast.FunctionDef)):
                    if not continues_ok_nested(sub, emptied):
                        return False
        return True

    def continues_ok_nested(block: list, emptied: bool) -> bool:
        for st in block:
            if empties(st):
                emptied = True
            if isinstance(st, ast.Continue) and not emptied:
                return False
            for fld in ("body", "orelse", "finalbody"):
                sub = getattr(st, fld, None)
                if isinstance(sub, list) and sub and isinstance(sub[0], ast.stmt) and not isinstance(st, (ast.For, ast.While, ast.FunctionDef)):
                    if not continues_ok_nested(sub, emptied):
                        return False
        return True

    return continues_ok(loop.body[:idx])


@dataclass
class Record:
    key: str  # `name` or `self.attr`
    kinds: set = field(default_factory=set)  # path | str | strsep | ?
    adds: list = field(default_factory=list)  # (function, statement node, variable the element is made of)
    other_writes: list = field(default_factory=list)


def _single(value: ast.expr) -> ast.expr | None:
    if isinstance(value, (ast.Tuple, ast.List, ast.Set)) and len(value.elts) == 1 and not isinstance(value.elts[0], ast.Starred):
        return value.elts[0]
    return None


def _is_empty(v: ast.expr) -> bool:
    return (isinstance(v, (ast.Tuple, ast.List)) and not v.elts) or (isinstance(v, ast.Call) and isinstance(v.func, ast.Name) and v.func.id in ("set", "list", "tuple", "frozenset", "deque") and not v.args) or (isinstance(v, ast.Dict) and not v.keys)


def classify_element(scan, g: FuncInfo, x: ast.expr) -> tuple[str, str] | None:
    """(kind, variable) of an element stored in a record: the path itself, its string, or its string + separator."""
    fx = scan.facts(g)
    w = with_separator(scan, g, x)
    if w is not None:
        v = fx.alias_name(w)
        return ("strsep", v) if v else None
    s = str_form(scan, g, x)
    if s is not None:
        v = fx.alias_name(s)
        return ("str", v) if v else None
    v = fx.alias_name(x)
    if v is not None:
        return ("path", v)
    return None


def collect_records(scan) -> dict[str, Record]:
    """Collections that are filled, one element at a time, with (a form of) a path variable: candidates for 'excluded so far'."""
    out: dict[str, Record] = {}

    def rec(g: FuncInfo, key: str) -> Record:
        k = key if key.startswith("self.") else f"{g.fq}::{key}"
        return out.setdefault(k, Record(key))

    for g in scan.U:
        for n in own_nodes(g.node):
            tgt = elem = None
            if isinstance(n, ast.AugAssign) and isinstance(n.op, (ast.Add, ast.BitOr)):
                tgt, elem = n.target, _single(n.value)
            elif isinstance(n, ast.Call) and isinstance(n.func, ast.Attribute) and n.func.attr in ("append", "add", "appendleft") and len(n.args) == 1:
                tgt, elem = n.func.value, n.args[0]
            elif isinstance(n, ast.Assign) and len(n.targets) == 1 and isinstance(n.targets[0], (ast.Name, ast.Attribute)):
                t, v = n.targets[0], n.value
                if isinstance(v, ast.BinOp) and isinstance(v.op, (ast.Add, ast.BitOr)) and norm(v.left) == norm(t):
                    tgt, elem = t, _single(v.right)
                elif isinstance(v, (ast.Tuple, ast.List, ast.Set)) and len(v.elts) == 2 and isinstance(v.elts[0], ast.Starred) and norm(v.elts[0].value) == norm(t) and not isinstance(v.elts[1], ast.Starred):
                    tgt, elem = t, v.elts[1]
            if tgt is None or elem is None or not isinstance(tgt, (ast.Name, ast.Attribute)):
                continue
            key = norm(tgt)
            if isinstance(tgt, ast.Attribute) and not (isinstance(tgt.value, ast.Name) and tgt.value.id == "self"):
                continue
            ce = classify_element(scan, g, elem)
            r = rec(g, key)
            if ce is None:
                r.kinds.add("?")
                r.other_writes.append((g, n))
            else:
                r.kinds.add(ce[0])
                r.adds.append((g, n, ce[1]))
    return out


def record_of(scan, g: FuncInfo, e: ast.expr) -> Record | None:
    if isinstance(e, ast.Call) and isinstance(e.func, ast.Name) and e.func.id in ("tuple", "list", "set", "frozenset") and len(e.args) == 1:
        e = e.args[0]
    if not isinstance(e, (ast.Name, ast.Attribute)):
        return None
    key = norm(e)
    recs = scan.records()
    bound = scan.rec_bind.get(g.fq, {})
    got = bound[key] if key in bound else recs.get(key if key.startswith("self.") else f"{g.fq}::{key}")
    if got is not None:
        scan._rec_seen.append(got)
    return got


def _same_var(a: ast.expr, name: str) -> bool:
    return isinstance(a, ast.Name) and a.id == name


def anc_test(scan, g: FuncInfo, e: ast.expr, R: frozenset | None):
    """"anc" if `e` (evaluated for truth) is a component-wise 'lies below an excluded directory' test on the tracked path,
    ("bug", text) if it is a raw string-prefix test without separator, None if it is something else."""
    fx = scan.facts(g)
    if not R:
        return None

    def tracked_path(x: ast.expr) -> bool:
        return fx.is_alias(x, R) and str_form(scan, g, x) is None and with_separator(scan, g, x) is None

    def tracked_str(x: ast.expr) -> bool:
        s = str_form(scan, g, x)
        if s is not None and fx.is_alias(s, R):
            return True
        # a local holding str(path)
        if isinstance(x, ast.Name):
            bs = fx.bind.get(x.id, [])
            if len(bs) == 1 and bs[0][0] == "val" and x.id not in fx.params:
                return tracked_str(bs[0][1])
        return False

    def parents_of_tracked(x: ast.expr) -> bool:
        if isinstance(x, ast.Call) and isinstance(x.func, ast.Name) and x.func.id in ("set", "list", "tuple", "frozenset") and len(x.args) == 1:
            x = x.args[0]
        return isinstance(x, ast.Attribute) and x.attr == "parents" and tracked_path(x.value)

    def needle(d: ast.expr, var: str, rec: Record):
        """How a per-element needle `d` relates to the record's element kind: "sep" (ends with a separator) | "raw" | None."""
        kinds = rec.kinds
        if _same_var(d, var):
            if kinds == {"strsep"}:
                return "sep"
            if kinds <= {"str"} and kinds:
                return "raw"
            return None
        w = with_separator(scan, g, d)
        if w is not None and (_same_var(w, var) or (str_form(scan, g, w) is not None and _same_var(str_form(scan, g, w), var))) and kinds <= {"str", "path"} and kinds:
            return "sep"
        s = str_form(scan, g, d)
        if s is not None and _same_var(s, var) and kinds <= {"str", "path"} and kinds:
            return "raw"
        return None

    # ---- X.startswith(Y) on the path's string
    if isinstance(e, ast.Call) and isinstance(e.func, ast.Attribute) and e.func.attr == "startswith" and len(e.args) == 1 and tracked_str(e.func.value):
        y = e.args[0]
        rec = record_of(scan, g, y)
        if rec is not None:
            if rec.kinds == {"strsep"}:
                return "anc"
            if rec.kinds and rec.kinds <= {"str"}:
                return ("bug", f"`{norm(e, 70)}` is a prefix test on the path string and `{rec.key}` holds plain strings without a trailing path separator")
            return None
        if isinstance(y, ast.Call) and isinstance(y.func, ast.Name) and y.func.id == "tuple" and len(y.args) == 1 and isinstance(y.args[0], (ast.GeneratorExp, ast.ListComp)) and len(y.args[0].generators) == 1:
            gen = y.args[0].generators[0]
            rec = record_of(scan, g, gen.iter)
            if rec is not None and isinstance(gen.target, ast.Name) and not gen.ifs:
                nd = needle(y.args[0].elt, gen.target.id, rec)
                if nd == "sep":
                    return "anc"
                if nd == "raw":
                    return ("bug", f"`{norm(e, 70)}` is a prefix test on the path string without a trailing path separator")
        return None
    # ---- any(...)
    if isinstance(e, ast.Call) and isinstance(e.func, ast.Name) and e.func.id == "any" and len(e.args) == 1:
        a = e.args[0]
        if isinstance(a, ast.Call) and isinstance(a.func, ast.Name) and a.func.id == "map" and len(a.args) == 2 and parents_of_tracked(a.args[1]):
            probe = ast.Call(func=a.args[0], args=[ast.Name(id="_a", ctx=ast.Load())], keywords=[])
            ast.copy_location(probe, a)
            if isinstance(a.args[0], (ast.Name, ast.Attribute)) and scan.is_pred(g, probe):
                return "anc"
            return None
        if not isinstance(a, (ast.GeneratorExp, ast.ListComp)) or len(a.generators) != 1 or not isinstance(a.generators[0].target, ast.Name):
            return None
        gen = a.generators[0]
        var = gen.target.id
        elt = a.elt
        # stateless: any(filter.is_excluded(a) for a in p.parents)
        if parents_of_tracked(gen.iter):
            if isinstance(elt, ast.Call) and scan.is_pred(g, elt) and _same_var(elt.args[0] if elt.args else elt.keywords[0].value, var):
                if all(_names_subset(c, {var} | set(scan.a.entry.param_names) | set(g.param_names)) for c in gen.ifs):
                    return "anc"
                return None
            # any(a in E for a in p.parents)
            if isinstance(elt, ast.Compare) and len(elt.ops) == 1 and isinstance(elt.ops[0], ast.In) and not gen.ifs:
                rec = record_of(scan, g, elt.comparators[0])
                if rec is not None:
                    if _same_var(elt.left, var) and rec.kinds == {"path"}:
                        return "anc"
                    s = str_form(scan, g, elt.left)
                    if s is not None and _same_var(s, var) and rec.kinds == {"str"}:
                        return "anc"
            return None
        rec = record_of(scan, g, gen.iter)
        if rec is None or gen.ifs:
            return None
        # any(d in p.parents for d in E)
        if isinstance(elt, ast.Compare) and len(elt.ops) == 1 and isinstance(elt.ops[0], ast.In) and parents_of_tracked(elt.comparators[0]):
            if (_same_var(elt.left, var) and rec.kinds == {"path"}) or (isinstance(elt.left, ast.Call) and isinstance(elt.left.func, ast.Name) and elt.left.func.id in ("Path", "PurePath") and len(elt.left.args) == 1 and _same_var(elt.left.args[0], var) and rec.kinds <= {"str", "strsep", "path"}):
                return "anc"
            return None
        # any(p.is_relative_to(d) for d in E)
        if isinstance(elt, ast.Call) and isinstance(elt.func, ast.Attribute) and elt.func.attr == "is_relative_to" and len(elt.args) == 1 and tracked_path(elt.func.value) and _same_var(elt.args[0], var) and "?" not in rec.kinds:
            return "anc"
        # any(p.parts[:len(d.parts)] == d.parts for d in E)
        if isinstance(elt, ast.Compare) and len(elt.ops) == 1 and isinstance(elt.ops[0], ast.Eq) and rec.kinds == {"path"}:
            for a1, b1 in ((elt.left, elt.comparators[0]), (elt.comparators[0], elt.left)):
                if isinstance(b1, ast.Attribute) and b1.attr == "parts" and _same_var(b1.value, var) and isinstance(a1, ast.Subscript) and isinstance(a1.value, ast.Attribute) and a1.value.attr == "parts" and tracked_path(a1.value.value) and isinstance(a1.slice, ast.Slice) and a1.slice.lower is None and norm(a1.slice.upper) == f"len({var}.parts)":
                    return "anc"
        # any(str(p).startswith(<needle of d>) for d in E)
        if isinstance(elt, ast.Call) and isinstance(elt.func, ast.Attribute) and elt.func.attr == "startswith" and len(elt.args) == 1 and tracked_str(elt.func.value):
            nd = needle(elt.args[0], var, rec)
            if nd == "sep":
                return "anc"
            if nd == "raw":
                return ("bug", f"`{norm(elt, 70)}` is a prefix test on the path string without a trailing path separator")
        return None
    # ---- set operations with p.parents
    if isinstance(e, ast.Call) and isinstance(e.func, ast.Attribute) and e.func.attr in ("intersection", "isdisjoint") and len(e.args) == 1:
        for box, other in ((e.func.value, e.args[0]), (e.args[0], e.func.value)):
            rec = record_of(scan, g, box)
            if rec is not None and rec.kinds == {"path"} and parents_of_tracked(other):
                return "anc" if e.func.attr == "intersection" else "not-anc"
        return None
    if isinstance(e, ast.BinOp) and isinstance(e.op, ast.BitAnd):
        for box, other in ((e.left, e.right), (e.right, e.left)):
            rec = record_of(scan, g, box)
            if rec is not None and rec.kinds == {"path"} and parents_of_tracked(other):
                return "anc"
    return None


def _names_subset(e: ast.AST, allowed: set[str]) -> bool:
    return {n.id for n in ast.walk(e) if isinstance(n, ast.Name)} <= allowed | {"self", "len", "str", "Path"}


def reversed_order(e: ast.AST) -> bool:
    for n in ast.walk(e):
        if isinstance(n, ast.Call) and isinstance(n.func, ast.Name) and n.func.id == "reversed":
            return True
        if isinstance(n, ast.Call) and any(k.arg == "reverse" and not (isinstance(k.value, ast.Constant) and k.value.value is False) for k in n.keywords):
            return True
        if isinstance(n, ast.Call) and any(k.arg == "topdown" and not (isinstance(k.value, ast.Constant) and k.value.value is True) for k in n.keywords):
            return True
    return False
