"""Differential test of the symbolic string operations of rules/c08_streval.py: every operation (and every pair of operations) applied to
the symbolic glob  P + X + S  must, whenever it does not give up with `Unknown`, concretise to what Python computes on P + x + S for every
text x over a small alphabet that satisfies the assumed facts about X.  Expected output: `bad 0`."""
import sys, itertools, re
from pathlib import Path
sys.path.insert(0, str(Path(__file__).resolve().parents[2]))
from rules.c08_streval import *
from rules.c08_streval import _mk_int
def conc(v, X):
    if not isinstance(v, SymStr): return v
    out = ""
    for p in v.pieces:
        if p[0] == "lit": out += p[1]
        else:
            if p[0] == "head": out += X[:1]; continue
            if p[0] == "tail": out += X[-1:]; continue
            seg = X[p[1]:len(X)-p[2]] if len(X)-p[2] >= p[1] else ""
            out += seg if p[0] == "raw" else re.escape(seg)
    return out
def concint(v, X):
    return v.c + v.k * len(X) if isinstance(v, SymInt) else v
ops = []
for i in (None, 0, 1, 2, -1, True, False):
    for j in (None, -1, -2, 0, 1, "len", "len-1", "len-2"):
        ops.append(("slice", i, j))
for name in ("strip", "lstrip", "rstrip", "removeprefix", "removesuffix", "startswith", "endswith"):
    for arg in ("*", "**", ".*"):
        ops.append((name, arg))
ops.append(("escape",))
ops.append(("eq", "*"))
ops.append(("eq", "a"))
ops.append(("index", 0))
ops.append(("index", -1))
ops.append(("len",))
def apply_sym(v, op, x):
    if isinstance(v, (bool, int)) or isinstance(v, SymInt): raise Unknown(None, "n/a")
    if op[0] == "slice":
        def b(j):
            if j == "len": return sym_len(v) if isinstance(v, SymStr) else len(v)
            if isinstance(j, str): 
                base = sym_len(v) if isinstance(v, SymStr) else len(v)
                k = int(j[3:])
                return _mk_int(base.c + k, base.k) if isinstance(base, SymInt) else base + k
            return j
        lo, up = b(op[1]), b(op[2])
        if isinstance(v, SymStr): return sym_slice(v, lo, up, None)
        return v[lo:up]
    if op[0] == "escape": return sym_escape(v)
    if op[0] == "len": return sym_len(v) if isinstance(v, SymStr) else len(v)
    if op[0] == "eq": return sym_eq(v, op[1], None, x) if isinstance(v, SymStr) else v == op[1]
    if op[0] == "index":
        if not isinstance(v, SymStr): return v[op[1]]
        import ast as _ast
        ev = Evaluator.__new__(Evaluator); ev.x = x; ev.steps = 0; ev.budget = 10**6
        return ev.e_Subscript(_ast.parse(f"m[{op[1]}]", mode="eval").body, {"m": v}, None)
    ev = Evaluator.__new__(Evaluator); ev.x = x
    if isinstance(v, SymStr): return Evaluator.method(ev, v, op[0], [op[1]], {}, None)
    return getattr(v, op[0])(op[1])
def apply_conc(s, op):
    if not isinstance(s, str): raise Unknown(None, "n/a")
    if op[0] == "slice":
        def b(j):
            if j == "len": return len(s)
            if isinstance(j, str): return len(s) + int(j[3:])
            return j
        return s[b(op[1]):b(op[2])]
    if op[0] == "escape": return re.escape(s)
    if op[0] == "len": return len(s)
    if op[0] == "eq": return s == op[1]
    if op[0] == "index": return s[op[1]]
    return getattr(s, op[0])(op[1])
alpha = "*a."
Xs = ["".join(t) for n in (1,2,3) for t in itertools.product(alpha, repeat=n)]
bad = 0; total = 0; unknown = 0
for P in ("", "*"):
  for S in ("", "*"):
    for fns, lns in ((False, False), (True, False), (False, True), (True, True)):
        if P and fns: continue   # constraint only makes sense without prefix? keep general: constraint on X itself
        x = XInfo(fns, lns)
        m = mk([("lit", P), ("raw", 0, 0), ("lit", S)])
        for op1 in ops:
            for op2 in [None] + ops:
                try:
                    r = apply_sym(m, op1, x)
                    if op2 is not None: r = apply_sym(r, op2, x)
                except Unknown:
                    unknown += 1; continue
                except Exception as e:
                    # python errors on symbolic path: compare with concrete raising
                    r = ("EXC", type(e).__name__)
                for X in Xs:
                    if fns and X.startswith("*"): continue
                    if lns and X.endswith("*"): continue
                    total += 1
                    try:
                        c = apply_conc(P + X + S, op1)
                        if op2 is not None: c = apply_conc(c, op2)
                    except Unknown:
                        continue
                    except Exception as e:
                        c = ("EXC", type(e).__name__)
                    got = concint(conc(r, X), X) if not isinstance(r, tuple) else r
                    if got != c:
                        bad += 1
                        if bad < 15: print("MISMATCH", repr(P), repr(X), repr(S), x, op1, op2, "sym:", r, "->", got, "conc:", c)
print("total", total, "bad", bad, "unknown", unknown)
