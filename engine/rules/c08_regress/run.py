#!/venv/bin/python
"""Regression corpus of the C08 rules (not part of check.py; run it after changing a C08 rule).

Every `*.diff` next to this file is a hand-written variant of /repo's HEAD (apply with `git apply -p2`; the newer ones, whose header
reads `a/src/...`, with -p1; `*rg*` / `*wk*` are flat enumerations of a recursive listing: rglob / glob('**') / os.walk):

    silent_<name>.diff      a behaviour-preserving re-write (recursive walk, generator walker in another module, filter at push time,
                            isinstance dispatch, first-match helpers, flag loops, option dataclass, build loops, ...): exit 0 expected
    undecided_<name>.diff   a shape the rules deliberately do not decide: no VIOLATION, exit 2 expected (none at present: the one
                            combined regex is decided as a C08.R2 VIOLATION, R2_f6_* / R2_h7_*)
    R<n>_<name>.diff        one of the silent variants with a defect seeded into it: a VIOLATION of C08.R<n> expected

usage: run.py [name-substring ...]
"""
import multiprocessing as mp
import shutil
import subprocess
import sys
import tempfile
from pathlib import Path

HERE = Path(__file__).resolve().parent
ENGINE = HERE.parents[1]
sys.path.insert(0, str(ENGINE))


def one(diff: Path):
    import check
    from core.loader import AnalysisError

    tmp = Path(tempfile.mkdtemp(prefix="c08-regress-"))
    try:
        subprocess.run(f"git -C /repo archive HEAD src docs | tar -x -C {tmp}", shell=True, check=True)
        subprocess.run(["git", "init", "-q", "."], cwd=tmp, capture_output=True)
        strip = "-p1" if diff.read_text().startswith("diff --git a/src") else "-p2"
        r = subprocess.run(["git", "apply", strip, "--whitespace=nowarn", str(diff)], cwd=tmp, capture_output=True, text=True)
        if r.returncode != 0:
            return diff.name, "SKIP", "does not apply to today's /repo"
        want = diff.name.split("_", 1)[0]
        try:
            res = check.analyse("C08", tmp)
            fired = sorted({o.rule for o in res.violations})
            got = "silent" if not fired else ",".join(fired)
            detail = "; ".join(f"{o.rule} {o.construct[-60:]}" for o in res.violations[:2])
        except AnalysisError as e:
            fired, got, detail = [], "undecided", str(e)[:160]
        ok = (want == "silent" and got == "silent") or (want == "undecided" and got == "undecided") or (want.startswith("R") and f"C08.{want}" in fired)
        return diff.name, "ok" if ok else "FAIL", f"{got} {detail}"
    finally:
        shutil.rmtree(tmp, ignore_errors=True)


def main() -> int:
    sel = sys.argv[1:]
    diffs = [d for d in sorted(HERE.glob("*.diff")) if not sel or any(s in d.name for s in sel)]
    with mp.get_context("fork").Pool(12) as pool:
        results = pool.map(one, diffs)
    bad = 0
    for name, status, detail in results:
        if status != "ok":
            bad += status == "FAIL"
            print(f"{status:5} {name}: {detail}")
    print(f"{len(results) - bad}/{len(results)} as expected")
    return 1 if bad else 0


if __name__ == "__main__":
    sys.exit(main())
