"""C08.R3 - the exclusion test dominates every effect of the directory scan, decided on roles instead of names.

Anchors (nothing here depends on a private name):
  * the scan is the class (or module) that lists directories (`.iterdir()` / os.listdir / os.scandir) and parses sources (`ast.parse`);
    its entry points are its public methods from which a listing call is reachable;
  * the exclusion predicate is the one-argument method of a repo class that applies regular expressions (re.match & friends) and is
    called from the scan (today `FileFilter.is_excluded`).

Events of the scan (found in every function reachable from the entry inside the scan's module):
    descend   `<p>.iterdir()`, os.listdir(p), os.scandir(p)
              rglob / glob('**') / os.walk descend by themselves: every path taken from them must additionally be guarded by
              `not ANC` = "no excluded directory above it" (component-wise pruning tests, see c08_recursive.py; a raw string-prefix
              test is a VIOLATION); an entry `d / x` of such a directory inherits `not ANC` from `not ANC(d) and not EXCL(d)`
    read      open(p), p.open(), p.read_text(), p.read_bytes()
    parse     ast.parse(<text read from p>)
    register  something derived from p is added to a collection that the entry returns (append / add / extend / insert / += / d[k] = v)

Every event has a *subject path* p (traced through `with open(p) as f`, `f.read()`, helper calls, attributes).  Its guard is the path
condition inside its function, conjoined - when p is a parameter - with the guard of every call site (recursively), or - when p is
the loop variable of a `for ... in <generator>()` - with the guard of every `yield` of that generator.  Guards are formulas over three
canonical atoms about *the subject path or an alias of it* (`x.resolve()`, `x.absolute()`, `Path(x)`, `str(x)`, copies):

    EXCL   <filter>.is_excluded(alias)        PY   alias.suffix == ".py"        ISDIR   alias.is_dir()

plus opaque atoms for everything else; boolean locals are copy-propagated and calls of repo helpers are replaced by the truth
condition of their result (`if self._file_should_be_parsed(p)`, `if parsed_file:` where parsed_file = self._parse_file(p)).
Requirement: guard => not EXCL for every event, and (guard and ISFILE) => PY for every read / parse / register event.  The predicate
applied to something that is not an alias of the path (`p.name`, `p.parent`) is an opaque atom, so such a gate discharges nothing
(VIOLATION, naming what the test was applied to).

Further ingredients
  * work lists: a path taken out of a list by `.pop()` inherits the disjunction of the guards under which paths are put into that
    list (initial content, append, `extend(c for c in ... if ...)`), projected on the canonical atoms - "filter before pushing";
  * forward reachability: next to the syntax-directed conditions of core/cfg a forward pass computes what holds after an `if` whose
    body only sometimes leaves the block; facts about re-assigned / mutated variables are dropped (existentially quantified);
  * helpers of the filter class that wrap the predicate (`filter.is_python_file_to_parse(p)`) are not predicates themselves: their
    result is inlined like any other helper's;
  * a verdict that travels through a container or a variable assigned more than once cannot be followed: such an event is reported
    as undecided (exit 2), never as a violation;
  * records: a generator that yields `Entry(path, flag, ...)` (NamedTuple / dataclass without a constructor of its own, also through
    `yield from <itself>(child)`) produces, in `for entry in walk():`, the values `entry.path` (a path of its own, guarded by each
    yield's guard) and `entry.flag` (atom REC.flag, fixed per yield to the truth of the yielded expression); the same holds inside a
    helper whose parameter receives such a record at every call site;
    a field that is None for one kind of entry (`entry.source_file is None`) is the atom REC.<f>.isnone, a tag field compared with a
    literal (`entry.kind is Kind.DIRECTORY`, `== "dir"`) the atom REC.<f>==<literal>, both fixed per yield; `for path, flag in walk()`
    unpacks NamedTuple records in field order; a value assigned on several branches that meet again is derived from all assignments;
  * `x is None` / `x is not None` where x is the result of a repo helper that returns None on some paths: "not None" is the
    disjunction of the path conditions of the helper's other `return <value>` statements (conjoined with an atom of its own unless
    the value plainly is an object: constructor call, literal, `f.read()`, str(...), ...);
  * os.walk with in-place pruning (`dirs[:] = [d for d in dirs if not excluded(root / d)]`, or a removal loop over a *copy*): no root
    has an excluded directory above it, and when the start path is known not to be excluded where the walk begins no root is excluded
    itself.  Pruning at the directory itself is accepted as well: `if excluded(root): dirs.clear()` (also
    `del dirs[:]`, `dirs[:] = []`; usually followed by `continue`) reached on every run of the body in which the root is excluded, the
    list not being touched otherwise - then nothing below an excluded directory is visited (the root itself still has to be tested
    by the body).  Neither counts when the walk is materialised first (`sorted(os.walk(..))`).  A removal loop over the list being iterated is not a pruning (it skips the entry after each removed one) and is named
    in the VIOLATION.
"""

from __future__ import annotations

import ast
from dataclasses import dataclass, field

from core.fold import fold
from core.guards import FALSE, TRUE, Formula, atom, f_and, f_not, f_or, implies, satisfiable
from core.loader import AnalysisError, ClassInfo, FuncInfo, Repo, calls_in, norm, own_nodes, parent
from core.report import Result

from . import c08_recursive as rcs
from .c08_recursive import ANC, RECL
from .common import conds, is_attr_call, reachable_funcs, stmt_of, types_of, where

EXCL, PY, ISDIR, ISFILE = atom("EXCL(path)"), atom("PY(path)"), atom("ISDIR(path)"), atom("ISFILE(path)")
CONSTRAINTS = f_or([f_not(ISFILE), f_not(ISDIR)])
ALIAS_METHODS = {"resolve", "absolute", "expanduser"}
ALIAS_FUNCS = {"Path", "str", "PurePath", "PosixPath"}
ALIAS_LIBS = {"os.fspath", "os.path.abspath", "os.path.realpath", "os.path.normpath", "pathlib.Path"}
READ_METHODS = {"read_text", "read_bytes", "open"}
CONTENT_METHODS = {"read", "readlines", "read_text", "read_bytes", "open"}
ADDERS = {"append", "add", "extend", "insert", "appendleft", "update", "extendleft"}
POPPERS = {"pop", "popleft"}
REGEX_FUNCS = {"re.match", "re.search", "re.fullmatch"}
REGEX_METHODS = {"match", "search", "fullmatch"}


@dataclass
class Anchors:
    entry: FuncInfo
    scan_cls: ClassInfo | None
    universe: list[FuncInfo]
    filter_cls: ClassInfo | None
    pred_names: set[str] = field(default_factory=set)  # names under which the predicate is called from the scan
    pred_methods: set[str] = field(default_factory=set)  # names of the predicate's method(s) in the filter class


def lib_name(repo: Repo, fi: FuncInfo, call: ast.Call) -> str:
    f = call.func
    if isinstance(f, (ast.Name, ast.Attribute)):
        return repo.resolve_name(fi.module, f) or ""
    return ""


_regex_cache: dict = {}


def _regex_class(repo: Repo, ci: ClassInfo) -> bool:
    """Does the class apply regular expressions - in its own methods or in the repo helpers they call?"""
    key = (id(repo), ci.fq)
    if key in _regex_cache:
        return _regex_cache[key]
    _regex_cache[key] = False
    from .common import callees_of

    seen: list[FuncInfo] = []
    work = [(m, 0) for m in [*ci.methods.values(), *ci.extra_methods]]
    hit = False
    while work and not hit:
        m, d = work.pop()
        if m in seen:
            continue
        seen.append(m)
        for c in [n for n in ast.walk(m.node) if isinstance(n, ast.Call)]:
            if lib_name(repo, m, c) in REGEX_FUNCS or (isinstance(c.func, ast.Attribute) and c.func.attr in REGEX_METHODS):
                hit = True
                break
            # a bound `re.compile(p).match` kept for later application
            par = parent(c)
            if lib_name(repo, m, c) == "re.compile" and isinstance(par, ast.Attribute) and par.value is c and par.attr in REGEX_METHODS:
                hit = True
                break
        if d < 2:
            for g in callees_of(repo, m, byname=False):
                if g.cls is None or g.cls is ci:
                    work.append((g, d + 1))
    _regex_cache[key] = hit
    return hit


def _proper_predicates(repo: Repo, ci: ClassInfo, call_names: set[str], method_names: set[str]) -> tuple[set[str], set[str]]:
    """Among the one-argument methods of the filter class that outside code calls, the predicates proper are those that do not
    themselves go through another such method (`is_python_file_to_parse` -> `is_excluded`): the others are ordinary helpers that
    the guard formulas look into."""
    allm = [*ci.methods.values(), *ci.extra_methods]
    public: set[str] = set()
    for f in repo.all_functions():
        if f.cls is ci:
            continue
        for c in calls_in(f.node):
            if isinstance(c.func, ast.Attribute) and c.func.attr in ci.methods and len(c.args) + len(c.keywords) == 1:
                public.add(c.func.attr)
    public |= method_names

    def bodies(name: str) -> list[FuncInfo]:
        return [m for m in allm if m.name == name or f"{name}.register" in m.decorators]

    def reaches(name: str, seen: set[str]) -> set[str]:
        out: set[str] = set()
        for m in bodies(name):
            for c in [n for n in ast.walk(m.node) if isinstance(n, ast.Call)]:
                if isinstance(c.func, ast.Attribute) and isinstance(c.func.value, ast.Name) and c.func.value.id in ("self", "cls") and c.func.attr in ci.methods:
                    t = c.func.attr
                    if t == name or t in seen:
                        continue
                    out.add(t)
                    out |= reaches(t, seen | {t, name})
        return out

    proper = {n for n in method_names if not (reaches(n, {n}) & (public - {n}))}
    if not proper:
        return call_names, method_names
    drop = method_names - proper
    return {n for n in call_names if n not in drop}, proper


def discover(repo: Repo) -> Anchors:
    T = types_of(repo)
    listing: list[FuncInfo] = []
    parsing: list[FuncInfo] = []
    for fi in repo.all_functions():
        for c in calls_in(fi.node):
            if is_attr_call(c, "iterdir") or lib_name(repo, fi, c) in ("os.listdir", "os.scandir", "os.walk") or (isinstance(c.func, ast.Attribute) and c.func.attr in ("rglob",)) or rcs.is_recursive_listing(repo, fi, c):
                listing.append(fi)
            if lib_name(repo, fi, c) == "ast.parse":
                parsing.append(fi)
    if not listing:
        raise AnalysisError("no directory listing call (iterdir / os.listdir / os.scandir / os.walk) found in the repository: the scan cannot be located")
    mods = {f.module.name for f in listing}
    # entry point: the innermost public function from which both a listing call and ast.parse are reachable
    from .common import callees_of

    callers: dict[str, set[str]] = {}
    funcs = {f.fq: f for f in repo.all_functions()}
    for f in funcs.values():
        for g in callees_of(repo, f, byname=False):
            callers.setdefault(g.fq, set()).add(f.fq)

    def up(seeds: list[FuncInfo]) -> set[str]:
        seen = {f.fq for f in seeds}
        work = list(seen)
        while work:
            x = work.pop()
            for c in callers.get(x, ()):
                if c not in seen:
                    seen.add(c)
                    work.append(c)
        return seen

    both = up(listing) & (up(parsing) if parsing else up(listing))
    cands = [funcs[q] for q in both if not funcs[q].name.startswith("_") and not isinstance(funcs[q].node, ast.Lambda) and funcs[q].outer is None]
    entries = []
    for c in cands:
        below = reachable_funcs(repo, [c], byname=False)
        if not any(o is not c and o in below for o in cands):
            entries.append(c)
    if len(entries) != 1:
        raise AnalysisError(f"the scan's public entry point is not unique: {sorted(e.qualname for e in entries)} (modules with listing calls: {sorted(mods)})")
    entry = entries[0]
    scan_cls = entry.cls
    reach = reachable_funcs(repo, [entry], byname=False)
    wide = [f for f in reach if not isinstance(f.node, ast.Lambda)]
    # the exclusion predicate: one-argument method of a class that applies regexes, called from the scan
    found: dict[str, tuple[ClassInfo, set[str], set[str]]] = {}
    for g in wide:
        if g.cls is not None and g.cls is not scan_cls and _regex_class(repo, g.cls):
            continue
        for c in calls_in(g.node):
            if not isinstance(c.func, (ast.Attribute, ast.Name)) or len(c.args) + len(c.keywords) != 1:
                continue
            try:
                cs, _how = T.callees(g, c, byname_fallback=False)
            except Exception:  # noqa: BLE001
                continue
            for callee in cs:
                if callee.cls is not None and callee.cls is not scan_cls and callee.name != "__init__" and _regex_class(repo, callee.cls):
                    rec = found.setdefault(callee.cls.fq, (callee.cls, set(), set()))
                    rec[1].add(c.func.attr if isinstance(c.func, ast.Attribute) else c.func.id)
                    rec[2].add(callee.name)
    filter_cls, preds, methods = None, set(), set()
    if len(found) == 1:
        filter_cls, preds, methods = next(iter(found.values()))
        preds, methods = _proper_predicates(repo, filter_cls, preds, methods)
    elif len(found) > 1:
        # several regex-applying classes are called: the one the scan's constructor receives
        for fq, rec in found.items():
            if scan_cls is not None and any(T.param_type(i, p) == ("cls", fq) for i in [repo.lookup_method(scan_cls, "__init__")] if i is not None for p in i.param_names[1:]):
                filter_cls, preds, methods = rec
    if not preds:
        # fall back on the public name
        for g in wide:
            for c in calls_in(g.node):
                if is_attr_call(c, "is_excluded"):
                    preds.add("is_excluded")
                    methods.add("is_excluded")
    universe = [f for f in wide if not (f.cls is not None and filter_cls is not None and (f.cls is filter_cls or repo.is_subclass(f.cls, filter_cls.fq)))]
    anchors = Anchors(entry, scan_cls, universe, filter_cls, preds)
    anchors.pred_methods = methods
    return anchors


# --------------------------------------------------------------------------- per-function facts


class Facts:
    """Bindings, alias classes and subject tracing inside one function."""

    def __init__(self, scan: "Scan", g: FuncInfo) -> None:
        self.scan = scan
        self.g = g
        self.params = [p for p in g.param_names]
        self.bind: dict[str, list[tuple]] = {}
        self._recvars: dict[str, object] = {}
        for n in own_nodes(g.node):
            if isinstance(n, ast.Assign):
                for t in n.targets:
                    self._bind_target(t, n.value)
            elif isinstance(n, ast.AnnAssign) and n.value is not None:
                self._bind_target(n.target, n.value)
            elif isinstance(n, ast.AugAssign) and isinstance(n.target, ast.Name):
                self.bind.setdefault(n.target.id, []).append(("aug", n.value))
            elif isinstance(n, (ast.For, ast.AsyncFor)):
                self._bind_for(n.target, n.iter)
            elif isinstance(n, (ast.With, ast.AsyncWith)):
                for it in n.items:
                    if isinstance(it.optional_vars, ast.Name):
                        self.bind.setdefault(it.optional_vars.id, []).append(("with", it.context_expr))
            elif isinstance(n, ast.NamedExpr) and isinstance(n.target, ast.Name):
                self.bind.setdefault(n.target.id, []).append(("val", n.value))
        # entries of a directory written in place (`d / x`, os.path.join(d, x)) get a synthetic variable of their own
        self.joins: dict[int, str] = {}
        for n in own_nodes(g.node):
            if isinstance(n, (ast.BinOp, ast.Call)) and rcs.join_parts(scan, g, n) is not None:
                par = parent(n)
                if isinstance(par, (ast.Assign, ast.AnnAssign)) and par.value is n:
                    continue  # has a name already
                if isinstance(par, ast.Call) and rcs.join_parts(scan, g, par) is not None and par.args and par.args[0] is n and len(par.args) == 1:
                    continue  # Path(os.path.join(d, x)): the outer expression is the entry
                name = f"<entry {norm(n, 30)}@{getattr(n, 'lineno', 0)}:{getattr(n, 'col_offset', 0)}>"
                self.joins[id(n)] = name
                self.bind.setdefault(name, []).append(("val", n))
        # alias classes (union-find over names)
        self._up: dict[str, str] = {}
        for v, bs in list(self.bind.items()):
            if v in self.params or len(bs) != 1 or bs[0][0] != "val":
                continue
            a = self.alias_name(bs[0][1])
            if a is not None and a != v:
                self._union(v, a)

    def _bind_target(self, t: ast.expr, value: ast.expr) -> None:
        if isinstance(t, ast.Name):
            self.bind.setdefault(t.id, []).append(("val", value))
        elif isinstance(t, (ast.Tuple, ast.List)):
            for i, el in enumerate(t.elts):
                if isinstance(el, ast.Name):
                    if isinstance(value, (ast.Tuple, ast.List)) and len(value.elts) == len(t.elts):
                        self.bind.setdefault(el.id, []).append(("val", value.elts[i]))
                    else:
                        self.bind.setdefault(el.id, []).append(("unpack", value, i))

    def _bind_for(self, t: ast.expr, it: ast.expr) -> None:
        if isinstance(t, ast.Name):
            self.bind.setdefault(t.id, []).append(("for", it, None, t))
        elif isinstance(t, (ast.Tuple, ast.List)):
            for i, el in enumerate(t.elts):
                if isinstance(el, ast.Name):
                    self.bind.setdefault(el.id, []).append(("for", it, i, t))

    def _find(self, x: str) -> str:
        while self._up.get(x, x) != x:
            x = self._up[x]
        return x

    def _union(self, a: str, b: str) -> None:
        ra, rb = self._find(a), self._find(b)
        if ra != rb:
            self._up[ra] = rb

    def reaching(self, use: ast.Name) -> ast.expr | None:
        """Value of the one assignment `name = value` that reaches this use of a variable bound several times: the closest earlier
        statement of an enclosing block that binds the name must be a plain assignment (nothing in between re-binds it)."""
        name = use.id
        st = stmt_of(use)
        while st is not None and st is not self.g.node:
            par = parent(st)
            for fld in ("body", "orelse", "finalbody"):
                blk = getattr(par, fld, None)
                if isinstance(blk, list) and any(x is st for x in blk):
                    i = next(k for k, x in enumerate(blk) if x is st)
                    for prev in reversed(blk[:i]):
                        binds = any(isinstance(n, ast.Name) and n.id == name and isinstance(n.ctx, (ast.Store, ast.Del)) for n in ast.walk(prev))
                        if not binds:
                            continue
                        if isinstance(prev, ast.Assign) and len(prev.targets) == 1 and isinstance(prev.targets[0], ast.Name) and prev.targets[0].id == name:
                            return prev.value
                        if isinstance(prev, ast.AnnAssign) and isinstance(prev.target, ast.Name) and prev.target.id == name and prev.value is not None:
                            return prev.value
                        return None
                    break
            if isinstance(par, (ast.For, ast.AsyncFor, ast.While)):
                # a loop: a binding later in the body reaches the use through the back edge
                if any(isinstance(n, ast.Name) and n.id == name and isinstance(n.ctx, (ast.Store, ast.Del)) for n in ast.walk(par)):
                    return None
            st = par if isinstance(par, ast.stmt) else None
        return None

    def cls_of(self, name: str) -> frozenset:
        r = self._find(name)
        names = {name} | set(self._up) | set(self._up.values())
        return frozenset(n for n in names if self._find(n) == r)

    def record_var(self, name: str):
        """`for name in <generator>()` whose every yield constructs the same record class (NamedTuple / dataclass):
        (iteration source, generator, [(yield, {field: expression inside the generator})]), else None."""
        if name in self._recvars:
            return self._recvars[name]
        self._recvars[name] = None
        if any(isinstance(n, ast.Attribute) and isinstance(n.ctx, (ast.Store, ast.Del)) and isinstance(n.value, ast.Name) and n.value.id == name for n in own_nodes(self.g.node)):
            return None  # the record is modified by the consumer
        bs = self.bind.get(name, [])
        if name in self.params and not bs and self.g is not self.scan.a.entry:
            # a parameter that receives such a record at every call site (`for entry in walk(): self._handle(entry)`)
            got = None
            sites = self.scan.sites.get(self.g.fq, [])
            for h, call in sites:
                a = self.scan.args_by_param(self.g, call).get(name)
                rv = self.scan.facts(h).record_var(a.id) if isinstance(a, ast.Name) and h is not self.g else None
                if rv is None or (got is not None and (rv[1] is not got[1] or list(rv[2][0][1]) != list(got[2][0][1]))):
                    return None
                got = rv
            if got is not None:
                self._recvars[name] = (None, got[1], got[2])
            return self._recvars[name]
        if name in self.params or len(bs) != 1 or bs[0][0] != "for" or bs[0][2] is not None:
            return None
        w = self.scan.generator_of(self.g, bs[0][1])
        if w is None:
            return None
        for n in own_nodes(w.node):
            # `yield from <the generator itself>(child)` adds no new kind of element; anything else delegated to is not followed
            if isinstance(n, ast.YieldFrom) and not (isinstance(n.value, ast.Call) and self.scan.callees(w, n.value) == [w]):
                return None
        ys = []
        for y in [n for n in own_nodes(w.node) if isinstance(n, ast.Yield)]:
            fields = self.scan.record_fields(w, y.value) if isinstance(y.value, ast.Call) else None
            if fields is None:
                return None
            ys.append((y, fields))
        if not ys or len({tuple(f) for _y, f in ys}) != 1:
            return None
        self._recvars[name] = (bs[0][1], w, ys)
        return self._recvars[name]

    def record_field(self, e: ast.expr) -> str | None:
        """`entry.path` where entry is a record produced by a generator: the field is a value of its own, named `entry.path`."""
        if isinstance(e, ast.Attribute) and isinstance(e.value, ast.Name) and isinstance(e.ctx, ast.Load):
            rv = self.record_var(e.value.id)
            if rv is not None and e.attr in rv[2][0][1]:
                name = f"{e.value.id}.{e.attr}"
                if name not in self.bind:
                    self.bind[name] = [("recfield", e.value.id, e.attr)]
                return name
        return None

    def alias_name(self, e: ast.expr) -> str | None:
        """Name of the variable whose *path value* this expression denotes (through resolve()/absolute()/Path()/str()), else None."""
        if isinstance(e, ast.Name):
            return e.id
        if id(e) in self.joins:
            return self.joins[id(e)]
        if isinstance(e, ast.Attribute):
            return self.record_field(e)
        if isinstance(e, ast.Call):
            f = e.func
            if isinstance(f, ast.Attribute) and f.attr in ALIAS_METHODS and not e.args:
                return self.alias_name(f.value)
            if len(e.args) == 1 and not e.keywords:
                if isinstance(f, ast.Name) and f.id in ALIAS_FUNCS:
                    return self.alias_name(e.args[0])
                if lib_name(self.scan.repo, self.g, e) in ALIAS_LIBS:
                    return self.alias_name(e.args[0])
        if isinstance(e, ast.JoinedStr) and len(e.values) == 1 and isinstance(e.values[0], ast.FormattedValue) and e.values[0].format_spec is None:
            return self.alias_name(e.values[0].value)
        return None

    def is_alias(self, e: ast.expr, R: frozenset | None) -> bool:
        if not R:
            return False
        a = self.alias_name(e)
        return a is not None and bool(self.cls_of(a) & R)

    def kind(self, R: frozenset) -> str:
        for n in R:
            if n in self.params and n not in self.bind:
                return "param"
        for n in R:
            bs = self.bind.get(n, [])
            if len(bs) == 1 and bs[0][0] == "for" and self.scan.generator_of(self.g, bs[0][1]) is not None:
                return "forgen"
            if len(bs) == 1 and bs[0][0] == "recfield":
                return "param" if bs[0][1] in self.params else "forgen"
        for n in R:
            bs = self.bind.get(n, [])
            if len(bs) == 1 and bs[0][0] == "for" and self.scan.recursive_source(self.g, bs[0][1]) is not None:
                return "reclist" if bs[0][2] is None else ("walkroot" if bs[0][2] == 0 else "local")
        return "local"

    def trace(self, e: ast.expr, seen: frozenset = frozenset()) -> set[str]:
        """Variables (roots) the value of `e` is derived from."""
        if isinstance(e, ast.Name):
            n = e.id
            if n in seen:
                return set()
            bs = self.bind.get(n, [])
            if n not in self.params and len(bs) > 1 and all(b[0] == "val" for b in bs) and parent(e) is not None:
                v = self.reaching(e)
                if v is not None and rcs.join_parts(self.scan, self.g, v) is None and not (isinstance(v, ast.Call) and isinstance(v.func, ast.Attribute) and v.func.attr in POPPERS):
                    got = self.trace(v, seen | {n})
                    if got:
                        return got
                if v is None and not any(rcs.join_parts(self.scan, self.g, b[1]) is not None or (isinstance(b[1], ast.Call) and ((isinstance(b[1].func, ast.Attribute) and b[1].func.attr in POPPERS | {"get"}) or (isinstance(b[1].func, ast.Name) and b[1].func.id == "next"))) for b in bs):
                    # assigned on several branches that meet again (`if d: name = f(p) else: name = g(p).name`): derived from
                    # whatever any of the assignments is derived from
                    got = set()
                    for b in bs:
                        got |= self.trace(b[1], seen | {n})
                    if got:
                        return got
            if n in self.params or len(bs) != 1:
                return {n} if (n in self.params or bs) else set()
            b = bs[0]
            if b[0] == "val":
                v = b[1]
                if isinstance(v, ast.Call) and ((isinstance(v.func, ast.Attribute) and v.func.attr in POPPERS | {"get"}) or (isinstance(v.func, ast.Name) and v.func.id == "next")):
                    return {n}  # an element taken out of a work list is a path of its own
                if rcs.join_parts(self.scan, self.g, v) is not None:
                    return {n}  # an entry of a directory (d / x) is a path of its own
                got = self.trace(v, seen | {n})
                return got or set()
            if b[0] == "with":
                return self.trace(b[1], seen | {n})
            if b[0] == "unpack":
                return self.trace(b[1], seen | {n})
            return {n}
        if id(e) in self.joins:
            return {self.joins[id(e)]}
        if isinstance(e, ast.Call):
            out: set[str] = set()
            f = e.func
            if isinstance(f, ast.Attribute) and not (isinstance(f.value, ast.Name) and f.value.id in ("self", "cls")):
                fq = self.scan.repo.resolve_name(self.g.module, f.value) if isinstance(f.value, (ast.Name, ast.Attribute)) else None
                if fq is None or isinstance(f.value, ast.Name) and (f.value.id in self.bind or f.value.id in self.params):
                    out |= self.trace(f.value, seen)
            for a in [*e.args, *[k.value for k in e.keywords]]:
                out |= self.trace(a.value if isinstance(a, ast.Starred) else a, seen)
            return out
        if isinstance(e, ast.Attribute):
            if isinstance(e.value, ast.Name) and e.value.id in ("self", "cls"):
                return set()
            rf = self.record_field(e)
            if rf is not None:
                return {rf}
            return self.trace(e.value, seen)
        if isinstance(e, ast.Subscript):
            return self.trace(e.value, seen)
        if isinstance(e, (ast.Tuple, ast.List, ast.Set)):
            out = set()
            for x in e.elts:
                out |= self.trace(x.value if isinstance(x, ast.Starred) else x, seen)
            return out
        if isinstance(e, ast.JoinedStr):
            out = set()
            for v in e.values:
                if isinstance(v, ast.FormattedValue):
                    out |= self.trace(v.value, seen)
            return out
        if isinstance(e, ast.BinOp):
            return self.trace(e.left, seen) | self.trace(e.right, seen)
        if isinstance(e, ast.IfExp):
            return self.trace(e.body, seen) | self.trace(e.orelse, seen)
        if isinstance(e, (ast.GeneratorExp, ast.ListComp, ast.SetComp)):
            out = set()
            for gen in e.generators:
                out |= self.trace(gen.iter, seen)
            return out
        if isinstance(e, ast.Starred):
            return self.trace(e.value, seen)
        return set()

    def roots(self, e: ast.expr) -> list[frozenset]:
        out: list[frozenset] = []
        for n in sorted(self.trace(e)):
            c = self.cls_of(n)
            if c not in out:
                out.append(c)
        return out


# --------------------------------------------------------------------------- the analysis


@dataclass
class Event:
    g: FuncInfo
    node: ast.AST
    kind: str  # descend | read | parse | register
    subject: ast.expr
    what: str


class Scan:
    def __init__(self, repo: Repo, anchors: Anchors) -> None:
        self.repo = repo
        self.T = types_of(repo)
        self.a = anchors
        self.U = anchors.universe
        self._facts: dict[str, Facts] = {}
        self.sites: dict[str, list[tuple[FuncInfo, ast.Call]]] = {}
        for h in self.U:
            for c in calls_in(h.node):
                for callee in self.callees(h, c):
                    self.sites.setdefault(callee.fq, []).append((h, c))
        self._ret_cache: dict = {}
        self._reach_cache: dict = {}
        self.derived_gate: list[str] = []
        self._records: dict | None = None
        self.rec_bind: dict[str, dict] = {}  # helper fq -> {parameter name: Record} while the helper is evaluated
        self._rec_seen: list = []
        self.used_records: dict[str, object] = {}
        self.prefix_bugs: list[str] = []
        self.walk_notes: list[str] = []
        self.rec_cmp: dict[str, set[str]] = {}  # tag fields of walker records and the literals they are compared with

    def facts(self, g: FuncInfo) -> Facts:
        if g.fq not in self._facts:
            fx = Facts.__new__(Facts)
            self._facts[g.fq] = fx  # registered first: looking at the callers' facts may come back here
            fx.__init__(self, g)
        return self._facts[g.fq]

    def args_by_param(self, g: FuncInfo, call: ast.Call) -> dict[str, ast.expr]:
        names = list(g.param_names)
        if g.cls is not None and g.outer is None and not g.is_staticmethod and names and isinstance(call.func, ast.Attribute):
            names = names[1:]
        out = {p: a for p, a in zip(names, call.args) if not isinstance(a, ast.Starred)}
        for k in call.keywords:
            if k.arg in names:
                out[k.arg] = k.value
        return out

    def callees(self, h: FuncInfo, c: ast.Call) -> list[FuncInfo]:
        try:
            cs, _how = self.T.callees(h, c, byname_fallback=False)
        except Exception:  # noqa: BLE001
            return []
        return [x for x in cs if x in self.U]

    def any_callees(self, h: FuncInfo, c: ast.Call) -> list[FuncInfo]:
        """Unique repo callee, also outside the scan's own functions (helpers of the filter class, other modules)."""
        try:
            cs, how = self.T.callees(h, c, byname_fallback=False)
        except Exception:  # noqa: BLE001
            return []
        cs = [x for x in cs if not x.is_abstract and x.name != "__init__"]
        return cs if how == "repo" and len(cs) == 1 else []

    def records(self) -> dict:
        if self._records is None:
            self._records = {}
            self._records = rcs.collect_records(self)
        return self._records

    def recursive_source(self, g: FuncInfo, it: ast.expr, depth: int = 0) -> ast.Call | None:
        """The recursive listing call (rglob / glob('**') / os.walk) an iteration source is made of, through sorted(), [p, *...], locals."""
        fx = self.facts(g)
        for n in ast.walk(it):
            if rcs.is_recursive_listing(self.repo, g, n):
                return n
            if isinstance(n, ast.Name) and depth < 3 and n.id not in fx.params:
                bs = fx.bind.get(n.id, [])
                if len(bs) == 1 and bs[0][0] == "val":
                    got = self.recursive_source(g, bs[0][1], depth + 1)
                    if got is not None:
                        return got
        return None

    def anc(self, g: FuncInfo, e: ast.expr, R: frozenset | None):
        self._rec_seen = []
        got = rcs.anc_test(self, g, e, R)
        if got in ("anc", "not-anc"):
            for r in self._rec_seen:
                self.used_records[id(r)] = r
        elif isinstance(got, tuple):
            msg = f"{g.qualname}: {got[1]}"
            if msg not in self.prefix_bugs:
                self.prefix_bugs.append(msg)
        return got

    def generator_of(self, g: FuncInfo, it: ast.expr) -> FuncInfo | None:
        if not isinstance(it, ast.Call):
            return None
        cs = self.callees(g, it)
        if len(cs) == 1 and any(isinstance(n, (ast.Yield, ast.YieldFrom)) for n in own_nodes(cs[0].node)):
            return cs[0]
        return None

    def record_fields(self, g: FuncInfo, call: ast.Call) -> dict[str, ast.expr] | None:
        """field -> argument expression of a call that constructs a plain record (NamedTuple / dataclass without own constructor)."""
        try:
            ci = self.T.ctor_class(g, call)
        except Exception:  # noqa: BLE001
            return None
        if ci is None:
            return None
        if not (ci.is_dataclass or any(b.rsplit(".", 1)[-1] == "NamedTuple" for b in ci.bases)):
            return None
        if any(m in ci.methods for m in ("__init__", "__new__", "__post_init__", "__getattr__", "__getattribute__")):
            return None
        names = list(ci.ann_attrs)
        if any(isinstance(a, ast.Starred) for a in call.args) or any(k.arg is None or k.arg not in names for k in call.keywords) or len(call.args) > len(names):
            return None
        out = dict(zip(names, call.args))
        for k in call.keywords:
            if k.arg in out:
                return None
            out[k.arg] = k.value
        for n in names:
            if n not in out:
                if n not in ci.class_attrs:
                    return None
                out[n] = ci.class_attrs[n]
        return {n: out[n] for n in names}

    def is_pred(self, g: FuncInfo, c: ast.Call) -> bool:
        if not isinstance(c.func, (ast.Attribute, ast.Name)) or len(c.args) + len(c.keywords) != 1:
            return False
        name = c.func.attr if isinstance(c.func, ast.Attribute) else c.func.id
        if name not in self.a.pred_names and name not in self.a.pred_methods:
            return False
        if self.a.filter_cls is None:
            return True
        try:
            cs, _how = self.T.callees(g, c, byname_fallback=False)
        except Exception:  # noqa: BLE001
            return True
        return not cs or any(x.cls is not None and (x.cls is self.a.filter_cls or self.repo.is_subclass(x.cls, self.a.filter_cls.fq)) for x in cs)

    # ------------------------------------------------------------------ formulas
    def opaque(self, g: FuncInfo, e: ast.expr, truthy: bool = True) -> Formula:
        return atom(f"{g.qualname}:{'bool(' + norm(e) + ')' if truthy else norm(e)}")

    def F(self, g: FuncInfo, e: ast.expr, R: frozenset | None, env: dict | None = None, depth: int = 0) -> Formula:
        """Truthiness of `e` inside g, canonical with respect to the tracked path (alias class R)."""
        env = env or {}
        fx = self.facts(g)
        if isinstance(e, ast.Constant):
            return TRUE if e.value else FALSE
        if isinstance(e, ast.BoolOp):
            parts = [self.F(g, v, R, env, depth) for v in e.values]
            return f_and(parts) if isinstance(e.op, ast.And) else f_or(parts)
        if isinstance(e, ast.UnaryOp) and isinstance(e.op, ast.Not):
            return f_not(self.F(g, e.operand, R, env, depth))
        if isinstance(e, ast.IfExp):
            c = self.F(g, e.test, R, env, depth)
            return f_or([f_and([c, self.F(g, e.body, R, env, depth)]), f_and([f_not(c), self.F(g, e.orelse, R, env, depth)])])
        if isinstance(e, ast.NamedExpr):
            return self.F(g, e.value, R, env, depth)
        if isinstance(e, ast.Attribute) and env and norm(e) in env:
            return env[norm(e)]
        if isinstance(e, ast.Attribute) and isinstance(e.value, ast.Name) and R and any(n.startswith(e.value.id + ".") for n in R) and fx.record_field(e) is not None:
            return atom(f"REC.{e.attr}")  # another field of the record whose path is tracked: fixed by each yield (see totals)
        if isinstance(e, ast.Name):
            if e.id in env:
                return env[e.id]
            bs = fx.bind.get(e.id, [])
            if e.id not in fx.params and len(bs) == 1 and bs[0][0] == "val" and depth < 8:
                return self.F(g, bs[0][1], R, env, depth + 1)
            if e.id not in fx.params and len(bs) > 1 and all(b[0] == "val" for b in bs) and depth < 8 and parent(e) is not None:
                v = fx.reaching(e)
                if v is not None:
                    return self.F(g, v, R, env, depth + 1)
            return self.opaque(g, e)
        if isinstance(e, ast.Compare) and len(e.ops) == 1:
            left, op, right = e.left, e.ops[0], e.comparators[0]
            if isinstance(op, (ast.Is, ast.IsNot)) and isinstance(right, ast.Constant) and right.value is None:
                rf = self._tracked_record_field(g, left, R)
                if rf is not None:
                    a = atom(f"REC.{rf}.isnone")  # fixed by each yield: a field that is None for one kind of entry
                    return a if isinstance(op, ast.Is) else f_not(a)
                t = self.F(g, left, R, env, depth)  # object-or-None values: `x is not None` is the truthiness of x
                if self._object_or_none(g, left):
                    return t if isinstance(op, ast.IsNot) else f_not(t)
                nn = self._not_none(g, left, R, depth)
                if nn is not None:
                    return nn if isinstance(op, ast.IsNot) else f_not(nn)
                return self.opaque(g, e, False)
            if isinstance(op, (ast.In, ast.NotIn)) and isinstance(right, (ast.Tuple, ast.List, ast.Set)) and right.elts and self._suffix_of(g, left, R):
                if all(fold(self.repo, g.module, x, g) == ".py" for x in right.elts):
                    return PY if isinstance(op, ast.In) else f_not(PY)
            if isinstance(op, (ast.Eq, ast.NotEq)):
                for a, b in ((left, right), (right, left)):
                    if self._suffix_of(g, a, R) and fold(self.repo, g.module, b, g) == ".py":
                        return PY if isinstance(op, ast.Eq) else f_not(PY)
                    if isinstance(b, ast.Constant) and isinstance(b.value, bool):
                        t = self.F(g, a, R, env, depth)
                        return t if (isinstance(op, ast.Eq)) == b.value else f_not(t)
                    # `entry.kind == "dir"` / `entry.kind is Kind.DIRECTORY`: a tag field of the tracked record compared with a literal
                    rf = self._tracked_record_field(g, a, R)
                    if rf is not None and _literal_text(b) is not None:
                        self.rec_cmp.setdefault(rf, set()).add(_literal_text(b))
                        at = atom(f"REC.{rf}=={_literal_text(b)}")
                        return at if isinstance(op, ast.Eq) else f_not(at)
            if isinstance(op, (ast.Is, ast.IsNot)):
                for a, b in ((left, right), (right, left)):
                    rf = self._tracked_record_field(g, a, R)
                    if rf is not None and isinstance(b, ast.Attribute) and _literal_text(b) is not None:
                        self.rec_cmp.setdefault(rf, set()).add(_literal_text(b))
                        at = atom(f"REC.{rf}=={_literal_text(b)}")
                        return at if isinstance(op, ast.Is) else f_not(at)
            return self.opaque(g, e, False)
        if isinstance(e, (ast.Call, ast.BinOp)):
            t = self.anc(g, e, R)
            if t == "anc":
                return ANC
            if t == "not-anc":
                return f_not(ANC)
        if isinstance(e, ast.Call):
            f = e.func
            if isinstance(f, ast.Name) and f.id == "bool" and len(e.args) == 1:
                return self.F(g, e.args[0], R, env, depth)
            if self.is_pred(g, e):
                arg = e.args[0] if e.args else e.keywords[0].value
                if fx.is_alias(arg, R):
                    return EXCL
                if R and set(fx.trace(arg)) & set().union(*[fx.cls_of(n) for n in R]):
                    self.derived_gate.append(f"{g.qualname}: `{norm(e, 80)}`")
                return self.opaque(g, e, False)
            if isinstance(f, ast.Attribute) and not e.args and fx.is_alias(f.value, R):
                if f.attr == "is_dir":
                    return ISDIR
                if f.attr == "is_file":
                    return ISFILE
            if isinstance(f, ast.Attribute) and f.attr == "endswith" and len(e.args) == 1 and fold(self.repo, g.module, e.args[0], g) == ".py":
                base = f.value
                if isinstance(base, ast.Attribute) and base.attr == "name":
                    base = base.value
                if fx.is_alias(base, R):
                    return PY
            if lib_name(self.repo, g, e) == "os.path.isdir" and len(e.args) == 1 and fx.is_alias(e.args[0], R):
                return ISDIR
            if lib_name(self.repo, g, e) == "os.path.isfile" and len(e.args) == 1 and fx.is_alias(e.args[0], R):
                return ISFILE
            if isinstance(f, ast.Attribute) and f.attr == "match" and len(e.args) == 1 and fold(self.repo, g.module, e.args[0], g) == "*.py" and fx.is_alias(f.value, R):
                return PY
            if lib_name(self.repo, g, e) in ("fnmatch.fnmatch", "fnmatch.fnmatchcase") and len(e.args) == 2 and fold(self.repo, g.module, e.args[1], g) == "*.py":
                base = e.args[0]
                if isinstance(base, ast.Attribute) and base.attr == "name":
                    base = base.value
                if fx.is_alias(base, R):
                    return PY
            cs = self.callees(g, e) or self.any_callees(g, e)
            if len(cs) == 1 and depth < 6:
                got = self.call_truth(g, e, cs[0], R, depth)
                if got is not None:
                    return got
            if self.T.ctor_class(g, e) is not None:
                ci = self.T.ctor_class(g, e)
                if not any(self.repo.lookup_method(ci, m) for m in ("__bool__", "__len__")):
                    return TRUE
            return self.opaque(g, e)
        return self.opaque(g, e)

    def _tracked_record_field(self, g: FuncInfo, e: ast.expr, R: frozenset | None, depth: int = 0) -> str | None:
        """Field name if `e` is `<record>.<field>` (or a local holding it) of the record whose path is tracked."""
        fx = self.facts(g)
        if isinstance(e, ast.NamedExpr):
            return self._tracked_record_field(g, e.value, R, depth + 1)
        if isinstance(e, ast.Name) and depth < 4 and e.id not in fx.params:
            bs = fx.bind.get(e.id, [])
            if len(bs) == 1 and bs[0][0] == "val":
                return self._tracked_record_field(g, bs[0][1], R, depth + 1)
            return None
        if isinstance(e, ast.Attribute) and isinstance(e.value, ast.Name) and R and any(n.startswith(e.value.id + ".") for n in R) and fx.record_field(e) is not None:
            return e.attr
        return None

    def _plain_path(self, w: FuncInfo, e: ast.expr, depth: int = 0) -> bool:
        """Is the value plainly a path / string object made from a path (never None, always truthy)?"""
        fw = self.facts(w)
        if isinstance(e, ast.Name) and depth < 4 and e.id not in fw.params:
            bs = fw.bind.get(e.id, [])
            if len(bs) == 1 and (bs[0][0] == "for" or (bs[0][0] == "val" and isinstance(bs[0][1], ast.Call) and isinstance(bs[0][1].func, ast.Attribute) and bs[0][1].func.attr in POPPERS)):
                # an element of the work list / of a directory listing: a path when the generator asks it path questions
                return any(isinstance(n, ast.Attribute) and isinstance(n.value, ast.Name) and n.value.id == e.id and n.attr in ("is_dir", "is_file", "iterdir", "resolve", "suffix", "name") for n in own_nodes(w.node))
            return len(bs) == 1 and bs[0][0] == "val" and self._plain_path(w, bs[0][1], depth + 1)
        if rcs.join_parts(self, w, e) is not None:
            return True
        if isinstance(e, ast.Call):
            f = e.func
            if isinstance(f, ast.Attribute) and f.attr in ALIAS_METHODS | {"with_suffix", "with_name", "relative_to"} and fw.trace(f.value):
                return True
            if isinstance(f, ast.Name) and f.id in ALIAS_FUNCS - {"str"} and e.args:
                return True
            if lib_name(self.repo, w, e) in ALIAS_LIBS:
                return True
        return False

    def _suffix_of(self, g: FuncInfo, e: ast.expr, R: frozenset | None) -> bool:
        """`<alias>.suffix` or `os.path.splitext(<alias>)[1]` (also through a single-assignment local)."""
        fx = self.facts(g)
        if isinstance(e, ast.Name):
            bs = fx.bind.get(e.id, [])
            if e.id not in fx.params and len(bs) == 1 and bs[0][0] == "val":
                return self._suffix_of(g, bs[0][1], R)
            return False
        if isinstance(e, ast.Attribute) and e.attr == "suffix":
            return fx.is_alias(e.value, R)
        if isinstance(e, ast.Subscript) and isinstance(e.value, ast.Call) and lib_name(self.repo, g, e.value) == "os.path.splitext" and len(e.value.args) == 1:
            idx = e.slice
            if isinstance(idx, ast.Constant) and idx.value in (1, -1):
                return fx.is_alias(e.value.args[0], R)
        return False

    def _object_or_none(self, g: FuncInfo, e: ast.expr) -> bool:
        """Is the value of `e` either None or an object that is always truthy (so that `e is not None` == truthiness)?"""
        fx = self.facts(g)
        if isinstance(e, ast.NamedExpr):
            return self._object_or_none(g, e.value)
        if isinstance(e, ast.Name):
            bs = fx.bind.get(e.id, [])
            if e.id not in fx.params and len(bs) == 1 and bs[0][0] == "val":
                return self._object_or_none(g, bs[0][1])
            return False
        if isinstance(e, ast.Call):
            cs = self.callees(g, e)
            if len(cs) == 1:
                h = cs[0]
                rets = [n for n in own_nodes(h.node) if isinstance(n, ast.Return)]
                return bool(rets) and all(r.value is None or (isinstance(r.value, ast.Constant) and r.value.value is None) or self.T.ctor_class(h, r.value) is not None if isinstance(r.value, (ast.Call, ast.Constant)) or r.value is None else False for r in rets)
        return False

    def _not_none(self, g: FuncInfo, e: ast.expr, R: frozenset | None, depth: int) -> Formula | None:
        """`e is not None` where e is the result of a repo helper: some `return <value>` other than `return None` was taken (its path
        condition in terms of the tracked path) and that value is not None (an atom of its own unless the value plainly is an object)."""
        fx = self.facts(g)
        if isinstance(e, ast.NamedExpr):
            return self._not_none(g, e.value, R, depth)
        if isinstance(e, ast.Name):
            bs = fx.bind.get(e.id, [])
            if e.id in fx.params or depth > 8:
                return None
            if len(bs) == 1 and bs[0][0] == "val":
                return self._not_none(g, bs[0][1], R, depth + 1)
            if len(bs) > 1 and all(b[0] == "val" for b in bs) and parent(e) is not None:
                v = fx.reaching(e)
                if v is not None:
                    return self._not_none(g, v, R, depth + 1)
            return None
        if not isinstance(e, ast.Call) or depth > 6:
            return None
        cs = self.callees(g, e) or self.any_callees(g, e)
        if len(cs) != 1:
            return None
        h = cs[0]
        if isinstance(h.node, ast.Lambda) or h.is_abstract or any(isinstance(n, (ast.Yield, ast.YieldFrom)) for n in own_nodes(h.node)):
            return None
        Rh = self.bind_args(g, e, h, R)
        parts = []
        # the path conditions below are exact for straight-line / branching helpers only: with a return inside a loop or a try block
        # every part keeps an atom of its own, so that neither "is None" nor "is not None" decides anything it should not
        loopy = False
        for r in [n for n in own_nodes(h.node) if isinstance(n, ast.Return)]:
            q = parent(r)
            while q is not None and q is not h.node:
                if isinstance(q, (ast.For, ast.AsyncFor, ast.While, ast.Try)):
                    loopy = True
                q = parent(q)
        for r in [n for n in own_nodes(h.node) if isinstance(n, ast.Return)]:
            v = r.value
            if v is None or (isinstance(v, ast.Constant) and v.value is None):
                continue
            gr = self.guard(h, r, Rh, {}, depth + 1)
            plain = isinstance(v, (ast.Constant, ast.JoinedStr, ast.List, ast.Tuple, ast.Dict, ast.Set, ast.ListComp, ast.SetComp, ast.DictComp, ast.GeneratorExp, ast.Compare, ast.Lambda))
            if isinstance(v, ast.Call):
                plain = self.T.ctor_class(h, v) is not None or (isinstance(v.func, ast.Attribute) and v.func.attr in CONTENT_METHODS - {"open"} | {"join", "format", "resolve", "absolute"}) or (isinstance(v.func, ast.Name) and v.func.id in ("str", "list", "tuple", "set", "dict", "frozenset", "sorted", "bool", "int", "len", "repr")) or lib_name(self.repo, h, v) == "ast.parse"
            parts.append(gr if plain and not loopy else f_and([gr, atom(f"{g.qualname}:{norm(e, 60)} -> {norm(v, 60)} is not None")]))
        return f_or(parts)

    def call_truth(self, g: FuncInfo, call: ast.Call, h: FuncInfo, R: frozenset | None, depth: int) -> Formula | None:
        """Truth condition of the result of `h(...)` called from g, in terms of the tracked path."""
        if any(isinstance(n, (ast.Yield, ast.YieldFrom)) for n in own_nodes(h.node)):
            return None
        Rh = self.bind_args(g, call, h, R)
        names = list(h.param_names)
        if h.cls is not None and h.outer is None and not h.is_staticmethod and names and isinstance(call.func, ast.Attribute):
            names = names[1:]
        passed = {}
        for p_, a_ in [*zip(names, call.args), *[(k.arg, k.value) for k in call.keywords if k.arg]]:
            r_ = rcs.record_of(self, g, a_) if isinstance(a_, (ast.Name, ast.Attribute, ast.Call)) else None
            if r_ is not None and r_.adds:
                passed[p_] = r_
        if passed:
            self.rec_bind[h.fq] = passed
        key = (h.fq, Rh, tuple(sorted((k_, id(v_)) for k_, v_ in passed.items())))
        if key in self._ret_cache:
            return self._ret_cache[key]
        self._ret_cache[key] = None
        rets = [n for n in own_nodes(h.node) if isinstance(n, ast.Return)]
        if not rets:
            out = FALSE
        else:
            parts = []
            for r in rets:
                if r.value is None:
                    continue
                parts.append(f_and([self.guard(h, r, Rh, {}, depth + 1), self.F(h, r.value, Rh, {}, depth + 1)]))
            out = f_or(parts)
        self._ret_cache[key] = out
        return out

    def bind_args(self, g: FuncInfo, call: ast.Call, h: FuncInfo, R: frozenset | None) -> frozenset | None:
        """Alias class inside h of the parameter(s) that receive an alias of the tracked path."""
        if not R:
            return None
        fx, fh = self.facts(g), self.facts(h)
        names = list(h.param_names)
        if h.cls is not None and h.outer is None and not h.is_staticmethod and names and isinstance(call.func, ast.Attribute):
            names = names[1:]
        hit: set[str] = set()
        for p, a in zip(names, call.args):
            if not isinstance(a, ast.Starred) and fx.is_alias(a, R):
                hit.add(p)
        for k in call.keywords:
            if k.arg in names and fx.is_alias(k.value, R):
                hit.add(k.arg)
        out: set[str] = set()
        for p, a in self.args_by_param(h, call).items():
            if isinstance(a, ast.Name):
                for n in R:
                    if n.startswith(a.id + ".") and fh.record_var(p) is not None:
                        rf = fh.record_field(ast.Attribute(value=ast.Name(id=p, ctx=ast.Load()), attr=n.split(".", 1)[1], ctx=ast.Load()))
                        if rf is not None:
                            out |= fh.cls_of(rf)
        if not hit and not out:
            return None
        for p in hit:
            out |= fh.cls_of(p)
        return frozenset(out)

    def guard(self, g: FuncInfo, node: ast.AST, R: frozenset | None, env: dict | None = None, depth: int = 0) -> Formula:
        """Path condition of `node`: the syntax-directed conditions of core/cfg (branch tests, negated early exits, comprehension
        filters) conjoined with the forward reachability condition below (which also knows what holds *after* a branch that only
        sometimes leaves the block).  Both are implied by the real path condition, so is their conjunction."""
        syn = f_and([self.F(g, e, R, env, depth) if pol else f_not(self.F(g, e, R, env, depth)) for e, pol in conds(g, node)])
        if depth > 0 or isinstance(g.node, ast.Lambda):
            return syn
        st = stmt_of(node)
        fwd = self.reach(g, R, env).get(id(st), TRUE) if st is not None else TRUE
        return f_and([syn, fwd]) if fwd != TRUE else syn

    def reach(self, g: FuncInfo, R: frozenset | None, env: dict | None) -> dict[int, Formula]:
        key = (g.fq, R, tuple(sorted((k, repr(v)) for k, v in (env or {}).items())))
        if key in self._reach_cache:
            return self._reach_cache[key]
        out: dict[int, Formula] = {}
        self._reach_cache[key] = out
        canon = {a[1] for a in _CANON}
        Rn = set(R or ()) | {n.split(".", 1)[0] for n in (R or ()) if "." in n and not n.startswith("<")}

        def deps(name: str) -> set[str]:
            if name in canon or name.startswith("REC."):
                return Rn
            import re as _re

            return set(_re.findall(r"[A-Za-z_][A-Za-z_0-9]*", name.split(":", 1)[-1]))

        def kill(f: Formula, names: set[str]) -> Formula:
            if not names or f in (TRUE, FALSE):
                return f
            from core.guards import atoms_of

            drop = [a for a in atoms_of(f) if deps(a) & names]
            for a in drop:
                f = f_or([_subst(f, a, True), _subst(f, a, False)])
            return f

        def stored(node: ast.AST) -> set[str]:
            names: set[str] = set()
            for n in ast.walk(node):
                if isinstance(n, ast.Name) and isinstance(n.ctx, (ast.Store, ast.Del)):
                    names.add(n.id)
                elif isinstance(n, ast.Call) and isinstance(n.func, ast.Attribute) and n.func.attr in _MUTATORS:
                    b = n.func.value
                    while isinstance(b, (ast.Attribute, ast.Subscript)):
                        b = b.value
                    if isinstance(b, ast.Name) and b.id not in ("self", "cls"):
                        names.add(b.id)
            return names

        def small(f: Formula) -> Formula:
            from core.guards import atoms_of

            return f if len(atoms_of(f)) <= 10 else TRUE

        def block(stmts: list, cond: Formula) -> Formula:
            for st in stmts:
                out[id(st)] = cond
                if isinstance(st, ast.If):
                    t = self.F(g, st.test, R, env, 1)
                    c0 = kill(cond, stored(st.test))
                    a = block(st.body, f_and([c0, t]))
                    b = block(st.orelse, f_and([c0, f_not(t)]))
                    cond = small(f_or([a, b]))
                elif isinstance(st, (ast.For, ast.AsyncFor, ast.While)):
                    c0 = kill(cond, stored(st))
                    t = self.F(g, st.test, R, env, 1) if isinstance(st, ast.While) and not (stored(st) & _names(st.test)) else TRUE
                    block(st.body, f_and([c0, t]))
                    block(st.orelse, c0)
                    cond = c0
                elif isinstance(st, (ast.Return, ast.Raise, ast.Continue, ast.Break)):
                    cond = FALSE
                elif isinstance(st, (ast.With, ast.AsyncWith)):
                    cond = kill(cond, {n.id for it in st.items if it.optional_vars is not None for n in ast.walk(it.optional_vars) if isinstance(n, ast.Name)})
                    cond = block(st.body, cond)
                elif isinstance(st, ast.Try):
                    c0 = kill(cond, stored(st))
                    block(st.body, cond)
                    for h in st.handlers:
                        out[id(h)] = c0
                        block(h.body, c0)
                    block(st.orelse, c0)
                    block(st.finalbody, c0)
                    cond = c0
                elif isinstance(st, ast.Match):
                    c0 = kill(cond, stored(st))
                    for case in st.cases:
                        block(case.body, c0)
                    cond = c0
                elif isinstance(st, (ast.FunctionDef, ast.AsyncFunctionDef, ast.ClassDef)):
                    continue
                else:
                    cond = kill(cond, stored(st))
            return cond

        block(list(g.node.body), TRUE)
        return out

    def routed_verdict(self, total: Formula) -> str | None:
        """An opaque atom of the guard that mentions a variable into which a verdict of the exclusion predicate was stored in a way
        the formulas do not follow (container, several assignments, loop variable): the guard may be there, but unseen."""
        from core.guards import atoms_of
        import re as _re

        for a in sorted(atoms_of(total)):
            if ":" not in a or a in {x[1] for x in _CANON}:
                continue
            qual, text = a.split(":", 1)
            g = next((f for f in self.U if f.qualname == qual), None)
            if g is None:
                continue
            tainted = self.verdict_names(g)
            if set(_re.findall(r"[A-Za-z_][A-Za-z_0-9]*", text)) & tainted:
                return text
        return None

    def bears_verdict(self, g: FuncInfo, call: ast.Call, depth: int = 0) -> bool:
        """Does the result of this repo helper call depend on a verdict of the exclusion predicate (the helper, or one it calls, asks it)?"""
        cs = self.callees(g, call) or self.any_callees(g, call)
        if len(cs) != 1 or depth > 3:
            return False
        h = cs[0]
        key = ("bears", h.fq)
        if key not in self._ret_cache:
            self._ret_cache[key] = False
            self._ret_cache[key] = any(isinstance(n, ast.Call) and (self.is_pred(h, n) or self.bears_verdict(h, n, depth + 1)) for n in own_nodes(h.node))
        return self._ret_cache[key]

    def verdict_names(self, g: FuncInfo) -> set[str]:
        key = ("verdict", g.fq)
        if key in self._ret_cache:
            return self._ret_cache[key]
        fx = self.facts(g)
        tainted: set[str] = set()
        for _round in range(3):
            for name, bs in fx.bind.items():
                for b in bs:
                    e = b[1]
                    if not isinstance(e, ast.AST):
                        continue
                    for n in ast.walk(e):
                        if (isinstance(n, ast.Call) and (self.is_pred(g, n) or self.bears_verdict(g, n))) or (isinstance(n, ast.Name) and n.id in tainted):
                            single_bool = len(bs) == 1 and b[0] == "val" and name not in fx.params
                            if not single_bool or not isinstance(e, (ast.Call, ast.Compare, ast.BoolOp, ast.UnaryOp, ast.Name, ast.IfExp, ast.NamedExpr)):
                                tainted.add(name)
                            elif isinstance(e, ast.Name):
                                tainted.add(name)
        self._ret_cache[key] = tainted
        return tainted

    # ------------------------------------------------------------------ interprocedural guard
    def totals(self, g: FuncInfo, node: ast.AST, R: frozenset | None, depth: int = 0, env: dict | None = None) -> list[Formula]:
        local = self.guard(g, node, R, env)
        if not R or depth > 5:
            return [local]
        fx = self.facts(g)
        k = fx.kind(R)
        if k == "param" and g is not self.a.entry:
            outs: list[Formula] = []
            for h, call in self.sites.get(g.fq, []):
                Ra = self.arg_class(h, call, g, R)
                if isinstance(Ra, tuple) and Ra[0] == "child":
                    for t in self.child_total(self.totals(h, call, Ra[1], depth + 1)):
                        outs.append(f_and([local, t]))
                    continue
                if Ra is None:
                    outs.append(local)
                    continue
                for t in self.totals(h, call, Ra, depth + 1):
                    outs.append(f_and([local, t]))
            return outs or [local]
        if k == "forgen":
            rec = next((fx.bind[n][0] for n in R if len(fx.bind.get(n, [])) == 1 and fx.bind[n][0][0] == "recfield"), None)
            if rec is not None:
                # `for entry in walk(): ... entry.path ...`: each yield constructs the record; its other fields are known values
                _k, var, fld = rec
                _it, w, ys = fx.record_var(var)
                fw = self.facts(w)
                outs = []
                for y, fields in ys:
                    pe = fields[fld]
                    an = fw.alias_name(pe)
                    rs = fw.roots(pe)
                    Rw = rs[0] if len(rs) == 1 else (fw.cls_of(an) if an is not None else None)
                    env_y = dict(env or {})
                    fixed = []
                    for f2, ye in fields.items():
                        a2, n2 = atom(f"REC.{f2}"), atom(f"REC.{f2}.isnone")
                        if isinstance(ye, ast.Constant):
                            fixed.append(n2 if ye.value is None else f_not(n2))
                            fixed.append(a2 if ye.value else f_not(a2))
                            for lit in sorted(self.rec_cmp.get(f2, ())):
                                if lit.startswith("const:"):
                                    c2 = atom(f"REC.{f2}=={lit}")
                                    fixed.append(c2 if lit == _literal_text(ye) else f_not(c2))
                            continue
                        if _literal_text(ye) is not None:
                            # a tag (`Kind.DIRECTORY`): equal to the literals it is compared with iff they are the same member
                            for lit in sorted(self.rec_cmp.get(f2, ())):
                                c2 = atom(f"REC.{f2}=={lit}")
                                if lit == _literal_text(ye):
                                    fixed.append(c2)
                                elif lit.rsplit(".", 1)[0] == _literal_text(ye).rsplit(".", 1)[0]:
                                    fixed.append(f_not(c2))
                            continue
                        plain = self._plain_path(w, ye)
                        if plain or (isinstance(ye, ast.Call) and self.T.ctor_class(w, ye) is not None) or isinstance(ye, (ast.Compare, ast.JoinedStr, ast.List, ast.Tuple, ast.Dict, ast.Set)) or (isinstance(ye, ast.UnaryOp) and isinstance(ye.op, ast.Not)):
                            fixed.append(f_not(n2))
                        if plain:
                            fixed.append(a2)
                        elif f2 != fld:
                            val = self.F(w, ye, Rw, {})
                            fixed.append(f_or([f_and([a2, val]), f_and([f_not(a2), f_not(val)])]))
                    loc_y = self.guard(g, node, R, env_y)
                    for t in self.totals(w, y, Rw, depth + 1):
                        outs.append(f_and([loc_y, t, *fixed]))
                return outs or [local]
            n = next(n for n in R if len(fx.bind.get(n, [])) == 1 and fx.bind[n][0][0] == "for" and self.generator_of(g, fx.bind[n][0][1]) is not None)
            _k, it, idx, target = fx.bind[n][0]
            w = self.generator_of(g, it)
            fw = self.facts(w)
            outs = []
            for y in [x for x in own_nodes(w.node) if isinstance(x, ast.Yield)]:
                v = y.value
                elts = list(v.elts) if isinstance(v, ast.Tuple) else [v]
                telts = list(target.elts) if isinstance(target, (ast.Tuple, ast.List)) else [target]
                if isinstance(v, ast.Call) and len(telts) > 1:
                    # `for path, is_directory in walk()` where the walker yields NamedTuple records: unpacked in field order
                    rf = self.record_fields(w, v)
                    ci = self.T.ctor_class(w, v) if rf is not None else None
                    if ci is not None and any(b.rsplit(".", 1)[-1] == "NamedTuple" for b in ci.bases):
                        elts = list(rf.values())
                if v is None or len(elts) != len(telts):
                    outs.append(local)
                    continue
                pe = elts[idx if idx is not None else 0]
                an = fw.alias_name(pe)
                rs = fw.roots(pe)
                Rw = rs[0] if len(rs) == 1 else (fw.cls_of(an) if an is not None else None)
                env_y = dict(env or {})
                for te, ye in zip(telts, elts):
                    if isinstance(te, ast.Name) and te.id != n:
                        env_y[te.id] = self.F(w, ye, Rw, {})
                loc_y = self.guard(g, node, R, env_y)
                for t in self.totals(w, y, Rw, depth + 1):
                    outs.append(f_and([loc_y, t]))
            return outs or [local]
        if k == "local":
            for n_ in R:
                bs = fx.bind.get(n_, [])
                if len(bs) == 1 and bs[0][0] == "val" and n_ not in fx.params:
                    jp = rcs.join_parts(self, g, bs[0][1])
                    pn = fx.alias_name(jp[0]) if jp is not None else None
                    if pn is not None and not (fx.cls_of(pn) & R):
                        rs = fx.roots(ast.Name(id=pn, ctx=ast.Load()))
                        Rp = rs[0] if len(rs) == 1 else fx.cls_of(pn)
                        return [f_and([local, t]) for t in self.child_total(self.totals(g, node, Rp, depth + 1))]
        if k in ("reclist", "walkroot"):
            # the first component of an os.walk triple is always a directory
            return [f_and([local, RECL, f_and([ISDIR, self.walk_invariant(g, R)]) if k == "walkroot" else TRUE])]
        inv = self.worklist_invariant(g, R)
        return [f_and([local, inv])] if inv != TRUE else [local]

    def walk_invariant(self, g: FuncInfo, R: frozenset) -> Formula:
        """`for root, dirs, files in os.walk(p)` with in-place pruning of `dirs`: os.walk never enters an excluded directory, so no
        directory above a yielded root is excluded (the start has nothing above it inside the walk)."""
        fx = self.facts(g)
        for n in own_nodes(g.node):
            if isinstance(n, ast.For) and isinstance(n.target, (ast.Tuple, ast.List)) and n.target.elts and isinstance(n.target.elts[0], ast.Name) and n.target.elts[0].id in R and self.recursive_source(g, n.iter) is not None:
                if not self._walk_lazy(g, n):
                    note = f"the walk is materialised by `{norm(n.iter, 50)}` before the first directory is looked at: changing the list of sub-directories inside the loop cannot stop the descent any more"
                    if note not in self.walk_notes:
                        self.walk_notes.append(note)
                    continue  # sorted(os.walk(..)) / list(..): the library has finished before the body runs, pruning has no effect
                if rcs.walk_pruned(self, g, n, R):
                    # every root after the first is a sub-directory that survived the pruning; the first one is the start path:
                    # when that is known not to be excluded where the walk begins, no root is excluded either
                    if self._walk_start_clean(g, n):
                        return f_and([f_not(ANC), f_not(EXCL)])
                    return f_not(ANC)
                if self._walk_emptied_when_excluded(g, n, R):
                    # pruning at the directory itself: whenever the visited root is excluded its list of sub-directories is emptied,
                    # so nothing below an excluded directory is ever visited (the root itself still has to be tested by the body)
                    return f_not(ANC)
        return TRUE

    def _walk_lazy(self, g: FuncInfo, loop: ast.For) -> bool:
        it = loop.iter
        if isinstance(it, ast.Name) and it.id not in self.facts(g).params:
            bs = self.facts(g).bind.get(it.id, [])
            if len(bs) == 1 and bs[0][0] == "val":
                it = bs[0][1]
        if isinstance(it, ast.Call) and isinstance(it.func, ast.Name) and it.func.id == "iter" and len(it.args) == 1:
            it = it.args[0]
        return rcs.is_recursive_listing(self.repo, g, it)

    def _walk_emptied_when_excluded(self, g: FuncInfo, loop: ast.For, R: frozenset) -> bool:
        """`if <excluded>(root): dirs.clear() / del dirs[:] / dirs[:] = []` (usually followed by `continue`): on every run of the loop
        body in which the root is excluded the list os.walk descends by is emptied - and nothing else ever touches that list."""
        if not (isinstance(loop.target, (ast.Tuple, ast.List)) and len(loop.target.elts) == 3 and isinstance(loop.target.elts[1], ast.Name)):
            return False
        dirs = loop.target.elts[1].id

        def slice_all(t: ast.expr) -> bool:
            return isinstance(t, ast.Subscript) and isinstance(t.value, ast.Name) and t.value.id == dirs and isinstance(t.slice, ast.Slice) and t.slice.lower is None and t.slice.upper is None and t.slice.step is None

        def empties(st: ast.AST) -> bool:
            if isinstance(st, ast.Assign) and len(st.targets) == 1 and slice_all(st.targets[0]) and rcs._is_empty(st.value):
                return True
            if isinstance(st, ast.Expr) and isinstance(st.value, ast.Call) and isinstance(st.value.func, ast.Attribute) and st.value.func.attr == "clear" and not st.value.args and isinstance(st.value.func.value, ast.Name) and st.value.func.value.id == dirs:
                return True
            return isinstance(st, ast.Delete) and len(st.targets) == 1 and slice_all(st.targets[0])

        emptiers: list[ast.stmt] = []
        body_nodes = [n for st in loop.body for n in ast.walk(st)]
        inside: set[int] = set()
        for n in body_nodes:
            if isinstance(n, ast.stmt) and empties(n):
                q, nested = parent(n), False
                while q is not None and q is not loop:
                    if isinstance(q, (ast.For, ast.AsyncFor, ast.While, ast.Try, ast.FunctionDef, ast.AsyncFunctionDef, ast.Lambda, ast.Match)):
                        nested = True
                    q = parent(q)
                if nested:
                    return False
                emptiers.append(n)
                inside |= {id(x) for x in ast.walk(n)}
        if not emptiers:
            return False
        # nothing else may touch the list (a re-bound name would make `dirs.clear()` empty another list; additions would re-fill it);
        # reading it (`for d in dirs`, `sorted(dirs)`) and re-ordering it in place are harmless
        for n in body_nodes:
            if id(n) in inside:
                continue
            if isinstance(n, ast.Name) and n.id == dirs:
                par = parent(n)
                if isinstance(n.ctx, (ast.Store, ast.Del)):
                    return False
                if isinstance(par, ast.Attribute) and par.value is n and isinstance(parent(par), ast.Call) and parent(par).func is par and par.attr in _MUTATORS and par.attr not in ("sort", "reverse"):
                    return False
                if isinstance(par, ast.Subscript) and par.value is n and isinstance(par.ctx, (ast.Store, ast.Del)):
                    return False
                if isinstance(par, ast.AugAssign) and par.target is n:
                    return False
        reached = f_or([self.guard(g, st, R) for st in emptiers])
        # relative to what holds whenever the loop runs at all (tests before the loop, about other variables)
        return implies(f_and([EXCL, ISDIR, self.guard(g, loop, None)]), reached, CONSTRAINTS)

    def _walk_start_clean(self, g: FuncInfo, loop: ast.For) -> bool:
        key = ("walkstart", g.fq, id(loop))
        if key in self._ret_cache:
            return self._ret_cache[key]
        self._ret_cache[key] = False
        call = self.recursive_source(g, loop.iter)
        ok = False
        if call is not None and lib_name(self.repo, g, call) == "os.walk" and (call.args or any(k.arg == "top" for k in call.keywords)):
            start = call.args[0] if call.args else next(k.value for k in call.keywords if k.arg == "top")
            fx = self.facts(g)
            an = fx.alias_name(start)
            if an is not None:
                rs = fx.roots(ast.Name(id=an, ctx=ast.Load()))
                Rs = rs[0] if len(rs) == 1 else fx.cls_of(an)
                anchor = stmt_of(call) or loop
                tots = [t for t in self.totals(g, anchor, Rs, 1) if satisfiable(t, CONSTRAINTS)]
                ok = bool(tots) and all(implies(t, f_not(EXCL), CONSTRAINTS) for t in tots)
        self._ret_cache[key] = ok
        return ok

    def child_total(self, parent_totals: list[Formula]) -> list[Formula]:
        """What is known about an entry `d / x` of a directory d from what is known about d: it comes out of the same recursive
        listing, and nothing above it is excluded iff that holds for d and d itself is not excluded."""
        outs = []
        for t in parent_totals:
            parts = []
            if implies(t, RECL, CONSTRAINTS):
                parts.append(RECL)
            if implies(t, f_and([f_not(ANC), f_not(EXCL)]), CONSTRAINTS):
                parts.append(f_not(ANC))
            outs.append(f_and(parts))
        return outs or [TRUE]

    def worklist_invariant(self, g: FuncInfo, R: frozenset) -> Formula:
        """What is known about a path taken out of a work list: the disjunction of the guards under which paths are put into it
        (initial content, append, extend with a filtering comprehension), projected on the canonical atoms about the path itself."""
        fx = self.facts(g)
        box = None
        for n in R:
            for b in fx.bind.get(n, []):
                if b[0] == "val" and isinstance(b[1], ast.Call) and isinstance(b[1].func, ast.Attribute) and b[1].func.attr in POPPERS:
                    box = norm(b[1].func.value)
        if box is None:
            return TRUE
        guards: list[Formula] = []

        def element(e: ast.expr, at: ast.AST, extra: list | None = None, Re: frozenset | None = None) -> None:
            if Re is None:
                an = fx.alias_name(e)
                Re = fx.cls_of(an) if an is not None else None
            if Re is None:
                guards.append(TRUE)
                return
            f = self.guard(g, at, Re)
            for c in extra or []:
                f = f_and([f, self.F(g, c, Re)])
            guards.append(project(f))

        def pushed(v: ast.expr, at: ast.AST) -> None:
            if isinstance(v, ast.Call) and isinstance(v.func, ast.Name) and v.func.id in ("list", "deque", "tuple") and len(v.args) == 1:
                v = v.args[0]
            if isinstance(v, (ast.List, ast.Tuple)):
                for el in v.elts:
                    element(el, at)
            elif isinstance(v, (ast.GeneratorExp, ast.ListComp)) and len(v.generators) == 1 and isinstance(v.generators[0].target, ast.Name):
                gen = v.generators[0]
                if fx.alias_name(v.elt) == gen.target.id:
                    element(v.elt, at, list(gen.ifs), frozenset({gen.target.id}))
                else:
                    guards.append(TRUE)
            elif isinstance(v, ast.Call) and isinstance(v.func, ast.Name) and v.func.id == "filter" and len(v.args) == 2:
                guards.append(TRUE)
            else:
                guards.append(TRUE)

        for n in own_nodes(g.node):
            if isinstance(n, (ast.Assign, ast.AnnAssign)) and n.value is not None:
                tg = n.targets if isinstance(n, ast.Assign) else [n.target]
                if any(norm(t) == box for t in tg):
                    pushed(n.value, n)
            elif isinstance(n, ast.AugAssign) and norm(n.target) == box:
                pushed(n.value, n)
            elif isinstance(n, ast.Call) and isinstance(n.func, ast.Attribute) and norm(n.func.value) == box and n.args:
                if n.func.attr in ("append", "appendleft", "add"):
                    element(n.args[0], n)
                elif n.func.attr in ("extend", "extendleft", "update"):
                    pushed(n.args[0], n)
                elif n.func.attr == "insert" and len(n.args) == 2:
                    element(n.args[1], n)
        if not guards:
            return TRUE
        return f_or(guards)

    def arg_class(self, h: FuncInfo, call: ast.Call, g: FuncInfo, R: frozenset) -> frozenset | None:
        """Alias class inside the caller h of the argument bound to a parameter of g that lies in R."""
        fh = self.facts(h)
        names = list(g.param_names)
        if g.cls is not None and g.outer is None and not g.is_staticmethod and names and isinstance(call.func, ast.Attribute):
            names = names[1:]
        def cls(a: ast.expr):
            jp = rcs.join_parts(self, h, a)
            if jp is not None:
                pn = fh.alias_name(jp[0])
                if pn is not None:
                    rs = fh.roots(ast.Name(id=pn, ctx=ast.Load()))
                    return ("child", rs[0] if len(rs) == 1 else fh.cls_of(pn))
            an = fh.alias_name(a)
            if an is not None:
                rs = fh.roots(ast.Name(id=an, ctx=ast.Load()))
                return rs[0] if len(rs) == 1 else fh.cls_of(an)
            rs = fh.roots(a)  # something derived from a path (its module name, its text): the guard is about that path
            return rs[0] if len(rs) == 1 else None

        for p, a in zip(names, call.args):
            if p in R and not isinstance(a, ast.Starred):
                return cls(a)
        for kw in call.keywords:
            if kw.arg in R:
                return cls(kw.value)
        for n in R:
            if "." in n and not n.startswith("<"):
                base, fld = n.split(".", 1)
                a = self.args_by_param(g, call).get(base)
                if isinstance(a, ast.Name) and fh.record_var(a.id) is not None:
                    rf = fh.record_field(ast.Attribute(value=ast.Name(id=a.id, ctx=ast.Load()), attr=fld, ctx=ast.Load()))
                    if rf is not None:
                        return fh.cls_of(rf)
        return None

    # ------------------------------------------------------------------ events
    def result_containers(self) -> dict[str, set[str]]:
        """Per function: textual keys of the collections whose content ends up in the entry's result."""
        entry = self.a.entry
        rc: dict[str, set[str]] = {}
        base: set[str] = set()
        for r in [n for n in own_nodes(entry.node) if isinstance(n, ast.Return) and n.value is not None]:
            for n in ast.walk(r.value):
                if isinstance(n, ast.Name):
                    base.add(n.id)
                elif isinstance(n, ast.Attribute) and isinstance(n.value, ast.Name) and n.value.id == "self":
                    base.add(norm(n))
        self_attrs = {b for b in base if b.startswith("self.")}
        rc[entry.fq] = set(base)
        changed = True
        rounds = 0
        while changed and rounds < 6:
            changed = False
            rounds += 1
            for g in self.U:
                cur = rc.setdefault(g.fq, set(self_attrs))
                for h, call in self.sites.get(g.fq, []):
                    names = list(g.param_names)
                    if g.cls is not None and g.outer is None and not g.is_staticmethod and names and isinstance(call.func, ast.Attribute):
                        names = names[1:]
                    pairs = list(zip(names, call.args)) + [(k.arg, k.value) for k in call.keywords if k.arg]
                    for p, a in pairs:
                        if norm(a) in rc.get(h.fq, set()) and p not in cur:
                            cur.add(p)
                            changed = True
        return rc

    def events(self) -> list[Event]:
        rc = self.result_containers()
        out: list[Event] = []
        for g in self.U:
            fx = self.facts(g)
            popped = {norm(c.func.value) for c in calls_in(g.node) if isinstance(c.func, ast.Attribute) and c.func.attr in POPPERS}
            mine = rc.get(g.fq, set())
            for n in own_nodes(g.node):
                if isinstance(n, ast.Call):
                    f = n.func
                    ln = lib_name(self.repo, g, n)
                    if isinstance(f, ast.Attribute) and f.attr in ("iterdir", "glob", "rglob") and not (isinstance(f.value, ast.Name) and f.value.id in ("self",)):
                        out.append(Event(g, n, "descend" if f.attr != "rglob" and not (f.attr == "glob" and n.args and "**" in (fold(self.repo, g.module, n.args[0], g) or "**")) else "recursive", f.value, f"directory listed by `{norm(n, 60)}`"))
                    elif ln in ("os.listdir", "os.scandir") and n.args:
                        out.append(Event(g, n, "descend", n.args[0], f"directory listed by `{norm(n, 60)}`"))
                    elif ln == "os.walk" and n.args:
                        out.append(Event(g, n, "recursive", n.args[0], f"directory tree walked by `{norm(n, 60)}`"))
                    elif isinstance(f, ast.Name) and f.id == "open" and n.args and ln in ("", "builtins.open", "io.open"):
                        out.append(Event(g, n, "read", n.args[0], f"file opened by `{norm(n, 60)}`"))
                    elif isinstance(f, ast.Attribute) and f.attr in READ_METHODS and fx.trace(f.value) and not (isinstance(f.value, ast.Name) and f.value.id == "self"):
                        out.append(Event(g, n, "read", f.value, f"file read by `{norm(n, 60)}`"))
                    elif ln == "ast.parse" and n.args:
                        out.append(Event(g, n, "parse", n.args[0], f"source parsed by `{norm(n, 60)}`"))
                    elif isinstance(f, ast.Attribute) and f.attr in ADDERS and n.args:
                        box = norm(f.value)
                        if box in popped or box not in mine:
                            continue
                        val = n.args[-1]
                        out.append(Event(g, n, "register", val, f"`{norm(val, 50)}` added to the result collection `{box}`"))
                elif isinstance(n, ast.AugAssign) and isinstance(n.op, ast.Add) and norm(n.target) in mine and norm(n.target) not in popped:
                    out.append(Event(g, n, "register", n.value, f"`{norm(n.value, 50)}` added to the result collection `{norm(n.target)}`"))
                elif isinstance(n, ast.Assign) and len(n.targets) == 1 and norm(n.targets[0]) in mine and norm(n.targets[0]) not in popped and any(norm(x) == norm(n.targets[0]) for x in ast.walk(n.value) if isinstance(x, (ast.Name, ast.Attribute))) and not isinstance(n.value, (ast.Name, ast.Attribute)):
                    added = [x for x in ast.walk(n.value) if isinstance(x, (ast.List, ast.Tuple, ast.Starred, ast.Call)) and norm(x) != norm(n.targets[0])]
                    val = ast.Tuple(elts=[x for x in ([n.value.right] if isinstance(n.value, ast.BinOp) else getattr(n.value, "elts", [])) if norm(x.value if isinstance(x, ast.Starred) else x) != norm(n.targets[0])] or added[:1], ctx=ast.Load())
                    out.append(Event(g, n, "register", val, f"`{norm(n.value, 50)}` becomes the result collection `{norm(n.targets[0])}`"))
                elif isinstance(n, ast.Assign) and len(n.targets) == 1 and isinstance(n.targets[0], ast.Subscript) and norm(n.targets[0].value) in mine:
                    out.append(Event(g, n, "register", ast.Tuple(elts=[n.targets[0].slice, n.value], ctx=ast.Load()), f"`{norm(n.value, 50)}` stored in the result collection `{norm(n.targets[0].value)}`"))
        return out


_CANON = [EXCL, PY, ISDIR, ISFILE, ANC, RECL]
from core.cfg import MUTATORS as _MUTATORS  # noqa: E402


def _literal_text(e: ast.expr) -> str | None:
    """Canonical text of a literal tag: a str / int constant, or a dotted member access such as `Kind.DIRECTORY` (enum member)."""
    if isinstance(e, ast.Constant) and isinstance(e.value, (str, int)) and not isinstance(e.value, bool):
        return f"const:{e.value!r}"
    if isinstance(e, ast.Attribute) and isinstance(e.value, (ast.Name, ast.Attribute)) and e.attr.isupper():
        return norm(e)
    return None


def _names(e: ast.AST) -> set[str]:
    return {n.id for n in ast.walk(e) if isinstance(n, ast.Name)}


def _subst(f: Formula, name: str, value: bool) -> Formula:
    k = f[0]
    if k == "atom":
        return (TRUE if value else FALSE) if f[1] == name else f
    if k == "const":
        return f
    if k == "not":
        return f_not(_subst(f[1], name, value))
    parts = [_subst(x, name, value) for x in f[1]]
    return f_and(parts) if k == "and" else f_or(parts)


def project(f: Formula) -> Formula:
    """Strongest formula over the canonical path atoms implied by f (the other atoms are existentially quantified)."""
    import itertools

    from core.guards import atoms_of, evaluate

    names = [a[1] for a in _CANON]
    others = sorted(atoms_of(f) - set(names))
    if len(others) > 10:
        return TRUE
    rows = []
    for vals in itertools.product([False, True], repeat=len(names)):
        env = dict(zip(names, vals))
        if any(evaluate(f, {**env, **dict(zip(others, ov))}) for ov in itertools.product([False, True], repeat=len(others))):
            rows.append(f_and([atom(n) if v else f_not(atom(n)) for n, v in env.items()]))
    if len(rows) == 2 ** len(names):
        return TRUE
    return f_or(rows)


def _check_records(sc: "Scan", repo: Repo, res: Result, rule: str) -> int:
    """Records of excluded directories that a pruning test relies on: filled with excluded paths only, and with every excluded
    directory that is reached."""
    from core.guards import atoms_of

    n = 0
    canon = {a[1] for a in _CANON}
    for r in sc.used_records.values():
        if not r.adds:
            continue
        g0, node0, _v = r.adds[0]
        key = f"{g0.relpath}::{getattr(g0, 'shown', g0.qualname)}::record of excluded directories `{r.key}`"
        guards = []
        entry_facts = []
        for g, node, var in r.adds:
            guards.append(sc.guard(g, node, sc.facts(g).cls_of(var)))
            lp = parent(node)
            while lp is not None and not isinstance(lp, (ast.For, ast.While)):
                lp = parent(lp)
            if lp is not None:
                entry_facts.append(sc.guard(g, lp, None))  # what holds for the whole loop (about other variables)
        n += 1
        shrink = [(g, node) for g in sc.U for node in own_nodes(g.node) if isinstance(node, ast.Call) and isinstance(node.func, ast.Attribute) and node.func.attr in ("clear", "remove", "pop", "discard", "popleft") and norm(node.func.value) == r.key]
        if shrink or r.other_writes:
            res.undecide(rule, key, f"the record is also modified by `{norm((shrink or r.other_writes)[0][1], 60)}`", where(g0, node0))
            continue
        only = all(implies(G, EXCL, CONSTRAINTS) for G in guards)
        every = implies(f_and([ISDIR, EXCL, f_not(ANC), *entry_facts]), f_or(guards), CONSTRAINTS)
        if only and every:
            res.add(rule, key, True, "holds exactly the excluded directories that were reached (parents are listed before their children)", where(g0, node0), kind="dominance")
        elif any(atoms_of(G) - canon for G in guards):
            res.undecide(rule, key, "the condition under which a path is recorded contains parts the analysis cannot interpret", where(g0, node0))
        else:
            res.add(rule, key, False, ("a path that is not excluded is recorded as excluded: everything below it is dropped" if not only else "not every excluded directory that is reached is recorded: what lies below the others is still scanned"), where(g0, node0), kind="dominance")
    return n


def run(repo: Repo, res: Result, rule: str, anchors: Anchors | None = None) -> int:
    a = anchors or discover(repo)
    if not a.pred_names:
        res.undecide(rule, f"{a.entry.relpath}::{a.entry.qualname}", "no call of an exclusion predicate (a one-argument method of a class that applies regular expressions) is reachable from the scan", where(a.entry, a.entry.node))
        return 0
    sc = Scan(repo, a)
    evs = sc.events()
    kinds: dict[str, int] = {}
    n = 0
    for ev in evs:
        g, fx = ev.g, sc.facts(ev.g)
        key = repo.key(g, stmt_of(ev.node)) + f" [{ev.kind}: {norm(ev.node, 50) if isinstance(ev.node, ast.Call) else norm(ev.subject, 50)}]"
        if ev.kind == "recursive":
            # the listing descends by itself: the obligation moves to every path that comes out of it (guard => not ANC, below)
            loops = [n for n in own_nodes(g.node) if isinstance(n, (ast.For, ast.comprehension)) and sc.recursive_source(g, n.iter) is not None]
            if not loops:
                res.undecide(rule, key, "the result of this recursive listing is not iterated by a loop the analysis can follow: no verdict on whether paths below an excluded directory are skipped", where(g, ev.node))
            elif any(rcs.reversed_order(lp.iter) for lp in loops):
                res.undecide(rule, key, "the recursive listing is iterated in reversed order: children may come before their (excluded) parent, pruning by a record of excluded directories cannot be relied on", where(g, ev.node))
            else:
                kinds["descend"] = kinds.get("descend", 0) + 1
                n += 1
                res.add(rule, key, True, "recursive listing (descends by itself): every path taken from it must be guarded by `no excluded directory above it` - checked at each register / read / parse event", where(g, ev.node), nontrivial=False, kind="dominance")
            continue
        roots = fx.roots(ev.subject)
        if not roots:
            if ev.kind == "register":
                continue  # a constant / path-independent value
            res.undecide(rule, key, f"the path this {ev.kind} event works on cannot be traced to a variable", where(g, ev.node))
            continue
        kinds[ev.kind] = kinds.get(ev.kind, 0) + 1
        n += 1
        ok, why = True, ""
        routed = None
        for R in roots:
            sc.derived_gate = []
            sc.prefix_bugs = []
            for total in sc.totals(g, ev.node, R):
                if not satisfiable(total, CONSTRAINTS):
                    continue
                is_dir_event = ev.kind == "descend" or implies(total, ISDIR, CONSTRAINTS)
                if not implies(total, f_not(EXCL), CONSTRAINTS):
                    hidden = sc.routed_verdict(total)
                    if hidden and not sc.derived_gate:
                        routed = hidden
                        continue
                    ok = False
                    gate = f"; the exclusion test is applied to something else than the path itself ({'; '.join(sorted(set(sc.derived_gate))[:2])})" if sc.derived_gate else ""
                    why = f"{ev.what} although no exclusion test on `{'/'.join(sorted(R))}` rejected it first{gate}: " + ("the children of an excluded directory are still scanned" if ev.kind == "descend" else "an excluded directory is registered as a module" if is_dir_event else "an excluded file still contributes a module / imports")
                    break
                # paths out of a recursive listing: nothing above them may be excluded
                if implies(total, RECL, CONSTRAINTS) and not implies(total, f_not(ANC), CONSTRAINTS):
                    hidden = sc.routed_verdict(total)
                    if hidden and not sc.prefix_bugs:
                        routed = hidden
                        continue
                    ok = False
                    if sc.prefix_bugs:
                        why = f"{ev.what} for a path taken from a recursive listing; the only pruning below excluded directories is a raw string-prefix test ({'; '.join(sc.prefix_bugs[:2])}): excluding the directory `gen` also drops its siblings `gen_utils.py`, `genius.py`, `general/` - whole path components must be compared (`d in p.parents`, `p.is_relative_to(d)`, `startswith(str(d) + os.sep)`)"
                    else:
                        why = f"{ev.what} for a path taken from a recursive listing although nothing shows that no directory above `{'/'.join(sorted(R))}` is excluded: everything below an excluded directory still contributes"
                    break
                # file events: whenever the path is a file, it must be a python source
                if ev.kind != "descend" and not implies(f_and([total, ISFILE]), PY, CONSTRAINTS) and not implies(total, ISDIR, CONSTRAINTS):
                    ok = False
                    why = f"{ev.what} without the test that the file's suffix is '.py': files that are no python sources are read / parsed"
                    break
            if not ok:
                break
        if not ok and sc.walk_notes and "suffix is '.py'" not in why:
            why += "; " + "; ".join(sc.walk_notes[:2])
        if ok and routed:
            res.undecide(rule, key, f"the verdict of the exclusion test reaches this point through `{routed}`, which the analysis cannot follow: no verdict on whether it guards the {ev.kind}", where(g, ev.node))
            continue
        res.add(rule, key, ok, (f"{ev.what} only after the exclusion test on its own path" + ("" if ev.kind == "descend" else " (and, for files, the '.py' test)")) if ok else why, where(g, ev.node), kind="dominance")
    n += _check_records(sc, repo, res, rule)
    res.extra.setdefault("c08_scan", {"entry": a.entry.fq, "filter_class": a.filter_cls.fq if a.filter_cls else None, "predicate": sorted(a.pred_names), "events": kinds, "functions": [f.qualname for f in a.universe]})
    for k in ("descend", "read", "parse", "register"):
        if not kinds.get(k):
            res.undecide(rule, f"{a.entry.relpath}::{a.entry.qualname}::{k} events", f"no `{k}` event found in the scan (functions looked at: {', '.join(f.qualname for f in a.universe)})", where(a.entry, a.entry.node))
    return n
