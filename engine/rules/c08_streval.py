"""Abstract interpretation of a pure string function over a *symbolic string domain* (used for the glob -> regex converter).

The checker's own evaluator walks the AST of the function (and of the repo helpers / module constants it uses).  Nothing of the
repository is imported or run by Python: the only real functions that are ever called are builtins / `str` methods / `re.escape`
on values the evaluator computed itself.

Domain.  The input string is written  m = P + X + S  with P, S in {"", "*"} and X an *opaque* text of unknown content and unknown
length L >= 1 about which only two facts may be known (`X does not start with '*'`, `X does not end with '*'`).  A string value is
either a Python `str` (fully known) or a `SymStr`: a sequence of pieces

    ("lit", text)      known text
    ("raw", a, b)      X[a : L-b]   (un-escaped user text)
    ("esc", a, b)      re.escape(X[a : L-b])
    ("head",) ("tail",) the first / the last character of X (from `m[:1]`, `m[0]`, `m[-1:]`, `m[-1]`; only comparable with literals)

Repo classes are interpreted as far as a converter needs them: `Cls(...)` builds a `Record` (NamedTuple / dataclass fields in
declaration order with defaults, or whatever a plain `__init__` assigns to self), `obj.field`, properties, bound / class / static methods,
class constants, tuple unpacking and indexing of NamedTuples; bools are ints wherever Python takes them as ints (slice bounds, indices,
arithmetic).  Integers are Python ints or `SymInt(c, k)` = c + k*L.  Every operation is either computed exactly on this representation or raises
`Unknown` (the domain cannot express the result - e.g. `m.strip('*')` when it is not known whether X starts with '*').  With X
instantiated by a concrete text the same evaluator degenerates to constant folding, which is how counterexamples are produced.
"""

from __future__ import annotations

import ast
import re
import string as _string
from dataclasses import dataclass

from core.loader import ClassInfo, FuncInfo, ModuleInfo, Repo, norm

LMIN = 1  # minimal length of the opaque text X


class Unknown(Exception):
    """The symbolic domain cannot express the result of `node`."""

    def __init__(self, node: ast.AST | None, why: str) -> None:
        super().__init__(why)
        self.node = node
        self.why = why


class Unsupported(Exception):
    """A construct the evaluator does not interpret at all (also not on concrete values)."""

    def __init__(self, node: ast.AST | None, why: str) -> None:
        super().__init__(why)
        self.node = node
        self.why = why


class Raised(Exception):
    """The evaluated code raises."""

    def __init__(self, kind: str, node: ast.AST | None = None) -> None:
        super().__init__(kind)
        self.kind = kind
        self.node = node


@dataclass(frozen=True)
class SymInt:
    c: int
    k: int  # c + k*L, L >= LMIN

    def minimum(self) -> int | None:
        return self.c + self.k * LMIN if self.k >= 0 else None

    def maximum(self) -> int | None:
        return self.c + self.k * LMIN if self.k <= 0 else None


def _mk_int(c: int, k: int):
    return c if k == 0 else SymInt(c, k)


@dataclass(frozen=True)
class XInfo:
    first_not_star: bool = False
    last_not_star: bool = False


@dataclass(frozen=True)
class SymStr:
    pieces: tuple  # never only literals (that is a plain str)

    def __repr__(self) -> str:
        return "SymStr(" + show(self) + ")"


def show(v) -> str:
    """Readable form of a value: literal text in quotes, the opaque text as <text>, escaped as esc(<text>)."""
    if not isinstance(v, SymStr):
        return repr(v)
    out = []
    for p in v.pieces:
        if p[0] == "lit":
            out.append(repr(p[1]))
        elif p[0] in ("head", "tail"):
            out.append("<first character of text>" if p[0] == "head" else "<last character of text>")
        else:
            sl = "" if (p[1], p[2]) == (0, 0) else f"[{p[1] or ''}:{-p[2] if p[2] else ''}]"
            out.append(f"<text>{sl}" if p[0] == "raw" else f"escape(<text>{sl})")
    return " + ".join(out)


def mk(pieces) -> "str | SymStr":
    out: list = []
    for p in pieces:
        if p[0] == "lit":
            if not p[1]:
                continue
            if out and out[-1][0] == "lit":
                out[-1] = ("lit", out[-1][1] + p[1])
            else:
                out.append(p)
        else:
            out.append(p)
    if all(p[0] == "lit" for p in out):
        return "".join(p[1] for p in out)
    return SymStr(tuple(out))


def pieces_of(v) -> list:
    if isinstance(v, SymStr):
        return list(v.pieces)
    if isinstance(v, str):
        return [("lit", v)] if v else []
    raise TypeError(type(v).__name__)


def is_strlike(v) -> bool:
    return isinstance(v, (str, SymStr))


# --------------------------------------------------------------------------- symbolic string operations


def sym_len(s: SymStr, node=None):
    c = k = 0
    for p in s.pieces:
        if p[0] == "lit":
            c += len(p[1])
        elif p[0] in ("head", "tail"):
            c += 1
        elif p[0] == "raw":
            # X[a:L-b] has max(0, L-a-b) characters; exact only when that is known to be non-negative
            if LMIN - p[1] - p[2] < 0:
                raise Unknown(node, "length of a slice of the opaque text that may be empty")
            c -= p[1] + p[2]
            k += 1
        else:
            raise Unknown(node, "length of escaped text")
    return _mk_int(c, k)


def min_len(s: SymStr) -> int:
    n = 0
    for p in s.pieces:
        if p[0] == "lit":
            n += len(p[1])
        elif p[0] in ("head", "tail"):
            n += 1
        else:
            n += max(0, LMIN - p[1] - p[2])
    return n


def cut_front(pieces: list, k: int, node=None) -> list:
    out = list(pieces)
    while k > 0 and out:
        p = out[0]
        if p[0] == "lit":
            take = min(k, len(p[1]))
            rest = p[1][take:]
            out[0:1] = [("lit", rest)] if rest else []
            k -= take
        elif p[0] in ("head", "tail"):
            out.pop(0)
            k -= 1
        elif p[0] == "raw":
            if len(out) == 1 or k <= LMIN - p[1] - p[2]:
                out[0] = ("raw", p[1] + k, p[2])
                k = 0
            else:
                raise Unknown(node, "a cut that may run past the end of the opaque text")
        else:
            raise Unknown(node, "slicing into escaped text")
    return out


def cut_back(pieces: list, k: int, node=None) -> list:
    out = list(pieces)
    while k > 0 and out:
        p = out[-1]
        if p[0] == "lit":
            take = min(k, len(p[1]))
            rest = p[1][: len(p[1]) - take]
            out[-1:] = [("lit", rest)] if rest else []
            k -= take
        elif p[0] in ("head", "tail"):
            out.pop()
            k -= 1
        elif p[0] == "raw":
            if len(out) == 1 or k <= LMIN - p[1] - p[2]:
                out[-1] = ("raw", p[1], p[2] + k)
                k = 0
            else:
                raise Unknown(node, "a cut that may run past the start of the opaque text")
        else:
            raise Unknown(node, "slicing into escaped text")
    return out


def _pos(v, total, node, default):
    """Slice bound -> ("s", n) from the start | ("e", n) from the end."""
    if v is None:
        return default
    if not isinstance(v, (int, SymInt)):
        raise Unknown(node, f"slice bound {v!r}")
    if isinstance(v, bool):
        v = int(v)  # bool is an int: s[True:] is s[1:]
    if isinstance(v, int):
        return ("s", v) if v >= 0 else ("e", -v)
    if isinstance(total, SymInt) and v.k == total.k:
        d = total.c - v.c
        return ("e", d) if d >= 0 else ("e", 0)
    raise Unknown(node, "slice bound that is not `len - n`")


def sym_slice(s: SymStr, lo, up, step, node=None):
    if step is not None and step != 1:
        raise Unknown(node, "slice with a step")
    try:
        total = sym_len(s, node)
    except Unknown:
        total = None
    a = _pos(lo, total, node, ("s", 0))
    b = _pos(up, total, node, ("e", 0))
    ps = list(s.pieces)
    if b[0] == "s":
        # an absolute upper bound: only inside the leading literal
        if b[1] == 0:
            return ""
        if ps and ps[0][0] == "lit" and b[1] <= len(ps[0][1]) and a[0] == "s":
            return ps[0][1][a[1] : b[1]]
        if ps and ps[0][0] == "raw" and ps[0][1] == 0 and LMIN - ps[0][2] >= 1 and a == ("s", 0) and b[1] == 1:
            return SymStr((("head",),))
        raise Unknown(node, "slice with an absolute upper bound inside the opaque text")
    if a[0] == "e":
        if ps and ps[-1][0] == "lit" and a[1] <= len(ps[-1][1]):
            lit = ps[-1][1]
            return lit[len(lit) - a[1] : len(lit) - b[1]] if a[1] else ""
        if ps and ps[-1][0] == "raw" and ps[-1][2] == 0 and LMIN - ps[-1][1] >= 1 and a == ("e", 1) and b == ("e", 0):
            return SymStr((("tail",),))
        raise Unknown(node, "slice with a lower bound counted from the end inside the opaque text")
    ps = cut_front(ps, a[1], node)
    ps = cut_back(ps, b[1], node)
    return mk(ps)


def sym_startswith(s: SymStr, prefix: str, x: XInfo, node=None) -> bool:
    if prefix == "":
        return True
    ps = list(s.pieces)
    i = 0
    for p in ps:
        if i >= len(prefix):
            return True
        if p[0] == "lit":
            seg = prefix[i : i + len(p[1])]
            if p[1][: len(seg)] != seg:
                return False
            i += len(seg)
            if len(seg) < len(p[1]):
                return True
        elif p[0] == "head" or (p[0] == "tail" and LMIN == 1 and False):
            if prefix[i] == "*" and x.first_not_star:
                return False
            raise Unknown(node, "the first character of the opaque text")
        elif p[0] == "tail":
            raise Unknown(node, "the last character of the opaque text")
        elif p[0] == "raw":
            if p[1] == 0 and LMIN - p[2] >= 1 and prefix[i] == "*" and x.first_not_star:
                return False
            raise Unknown(node, f"whether the opaque text starts with {prefix[i:]!r}")
        else:
            raise Unknown(node, "prefix test on escaped text")
    if i >= len(prefix):
        return True
    return False


def sym_endswith(s: SymStr, suffix: str, x: XInfo, node=None) -> bool:
    if suffix == "":
        return True
    ps = list(s.pieces)
    i = len(suffix)
    for p in reversed(ps):
        if i <= 0:
            return True
        if p[0] == "lit":
            seg = suffix[max(0, i - len(p[1])) : i]
            if not p[1].endswith(seg):
                return False
            i -= len(seg)
            if len(seg) < len(p[1]):
                return True
        elif p[0] == "tail":
            if suffix[i - 1] == "*" and x.last_not_star:
                return False
            raise Unknown(node, "the last character of the opaque text")
        elif p[0] == "head":
            raise Unknown(node, "the first character of the opaque text")
        elif p[0] == "raw":
            if p[2] == 0 and LMIN - p[1] >= 1 and suffix[i - 1] == "*" and x.last_not_star:
                return False
            raise Unknown(node, f"whether the opaque text ends with {suffix[:i]!r}")
        else:
            raise Unknown(node, "suffix test on escaped text")
    return i <= 0


def sym_strip(s: SymStr, chars, x: XInfo, left: bool, right: bool, node=None):
    if chars is None or not isinstance(chars, str):
        raise Unknown(node, "strip() of white space / unknown characters on the opaque text")
    ps = list(s.pieces)
    if left:
        while ps:
            p = ps[0]
            if p[0] == "lit":
                rest = p[1].lstrip(chars)
                if rest:
                    ps[0] = ("lit", rest)
                    break
                ps.pop(0)
            elif p[0] == "raw" and p[1] == 0 and LMIN - p[2] >= 1 and chars == "*" and x.first_not_star:
                break
            else:
                raise Unknown(node, f"strip({chars!r}) removes an unknown number of characters of the opaque text")
    if right:
        while ps:
            p = ps[-1]
            if p[0] == "lit":
                rest = p[1].rstrip(chars)
                if rest:
                    ps[-1] = ("lit", rest)
                    break
                ps.pop()
            elif p[0] == "raw" and p[2] == 0 and LMIN - p[1] >= 1 and chars == "*" and x.last_not_star:
                break
            else:
                raise Unknown(node, f"strip({chars!r}) removes an unknown number of characters of the opaque text")
    return mk(ps)


def sym_escape(v, node=None):
    out = []
    for p in pieces_of(v):
        if p[0] == "lit":
            out.append(("lit", re.escape(p[1])))
        elif p[0] == "raw":
            out.append(("esc", p[1], p[2]))
        elif p[0] in ("head", "tail"):
            raise Unknown(node, "escaping a single character of the opaque text")
        else:
            raise Unknown(node, "text escaped twice")
    return mk(out)


def concat(vals, node=None):
    ps: list = []
    for v in vals:
        if not is_strlike(v):
            raise Raised("TypeError", node)
        ps += pieces_of(v)
    return mk(ps)


def sym_eq(a, b, node=None, x: "XInfo | None" = None) -> bool:
    for s_, c_ in ((a, b), (b, a)):
        if isinstance(s_, SymStr) and len(s_.pieces) == 1 and s_.pieces[0][0] in ("head", "tail") and isinstance(c_, str):
            if len(c_) != 1:
                return False
            if c_ == "*" and x is not None and (x.first_not_star if s_.pieces[0][0] == "head" else x.last_not_star):
                return False
            raise Unknown(node, "a single character of the opaque text")
    if isinstance(a, SymStr) and isinstance(b, SymStr):
        if a.pieces == b.pieces:
            return True
        raise Unknown(node, "comparison of two symbolic texts")
    s, c = (a, b) if isinstance(a, SymStr) else (b, a)
    if not isinstance(c, str):
        return False
    if min_len(s) > len(c):
        return False
    raise Unknown(node, f"comparison of a symbolic text with {c!r}")


# --------------------------------------------------------------------------- the evaluator

STR_METHODS = {
    "startswith", "endswith", "strip", "lstrip", "rstrip", "removeprefix", "removesuffix", "replace", "split", "rsplit", "join", "lower", "upper",
    "find", "rfind", "index", "rindex", "count", "partition", "rpartition", "format", "isalnum", "isalpha", "isdigit", "isidentifier", "title",
    "capitalize", "casefold", "center", "ljust", "rjust", "zfill", "splitlines", "translate", "isspace", "islower", "isupper", "expandtabs", "swapcase",
}
SAFE_BUILTINS = {
    "len": len, "str": str, "bool": bool, "int": int, "min": min, "max": max, "range": range, "tuple": tuple, "list": list, "reversed": reversed,
    "sorted": sorted, "any": any, "all": all, "enumerate": enumerate, "zip": zip, "abs": abs, "sum": sum, "repr": repr, "ord": ord, "chr": chr, "set": set,
    "frozenset": frozenset, "dict": dict, "iter": iter, "next": next, "map": map, "filter": filter,
}
SAFE_RE = {"escape": re.escape, "sub": re.sub, "split": re.split, "subn": re.subn, "match": re.match, "fullmatch": re.fullmatch, "search": re.search, "compile": re.compile, "findall": re.findall}
RE_OBJECT_METHODS = {"group", "groups", "groupdict", "start", "end", "span", "match", "fullmatch", "search", "sub", "split", "findall", "expand"}
PY_ERRORS = (IndexError, TypeError, ValueError, KeyError, AttributeError, ZeroDivisionError, StopIteration, re.error)


@dataclass(frozen=True)
class FuncRef:
    fi: FuncInfo


@dataclass(frozen=True)
class LibRef:
    name: str  # "re", "re.escape", "builtins.len", "str.join"


@dataclass(frozen=True)
class Bound:
    recv: object
    name: str


@dataclass(frozen=True, eq=False)
class Closure:
    node: ast.Lambda
    env: dict
    fi: FuncInfo


@dataclass(frozen=True)
class ClassRef:
    ci: ClassInfo


@dataclass(eq=False)
class Record:
    """An instance of a repo class: its fields / instance attributes (NamedTuple, dataclass, or a class with a plain __init__)."""

    ci: ClassInfo
    fields: dict
    frozen: bool = False
    is_tuple: bool = False


@dataclass(frozen=True, eq=False)
class BoundMethod:
    fi: FuncInfo
    recv: object  # Record | ClassRef


_FUNCS = (FuncRef, LibRef, Bound, Closure, ClassRef, BoundMethod)


class _Return(Exception):
    def __init__(self, value) -> None:
        self.value = value


class _Break(Exception):
    pass


class _Continue(Exception):
    pass


class Evaluator:
    def __init__(self, repo: Repo, x: XInfo | None = None, budget: int = 50000) -> None:
        self.repo = repo
        self.x = x or XInfo()
        self.budget = budget
        self.steps = 0
        self.depth = 0
        self._const_cache: dict = {}

    # ------------------------------------------------------------------ calls
    def call(self, fi: FuncInfo, args: list, kwargs: dict | None = None, node=None, bound: bool = False):
        kwargs = kwargs or {}
        if isinstance(fi.node, ast.Lambda):
            env = self._bind(fi, args, kwargs, node)
            return self.eval(fi.node.body, env, fi)
        for n in ast.walk(fi.node):
            if isinstance(n, (ast.Yield, ast.YieldFrom, ast.Await)):
                raise Unsupported(n, "generator / coroutine")
        self.depth += 1
        if self.depth > 12:
            raise Unsupported(node, "call depth")
        try:
            env = self._bind(fi, args, kwargs, node, bound)
            try:
                self.block(fi.node.body, env, fi)
            except _Return as r:
                return r.value
            return None
        finally:
            self.depth -= 1

    def _bind(self, fi: FuncInfo, args: list, kwargs: dict, node, bound: bool = False) -> dict:
        a = fi.node.args
        if a.vararg or a.kwarg:
            raise Unsupported(node, "*args / **kwargs")
        pos = [p.arg for p in [*a.posonlyargs, *a.args]]
        if fi.cls is not None and fi.outer is None and not fi.is_staticmethod and not isinstance(fi.node, ast.Lambda) and not bound:
            raise Unsupported(node, f"method call {fi.qualname}")
        if len(args) > len(pos):
            raise Raised("TypeError", node)
        env = dict(zip(pos, args))
        names = pos + [p.arg for p in a.kwonlyargs]
        for k, v in kwargs.items():
            if k not in names or k in env:
                raise Raised("TypeError", node)
            env[k] = v
        pos_all = [*a.posonlyargs, *a.args]
        for p, d in zip(pos_all[len(pos_all) - len(a.defaults) :], a.defaults):
            if p.arg not in env:
                env[p.arg] = self.eval(d, {}, fi)
        for p, d in zip(a.kwonlyargs, a.kw_defaults):
            if d is not None and p.arg not in env:
                env[p.arg] = self.eval(d, {}, fi)
        if any(n not in env for n in names):
            raise Raised("TypeError", node)
        return env

    # ------------------------------------------------------------------ statements
    def block(self, stmts: list, env: dict, fi: FuncInfo) -> None:
        for s in stmts:
            self.stmt(s, env, fi)

    def _tick(self, node) -> None:
        self.steps += 1
        if self.steps > self.budget:
            raise Unsupported(node, "evaluation budget exhausted (loop?)")

    def stmt(self, s: ast.stmt, env: dict, fi: FuncInfo) -> None:
        self._tick(s)
        if isinstance(s, ast.Expr):
            if isinstance(s.value, ast.Constant):
                return
            self.eval(s.value, env, fi)
        elif isinstance(s, ast.Assign):
            v = self.eval(s.value, env, fi)
            for t in s.targets:
                self.assign(t, v, env, fi)
        elif isinstance(s, ast.AnnAssign):
            if s.value is not None:
                self.assign(s.target, self.eval(s.value, env, fi), env, fi)
        elif isinstance(s, ast.AugAssign):
            cur = self.eval(_load(s.target), env, fi)
            v = self.binop(s.op, cur, self.eval(s.value, env, fi), s)
            self.assign(s.target, v, env, fi)
        elif isinstance(s, ast.If):
            self.block(s.body if self.truth(self.eval(s.test, env, fi), s.test) else s.orelse, env, fi)
        elif isinstance(s, ast.Return):
            raise _Return(self.eval(s.value, env, fi) if s.value is not None else None)
        elif isinstance(s, ast.Pass):
            return
        elif isinstance(s, ast.Raise):
            name = "Exception"
            if s.exc is not None:
                e = s.exc.func if isinstance(s.exc, ast.Call) else s.exc
                name = norm(e)
            raise Raised(name, s)
        elif isinstance(s, ast.Assert):
            if not self.truth(self.eval(s.test, env, fi), s.test):
                raise Raised("AssertionError", s)
        elif isinstance(s, (ast.For,)):
            it = self.iterate(self.eval(s.iter, env, fi), s.iter)
            broke = False
            for item in it:
                self._tick(s)
                self.assign(s.target, item, env, fi)
                try:
                    self.block(s.body, env, fi)
                except _Break:
                    broke = True
                    break
                except _Continue:
                    continue
            if not broke:
                self.block(s.orelse, env, fi)
        elif isinstance(s, ast.While):
            broke = False
            while self.truth(self.eval(s.test, env, fi), s.test):
                self._tick(s)
                try:
                    self.block(s.body, env, fi)
                except _Break:
                    broke = True
                    break
                except _Continue:
                    continue
            if not broke:
                self.block(s.orelse, env, fi)
        elif isinstance(s, ast.Break):
            raise _Break()
        elif isinstance(s, ast.Continue):
            raise _Continue()
        elif isinstance(s, (ast.Import, ast.ImportFrom)):
            return
        else:
            raise Unsupported(s, f"statement {type(s).__name__}")

    def assign(self, t: ast.expr, v, env: dict, fi: FuncInfo) -> None:
        if isinstance(t, ast.Name):
            env[t.id] = v
        elif isinstance(t, (ast.Tuple, ast.List)):
            items = list(self.iterate(v, t))
            if len(items) != len(t.elts) or any(isinstance(e, ast.Starred) for e in t.elts):
                raise Unsupported(t, "unpacking")
            for e, i in zip(t.elts, items):
                self.assign(e, i, env, fi)
        elif isinstance(t, ast.Subscript):
            box = self.eval(t.value, env, fi)
            if isinstance(box, (list, dict)):
                try:
                    box[self.eval(t.slice, env, fi)] = v
                except PY_ERRORS as e:
                    raise Raised(type(e).__name__, t) from None
            else:
                raise Unsupported(t, "item assignment")
        elif isinstance(t, ast.Attribute):
            box = self.eval(t.value, env, fi)
            if not isinstance(box, Record):
                raise Unsupported(t, "attribute assignment")
            if box.frozen:
                raise Raised("AttributeError", t)
            box.fields[t.attr] = v
        else:
            raise Unsupported(t, "assignment target")

    def iterate(self, v, node):
        if isinstance(v, (list, tuple, range, str, set, frozenset, dict)):
            return list(v)
        if isinstance(v, Record) and v.is_tuple:
            return list(v.fields.values())
        if isinstance(v, (SymStr, SymInt)):
            raise Unknown(node, "iteration over a symbolic value")
        if hasattr(v, "__iter__") and type(v).__name__ in ("map", "filter", "zip", "enumerate", "reversed", "list_iterator", "generator", "tuple_iterator", "str_ascii_iterator", "str_iterator", "range_iterator", "list_reverseiterator"):
            return list(v)
        raise Raised("TypeError", node)

    # ------------------------------------------------------------------ expressions
    def truth(self, v, node) -> bool:
        if isinstance(v, SymStr):
            if min_len(v) > 0:
                return True
            raise Unknown(node, "truthiness of a symbolic text that may be empty")
        if isinstance(v, SymInt):
            lo, hi = v.minimum(), v.maximum()
            if lo is not None and lo > 0:
                return True
            if hi is not None and hi < 0:
                return True
            raise Unknown(node, "truthiness of a symbolic length")
        if isinstance(v, _FUNCS):
            return True
        if isinstance(v, Record):
            if v.is_tuple:
                return bool(v.fields)
            if any(self.repo.lookup_method(v.ci, m) is not None for m in ("__bool__", "__len__")):
                raise Unsupported(node, f"truthiness of a {v.ci.name}")
            return True
        return bool(v)

    def lookup(self, name: str, env: dict, fi: FuncInfo, node):
        if name in env:
            return env[name]
        return self.module_name(fi.module, name, node)

    def module_name(self, mod: ModuleInfo, name: str, node):
        if name in mod.functions:
            return FuncRef(mod.functions[name])
        if name in mod.classes:
            return ClassRef(mod.classes[name])
        if name in mod.constants:
            key = (mod.name, name)
            if key not in self._const_cache:
                self._const_cache[key] = None
                holder = FuncInfo(name="<module>", qualname="<module>", node=ast.Lambda(args=ast.arguments(posonlyargs=[], args=[], kwonlyargs=[], kw_defaults=[], defaults=[]), body=mod.constants[name]), module=mod)
                self._const_cache[key] = self.eval(mod.constants[name], {}, holder)
            return self._const_cache[key]
        if name in mod.imports:
            fq = self.repo._canonical(mod.imports[name])
            m2, _, attr = fq.rpartition(".")
            om = self.repo.modules.get(m2)
            if om is not None:
                return self.module_name(om, attr, node)
            if fq in self.repo.modules:
                return LibRef("mod:" + fq)
            return LibRef(fq)
        if name in SAFE_BUILTINS:
            return LibRef("builtins." + name)
        if name in ("True", "False", "None"):
            return {"True": True, "False": False, "None": None}[name]
        raise Unsupported(node, f"name `{name}`")

    def eval(self, e: ast.expr, env: dict, fi: FuncInfo):
        self._tick(e)
        m = getattr(self, "e_" + type(e).__name__, None)
        if m is None:
            raise Unsupported(e, f"expression {type(e).__name__}")
        try:
            return m(e, env, fi)
        except PY_ERRORS as ex:
            raise Raised(type(ex).__name__, e) from None

    def e_Constant(self, e, env, fi):
        return e.value

    def e_Name(self, e, env, fi):
        return self.lookup(e.id, env, fi, e)

    def e_NamedExpr(self, e, env, fi):
        v = self.eval(e.value, env, fi)
        env[e.target.id] = v
        return v

    def e_JoinedStr(self, e, env, fi):
        parts = []
        for v in e.values:
            if isinstance(v, ast.Constant):
                parts.append(str(v.value))
            else:
                x = self.eval(v.value, env, fi)
                if v.format_spec is not None or v.conversion not in (-1, 115):
                    if is_strlike(x) and not isinstance(x, SymStr):
                        spec = self.eval(v.format_spec, env, fi) if v.format_spec is not None else ""
                        x = format(repr(x) if v.conversion == 114 else x, spec)
                    else:
                        raise Unknown(v, "format specification on a symbolic value")
                parts.append(x if is_strlike(x) else self.to_str(x, v))
        return concat(parts, e)

    def to_str(self, v, node):
        if is_strlike(v):
            return v
        if isinstance(v, SymInt):
            raise Unknown(node, "text of a symbolic length")
        if isinstance(v, _FUNCS):
            raise Unsupported(node, "str() of a function")
        return str(v)

    def e_Tuple(self, e, env, fi):
        return tuple(self._elts(e.elts, env, fi))

    def e_List(self, e, env, fi):
        return list(self._elts(e.elts, env, fi))

    def e_Set(self, e, env, fi):
        vals = self._elts(e.elts, env, fi)
        if any(isinstance(v, (SymStr, SymInt)) for v in vals):
            raise Unknown(e, "set of symbolic values")
        return set(vals)

    def e_Dict(self, e, env, fi):
        out = {}
        for k, v in zip(e.keys, e.values):
            if k is None:
                raise Unsupported(e, "dict unpacking")
            kv = self.eval(k, env, fi)
            if isinstance(kv, (SymStr, SymInt)):
                raise Unknown(e, "symbolic dict key")
            out[kv] = self.eval(v, env, fi)
        return out

    def _elts(self, elts, env, fi):
        out = []
        for x in elts:
            if isinstance(x, ast.Starred):
                out += list(self.iterate(self.eval(x.value, env, fi), x))
            else:
                out.append(self.eval(x, env, fi))
        return out

    def e_IfExp(self, e, env, fi):
        return self.eval(e.body if self.truth(self.eval(e.test, env, fi), e.test) else e.orelse, env, fi)

    def e_BoolOp(self, e, env, fi):
        v = None
        for x in e.values:
            v = self.eval(x, env, fi)
            t = self.truth(v, x)
            if isinstance(e.op, ast.And) and not t:
                return v
            if isinstance(e.op, ast.Or) and t:
                return v
        return v

    def e_UnaryOp(self, e, env, fi):
        v = self.eval(e.operand, env, fi)
        if isinstance(e.op, ast.Not):
            return not self.truth(v, e.operand)
        if isinstance(e.op, ast.USub):
            if isinstance(v, SymInt):
                return SymInt(-v.c, -v.k)
            return -v
        if isinstance(e.op, ast.UAdd):
            return v
        raise Unsupported(e, "unary operator")

    def e_BinOp(self, e, env, fi):
        return self.binop(e.op, self.eval(e.left, env, fi), self.eval(e.right, env, fi), e)

    def binop(self, op, a, b, node):
        if isinstance(op, (ast.Add, ast.Sub)):
            if isinstance(op, ast.Add) and is_strlike(a) and is_strlike(b):
                return concat([a, b], node)
            if isinstance(a, SymInt) or isinstance(b, SymInt):
                if not isinstance(a, (SymInt, int)) or not isinstance(b, (SymInt, int)):
                    raise Raised("TypeError", node)
                ac, ak = (a.c, a.k) if isinstance(a, SymInt) else (int(a), 0)
                bc, bk = (b.c, b.k) if isinstance(b, SymInt) else (int(b), 0)
                return _mk_int(ac + bc, ak + bk) if isinstance(op, ast.Add) else _mk_int(ac - bc, ak - bk)
            if isinstance(a, SymStr) or isinstance(b, SymStr):
                raise Raised("TypeError", node)
            return a + b if isinstance(op, ast.Add) else a - b
        if isinstance(op, ast.Mult):
            if isinstance(a, SymStr) or isinstance(b, SymStr):
                s, n = (a, b) if isinstance(a, SymStr) else (b, a)
                if isinstance(n, bool) or isinstance(n, int):
                    return concat([s] * int(n), node)
                raise Unknown(node, "repetition of a symbolic text")
            if isinstance(a, SymInt) or isinstance(b, SymInt):
                s, n = (a, b) if isinstance(a, SymInt) else (b, a)
                if isinstance(n, int):
                    return _mk_int(s.c * n, s.k * n)
                raise Unknown(node, "product of symbolic lengths")
            return a * b
        if isinstance(op, ast.Mod):
            if isinstance(a, str):
                vals = b if isinstance(b, tuple) else (b,)
                if any(isinstance(v, (SymStr, SymInt)) for v in vals):
                    chunks = re.split(r"(%s)", a)
                    if a.count("%") != a.count("%s") or a.count("%s") != len(vals):
                        raise Unknown(node, "%-formatting of a symbolic value")
                    it = iter(vals)
                    return concat([self.to_str(next(it), node) if c == "%s" else c for c in chunks], node)
                return a % b
            if isinstance(a, (SymStr, SymInt)) or isinstance(b, (SymStr, SymInt)):
                raise Unknown(node, "% on symbolic values")
            return a % b
        if isinstance(a, (SymStr, SymInt)) or isinstance(b, (SymStr, SymInt)):
            raise Unknown(node, f"operator {type(op).__name__} on symbolic values")
        if isinstance(op, ast.FloorDiv):
            return a // b
        if isinstance(op, ast.BitOr):
            return a | b
        if isinstance(op, ast.BitAnd):
            return a & b
        raise Unsupported(node, f"operator {type(op).__name__}")

    def e_Compare(self, e, env, fi):
        left = self.eval(e.left, env, fi)
        for op, r in zip(e.ops, e.comparators):
            right = self.eval(r, env, fi)
            if not self.compare(op, left, right, e):
                return False
            left = right
        return True

    def compare(self, op, a, b, node) -> bool:
        sym = isinstance(a, (SymStr, SymInt)) or isinstance(b, (SymStr, SymInt))
        if isinstance(op, (ast.Is, ast.IsNot)):
            if a is None or b is None or isinstance(a, bool) or isinstance(b, bool):
                same = a is b
            elif sym:
                raise Unknown(node, "identity of symbolic values")
            else:
                same = a is b or (type(a) is type(b) and isinstance(a, (int, str)) and a == b)
            return same if isinstance(op, ast.Is) else not same
        if not sym:
            if isinstance(op, ast.Eq):
                return a == b
            if isinstance(op, ast.NotEq):
                return a != b
            if isinstance(op, ast.Lt):
                return a < b
            if isinstance(op, ast.LtE):
                return a <= b
            if isinstance(op, ast.Gt):
                return a > b
            if isinstance(op, ast.GtE):
                return a >= b
            if isinstance(op, ast.In):
                return a in b
            if isinstance(op, ast.NotIn):
                return a not in b
            raise Unsupported(node, "comparison operator")
        if isinstance(op, (ast.Eq, ast.NotEq)):
            if isinstance(a, SymStr) or isinstance(b, SymStr):
                r = sym_eq(a, b, node, self.x)
            else:
                r = self._int_cmp(ast.Eq(), a, b, node)
            return r if isinstance(op, ast.Eq) else not r
        if isinstance(op, (ast.In, ast.NotIn)):
            if isinstance(b, SymStr) and isinstance(a, str):
                if any(p[0] == "lit" and a in p[1] for p in b.pieces):
                    r = True
                else:
                    raise Unknown(node, f"whether the opaque text contains {a!r}")
            elif isinstance(b, (tuple, list)) and isinstance(a, SymStr):
                r = any(sym_eq(a, y, node, self.x) for y in b)
            else:
                raise Unknown(node, "membership test on symbolic values")
            return r if isinstance(op, ast.In) else not r
        if isinstance(a, (SymInt, int)) and isinstance(b, (SymInt, int)):
            return self._int_cmp(op, a, b, node)
        raise Unknown(node, "ordering of symbolic texts")

    def _int_cmp(self, op, a, b, node) -> bool:
        d = self.binop(ast.Sub(), a, b, node)  # a - b
        if isinstance(d, int):
            lo = hi = d
        else:
            lo, hi = d.minimum(), d.maximum()

        def decide(true_if, false_if):
            if true_if:
                return True
            if false_if:
                return False
            raise Unknown(node, "comparison of a symbolic length")

        if isinstance(op, ast.Eq):
            return decide(lo is not None and hi is not None and lo == hi == 0, (lo is not None and lo > 0) or (hi is not None and hi < 0))
        if isinstance(op, ast.Lt):
            return decide(hi is not None and hi < 0, lo is not None and lo >= 0)
        if isinstance(op, ast.LtE):
            return decide(hi is not None and hi <= 0, lo is not None and lo > 0)
        if isinstance(op, ast.Gt):
            return decide(lo is not None and lo > 0, hi is not None and hi <= 0)
        if isinstance(op, ast.GtE):
            return decide(lo is not None and lo >= 0, hi is not None and hi < 0)
        raise Unsupported(node, "comparison operator")

    def e_Subscript(self, e, env, fi):
        box = self.eval(e.value, env, fi)
        if isinstance(e.slice, ast.Slice):
            lo = self.eval(e.slice.lower, env, fi) if e.slice.lower is not None else None
            up = self.eval(e.slice.upper, env, fi) if e.slice.upper is not None else None
            st = self.eval(e.slice.step, env, fi) if e.slice.step is not None else None
            if isinstance(box, SymStr):
                return sym_slice(box, lo, up, st, e)
            if any(isinstance(v, SymInt) for v in (lo, up, st)):
                raise Unknown(e, "symbolic bound on a known text")
            return box[lo:up:st]
        idx = self.eval(e.slice, env, fi)
        if isinstance(box, Record):
            if not box.is_tuple or not isinstance(idx, int):
                raise Unsupported(e, f"subscript of a {box.ci.name}")
            return list(box.fields.values())[idx]
        if isinstance(idx, bool):
            idx = int(idx)
        if isinstance(box, SymStr):
            if isinstance(idx, int):
                ps = box.pieces
                if idx >= 0 and ps[0][0] == "lit" and idx < len(ps[0][1]):
                    return ps[0][1][idx]
                if idx < 0 and ps[-1][0] == "lit" and -idx <= len(ps[-1][1]):
                    return ps[-1][1][idx]
                if idx == 0 and ps[0][0] == "raw" and ps[0][1] == 0 and LMIN - ps[0][2] >= 1:
                    return SymStr((("head",),))
                if idx == -1 and ps[-1][0] == "raw" and ps[-1][2] == 0 and LMIN - ps[-1][1] >= 1:
                    return SymStr((("tail",),))
            raise Unknown(e, "a single character of the opaque text")
        if isinstance(idx, (SymInt, SymStr)):
            raise Unknown(e, "symbolic index")
        if isinstance(box, _FUNCS):
            raise Unsupported(e, "subscript of a function")
        return box[idx]

    def e_Attribute(self, e, env, fi):
        base = self.eval(e.value, env, fi)
        if isinstance(base, LibRef):
            if base.name.startswith("mod:"):
                om = self.repo.modules.get(base.name[4:])
                if om is not None:
                    return self.module_name(om, e.attr, e)
            if base.name == "re" and isinstance(getattr(re, e.attr, None), re.RegexFlag):
                return getattr(re, e.attr)
            return LibRef(base.name + "." + e.attr)
        if is_strlike(base) and e.attr in STR_METHODS:
            return Bound(base, e.attr)
        if isinstance(base, (Record, ClassRef)):
            return self.member(base, e.attr, e)
        if isinstance(base, (re.Match, re.Pattern)):
            if e.attr in RE_OBJECT_METHODS:
                return Bound(base, e.attr)
            if e.attr in ("pattern", "string", "lastindex", "flags"):
                return getattr(base, e.attr)
        if isinstance(base, (list, dict, set, tuple)) and e.attr in ("append", "extend", "insert", "pop", "get", "items", "keys", "values", "add", "index", "count", "reverse", "sort", "copy", "update", "setdefault"):
            return Bound(base, e.attr)
        raise Unsupported(e, f"attribute .{e.attr}")

    def member(self, base, name: str, node):
        """`obj.name` / `Cls.name` for a repo class: field, class constant, property, bound / class / static method."""
        ci = base.ci
        if isinstance(base, Record) and name in base.fields:
            return base.fields[name]
        m = self.repo.lookup_method(ci, name)
        if m is not None:
            if [d for d in m.decorators if d not in ("staticmethod", "classmethod", "property")]:
                raise Unsupported(node, f"decorated method {m.qualname}")
            if m.is_staticmethod:
                return FuncRef(m)
            if m.is_classmethod:
                return BoundMethod(m, ClassRef(ci))
            if isinstance(base, ClassRef):
                raise Unsupported(node, f"unbound method {m.qualname}")
            if m.is_property:
                return self.call(m, [base], {}, node, bound=True)
            return BoundMethod(m, base)
        owner = ci
        seen = 0
        while owner is not None and seen < 8:
            seen += 1
            if name in owner.class_attrs:
                holder = FuncInfo(name="<class>", qualname="<class>", node=ast.Lambda(args=ast.arguments(posonlyargs=[], args=[], kwonlyargs=[], kw_defaults=[], defaults=[]), body=owner.class_attrs[name]), module=owner.module)
                return self.eval(owner.class_attrs[name], {}, holder)
            owner = next((self.repo.classes[b] for b in owner.bases if b in self.repo.classes), None)
        raise Unsupported(node, f"attribute .{name} of {ci.name}")

    def construct(self, ci: ClassInfo, args: list, kwargs: dict, node):
        is_nt = any(b.rsplit(".", 1)[-1] == "NamedTuple" for b in ci.bases)
        if any(b in self.repo.classes for b in ci.bases) or len([b for b in ci.bases if b.rsplit(".", 1)[-1] not in ("NamedTuple", "object")]) > 0:
            raise Unsupported(node, f"construction of {ci.name} (base classes)")
        if any(self.repo.lookup_method(ci, m) is not None for m in ("__new__", "__post_init__", "__getattr__", "__getattribute__", "__setattr__")):
            raise Unsupported(node, f"construction of {ci.name} (special methods)")
        init = self.repo.lookup_method(ci, "__init__")
        if is_nt or (ci.is_dataclass and init is None):
            names = list(ci.ann_attrs)
            if len(args) > len(names):
                raise Raised("TypeError", node)
            fields = dict(zip(names, args))
            for k, v in kwargs.items():
                if k not in names or k in fields:
                    raise Raised("TypeError", node)
                fields[k] = v
            for n in names:
                if n not in fields:
                    if n not in ci.class_attrs:
                        raise Raised("TypeError", node)
                    holder = FuncInfo(name="<class>", qualname="<class>", node=ast.Lambda(args=ast.arguments(posonlyargs=[], args=[], kwonlyargs=[], kw_defaults=[], defaults=[]), body=ci.class_attrs[n]), module=ci.module)
                    fields[n] = self.eval(ci.class_attrs[n], {}, holder)
            return Record(ci, {n: fields[n] for n in names}, frozen=is_nt, is_tuple=is_nt)
        if ci.decorators and not ci.is_dataclass:
            raise Unsupported(node, f"construction of the decorated class {ci.name}")
        rec = Record(ci, {})
        if init is not None:
            self.call(init, [rec, *args], kwargs, node, bound=True)
        elif args or kwargs:
            raise Raised("TypeError", node)
        return rec

    def e_Lambda(self, e, env, fi):
        a = e.args
        if a.vararg or a.kwarg or a.kwonlyargs or a.defaults:
            raise Unsupported(e, "lambda with defaults / *args")
        return Closure(e, dict(env), fi)

    def _comp(self, gens, env, fi, emit):
        def rec(i, env):
            if i == len(gens):
                emit(env)
                return
            g = gens[i]
            for item in self.iterate(self.eval(g.iter, env, fi), g.iter):
                self._tick(g.iter)
                env2 = dict(env)
                self.assign(g.target, item, env2, fi)
                if all(self.truth(self.eval(c, env2, fi), c) for c in g.ifs):
                    rec(i + 1, env2)

        rec(0, dict(env))

    def e_ListComp(self, e, env, fi):
        out: list = []
        self._comp(e.generators, env, fi, lambda env2: out.append(self.eval(e.elt, env2, fi)))
        return out

    def e_GeneratorExp(self, e, env, fi):
        return self.e_ListComp(e, env, fi)

    def e_SetComp(self, e, env, fi):
        vals = self.e_ListComp(e, env, fi)
        if any(isinstance(v, (SymStr, SymInt)) for v in vals):
            raise Unknown(e, "set of symbolic values")
        return set(vals)

    def e_DictComp(self, e, env, fi):
        out: dict = {}

        def emit(env2):
            k = self.eval(e.key, env2, fi)
            if isinstance(k, (SymStr, SymInt)):
                raise Unknown(e, "symbolic dict key")
            out[k] = self.eval(e.value, env2, fi)

        self._comp(e.generators, env, fi, emit)
        return out

    def e_Call(self, e, env, fi):
        f = self.eval(e.func, env, fi)
        args = self._elts(e.args, env, fi)
        kwargs = {}
        for k in e.keywords:
            if k.arg is None:
                raise Unsupported(e, "**kwargs in a call")
            kwargs[k.arg] = self.eval(k.value, env, fi)
        return self.apply(f, args, kwargs, e)

    def apply(self, f, args: list, kwargs: dict, node):
        if isinstance(f, FuncRef):
            return self.call(f.fi, args, kwargs, node)
        if isinstance(f, Bound):
            return self.method(f.recv, f.name, args, kwargs, node)
        if isinstance(f, LibRef):
            return self.lib(f.name, args, kwargs, node)
        if isinstance(f, BoundMethod):
            return self.call(f.fi, [f.recv, *args], kwargs, node, bound=True)
        if isinstance(f, ClassRef):
            return self.construct(f.ci, args, kwargs, node)
        if isinstance(f, Closure):
            names = [p.arg for p in [*f.node.args.posonlyargs, *f.node.args.args]]
            if kwargs or len(args) != len(names):
                raise Raised("TypeError", node)
            return self.eval(f.node.body, {**f.env, **dict(zip(names, args))}, f.fi)
        raise Unsupported(node, "call of a non-function")

    def _sym_args(self, args, kwargs) -> bool:
        def has(v):
            if isinstance(v, (SymStr, SymInt)):
                return True
            if isinstance(v, (list, tuple)):
                return any(has(x) for x in v)
            return False

        return any(has(a) for a in args) or any(has(v) for v in kwargs.values())

    def lib(self, name: str, args: list, kwargs: dict, node):
        if name.startswith("builtins."):
            b = name[9:]
            if b == "len" and len(args) == 1 and isinstance(args[0], SymStr):
                return sym_len(args[0], node)
            if b == "str" and len(args) == 1:
                return self.to_str(args[0], node)
            if b == "bool" and len(args) == 1:
                return self.truth(args[0], node)
            if b in ("tuple", "list") and len(args) <= 1:
                vals = list(self.iterate(args[0], node)) if args else []
                return tuple(vals) if b == "tuple" else vals
            if b in ("any", "all") and len(args) == 1:
                vals = [self.truth(v, node) for v in self.iterate(args[0], node)]
                return any(vals) if b == "any" else all(vals)
            if b in ("map", "filter") and len(args) == 2:
                items = self.iterate(args[1], node)
                if b == "map":
                    return [self.apply(args[0], [x], {}, node) for x in items]
                return [x for x in items if (self.truth(x, node) if args[0] is None else self.truth(self.apply(args[0], [x], {}, node), node))]
            if b in ("min", "max") and self._sym_args(args, kwargs):
                vals = list(args[0]) if len(args) == 1 else list(args)
                best = vals[0]
                for v in vals[1:]:
                    if self._int_cmp(ast.Lt() if b == "min" else ast.Gt(), v, best, node):
                        best = v
                return best
            if self._sym_args(args, kwargs):
                raise Unknown(node, f"{b}() on a symbolic value")
            if any(isinstance(a, _FUNCS) for a in args):
                raise Unsupported(node, f"{b}() with a function argument")
            return SAFE_BUILTINS[b](*args, **kwargs)
        if name == "re.escape" and len(args) == 1 and not kwargs:
            if not is_strlike(args[0]):
                raise Raised("TypeError", node)
            return sym_escape(args[0], node)
        if name.startswith("re.") and name[3:] in SAFE_RE:
            if self._sym_args(args, kwargs):
                raise Unknown(node, f"{name}() on a symbolic text")
            if any(isinstance(a, _FUNCS) for a in args):
                raise Unsupported(node, f"{name}() with a function argument")
            return SAFE_RE[name[3:]](*args, **kwargs)
        if name in ("str.join",) and len(args) == 2:
            return self.method(args[0], "join", args[1:], kwargs, node)
        raise Unsupported(node, f"library call {name}()")

    def method(self, recv, name: str, args: list, kwargs: dict, node):
        if isinstance(recv, (re.Match, re.Pattern)):
            if self._sym_args(args, kwargs):
                raise Unknown(node, f"regex .{name}() on a symbolic text")
            if any(isinstance(a, _FUNCS) for a in args):
                raise Unsupported(node, f"regex .{name}() with a function argument")
            return getattr(recv, name)(*args, **kwargs)
        if isinstance(recv, (list, dict, set, tuple)):
            if self._sym_args(args, kwargs) and name not in ("append", "extend", "insert", "add", "setdefault", "update"):
                raise Unknown(node, f".{name}() with a symbolic argument")
            return getattr(recv, name)(*args, **kwargs)
        if name == "join":
            items = list(self.iterate(args[0], node)) if args else []
            if not self._sym_args([recv, items], {}):
                return recv.join(items)
            out = []
            for i, it in enumerate(items):
                if i:
                    out.append(recv)
                out.append(it)
            return concat(out, node)
        if name == "format":
            if not self._sym_args([recv, *args], kwargs):
                return recv.format(*args, **kwargs)
            if isinstance(recv, SymStr):
                raise Unknown(node, "symbolic format string")
            out = []
            auto = 0
            for lit, field, spec, conv in _string.Formatter().parse(recv):
                out.append(lit)
                if field is None:
                    continue
                if spec or conv not in (None, "s"):
                    raise Unknown(node, "format specification on a symbolic value")
                if field == "":
                    v = args[auto]
                    auto += 1
                elif field.isdigit():
                    v = args[int(field)]
                elif field in kwargs:
                    v = kwargs[field]
                else:
                    raise Unknown(node, f"format field {field!r}")
                out.append(self.to_str(v, node))
            return concat(out, node)
        if not self._sym_args([recv, *args], kwargs):
            return getattr(recv, name)(*args, **kwargs)
        # ---- symbolic receiver or argument
        if not isinstance(recv, SymStr):
            if name in ("startswith", "endswith") and isinstance(recv, str) and args and isinstance(args[0], SymStr):
                if min_len(args[0]) > len(recv):
                    return False
            raise Unknown(node, f"`{recv!r}.{name}()` with a symbolic argument")
        if name in ("startswith", "endswith"):
            if len(args) != 1 or kwargs:
                raise Unknown(node, f".{name}() with offsets")
            cands = args[0] if isinstance(args[0], tuple) else (args[0],)
            res = False
            for c in cands:
                if not isinstance(c, str):
                    raise Unknown(node, f".{name}() with a symbolic argument")
                res = res or (sym_startswith if name == "startswith" else sym_endswith)(recv, c, self.x, node)
            return res
        if name in ("strip", "lstrip", "rstrip"):
            chars = args[0] if args else None
            return sym_strip(recv, chars, self.x, name != "rstrip", name != "lstrip", node)
        if name == "removeprefix" and len(args) == 1 and isinstance(args[0], str):
            if sym_startswith(recv, args[0], self.x, node):
                return mk(cut_front(list(recv.pieces), len(args[0]), node))
            return recv
        if name == "removesuffix" and len(args) == 1 and isinstance(args[0], str):
            if sym_endswith(recv, args[0], self.x, node):
                return mk(cut_back(list(recv.pieces), len(args[0]), node))
            return recv
        raise Unknown(node, f".{name}() on the opaque text")


def _load(t: ast.expr) -> ast.expr:
    c = ast.parse(ast.unparse(t), mode="eval").body
    return ast.copy_location(c, t)
